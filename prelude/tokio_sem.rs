// ---- prelude/tokio_sem.rs: ASSUMED contracts of tokio::sync::Semaphore and tokio::time::timeout.
// The semaphore's own guarantee (outstanding permits <= n across all Arc clones, FIFO queue, a
// cancelled acquire leaks nothing, a permit is released when dropped, also on unwind) is tokio's.
pub struct Semaphore { pub n: usize, pub id: Ghost<int> }
pub struct OwnedSemaphorePermit { pub id: Ghost<int> }
pub struct AcquireError {}
pub struct Elapsed {}
pub struct AcquireFut {}
pub struct TimeoutAcq { pub d: Duration }
impl Semaphore {
    #[verifier::external_body]
    pub fn new(permits: usize) -> (r: Semaphore) ensures r.n == permits { unimplemented!() }
    #[verifier::external_body]
    pub fn acquire_owned(self: Arc<Self>) -> AcquireFut { unimplemented!() }
    #[verifier::external_body]
    pub fn available_permits(&self) -> (r: usize) ensures r <= self.n { unimplemented!() }
}
impl AcquireFut {
    #[verifier::external_body]
    pub fn vx_await<Req, Res, E>(self, Tracked(tr): Tracked<&mut Trace<Req, Res, E>>) -> (r: Result<OwnedSemaphorePermit, AcquireError>)
        requires
            old(tr).unguarded == 0,   // #no_unguarded_duty_at_await @LEDGER_TAGS@
            old(tr).held.len() == 0,   // #at_most_one_permit_per_call @SEM_TAGS@
        ensures
            r matches Ok(p) ==> *final(tr) == (Trace { ev: old(tr).ev.push(Ev::AcquireOk(p.id@)), held: old(tr).held.insert(p.id@), ..*old(tr) }) && !old(tr).held.contains(p.id@),
            r is Err ==> *final(tr) == (Trace { ev: old(tr).ev.push(Ev::AcquireClosed), ..*old(tr) }),
    { unimplemented!() }
}
#[verifier::external_body]
pub fn timeout(d: Duration, f: AcquireFut) -> (r: TimeoutAcq) ensures r.d == d { unimplemented!() }
/// tokio::time::timeout_at(deadline, f): the timer's duration is the distance from the clock's current ghost instant to the deadline
/// (no time passes in the model between computing the deadline and arming the timer)
#[verifier::external_body]
pub fn timeout_at(deadline: Instant, f: AcquireFut, clk: &Clock) -> (r: TimeoutAcq)
    ensures r.d.nanos == (if deadline.t >= clk.now@ { (deadline.t - clk.now@) as u128 } else { 0 })
{ unimplemented!() }
impl TimeoutAcq {
    #[verifier::external_body]
    pub fn vx_await<Req, Res, E>(self, Tracked(tr): Tracked<&mut Trace<Req, Res, E>>) -> (r: Result<Result<OwnedSemaphorePermit, AcquireError>, Elapsed>)
        requires
            old(tr).unguarded == 0,   // #no_unguarded_duty_at_await @LEDGER_TAGS@
            old(tr).held.len() == 0,   // #at_most_one_permit_per_call @SEM_TAGS@
        ensures
            r matches Ok(Ok(p)) ==> *final(tr) == (Trace { ev: old(tr).ev.push(Ev::AcquireOk(p.id@)), held: old(tr).held.insert(p.id@), timer: Some(self.d), ..*old(tr) }) && !old(tr).held.contains(p.id@),
            r matches Ok(Err(_)) ==> *final(tr) == (Trace { ev: old(tr).ev.push(Ev::AcquireClosed), timer: Some(self.d), ..*old(tr) }),
            r is Err ==> *final(tr) == (Trace { ev: old(tr).ev.push(Ev::TimedOut(self.d)), timer: Some(self.d), ..*old(tr) }),
    { unimplemented!() }
}
/// explicit drop of a permit (R6). An implicit drop at scope end releases it as well (RAII, assumed).
#[verifier::external_body]
pub fn drop<Req, Res, E>(p: OwnedSemaphorePermit, Tracked(tr): Tracked<&mut Trace<Req, Res, E>>)
    requires old(tr).held.contains(p.id@),
    ensures *final(tr) == (Trace { ev: old(tr).ev.push(Ev::Release(p.id@)), held: old(tr).held.remove(p.id@), ..*old(tr) }),
{ unimplemented!() }
