// ---- prelude/time.rs: shim value types for std::time (R9) and the explicit clock (R5).
// ASSUMED: std::time::{Duration,Instant} behave like these nanosecond counters; the process
// clock is monotone. Durations fit u128 nanoseconds (std: u64 secs + u32 nanos < 2^95).
#[derive(Clone, Copy, Debug, PartialEq, Eq, Structural)]
pub struct Duration { pub nanos: u128 }
impl PartialOrdSpecImpl for Duration {
    open spec fn obeys_partial_cmp_spec() -> bool { true }
    open spec fn partial_cmp_spec(&self, other: &Duration) -> Option<CmpOrdering> {
        if self.nanos < other.nanos { Some(CmpOrdering::Less) } else if self.nanos == other.nanos { Some(CmpOrdering::Equal) } else { Some(CmpOrdering::Greater) }
    }
}
impl PartialOrd for Duration {
    fn partial_cmp(&self, other: &Duration) -> (r: Option<CmpOrdering>) {
        if self.nanos < other.nanos { Some(CmpOrdering::Less) } else if self.nanos == other.nanos { Some(CmpOrdering::Equal) } else { Some(CmpOrdering::Greater) }
    }
}
impl vstd::std_specs::ops::AddSpecImpl<Duration> for Duration {
    open spec fn obeys_add_spec() -> bool { true }
    open spec fn add_req(self, rhs: Duration) -> bool { self.nanos + rhs.nanos <= u128::MAX }
    open spec fn add_spec(self, rhs: Duration) -> Duration { Duration { nanos: (self.nanos + rhs.nanos) as u128 } }
}
impl core::ops::Add<Duration> for Duration {
    type Output = Duration;
    fn add(self, rhs: Duration) -> (r: Duration) { Duration { nanos: self.nanos + rhs.nanos } }
}
impl Duration {
    pub const ZERO: Duration = Duration { nanos: 0 };
    pub fn saturating_sub(self, rhs: Duration) -> (r: Duration)
        ensures r.nanos == (if self.nanos >= rhs.nanos { self.nanos - rhs.nanos } else { 0 })
    { if self.nanos >= rhs.nanos { Duration { nanos: self.nanos - rhs.nanos } } else { Duration { nanos: 0 } } }
    pub fn from_millis(ms: u64) -> (r: Duration) ensures r.nanos == ms as nat * 1_000_000
    { Duration { nanos: ms as u128 * 1_000_000 } }
    pub fn from_secs(s: u64) -> (r: Duration) ensures r.nanos == s as nat * 1_000_000_000
    { Duration { nanos: s as u128 * 1_000_000_000 } }
    pub fn is_zero(&self) -> (r: bool) ensures r == (self.nanos == 0) { self.nanos == 0 }
    /// u64::MAX seconds + 999_999_999 ns
    pub const MAX: Duration = Duration { nanos: 18_446_744_073_709_551_615_999_999_999 };
    pub fn max(self, other: Duration) -> (r: Duration) ensures r == (if other.nanos > self.nanos { other } else { self })
    { if other.nanos > self.nanos { other } else { self } }
    pub fn min(self, other: Duration) -> (r: Duration) ensures r == (if other.nanos < self.nanos { other } else { self })
    { if other.nanos < self.nanos { other } else { self } }
    pub fn checked_sub(self, rhs: Duration) -> (r: Option<Duration>)
        ensures self.nanos >= rhs.nanos ==> r == Some(Duration { nanos: (self.nanos - rhs.nanos) as u128 }), self.nanos < rhs.nanos ==> r is None
    { if self.nanos >= rhs.nanos { Some(Duration { nanos: self.nanos - rhs.nanos }) } else { None } }
    pub fn checked_add(self, rhs: Duration) -> (r: Option<Duration>)
        ensures self.nanos + rhs.nanos <= Duration::MAX.nanos ==> r == Some(Duration { nanos: (self.nanos + rhs.nanos) as u128 }), self.nanos + rhs.nanos > Duration::MAX.nanos ==> r is None
    { match self.nanos.checked_add(rhs.nanos) { Some(n) => if n <= 18_446_744_073_709_551_615_999_999_999 { Some(Duration { nanos: n }) } else { None }, None => None } }
    pub fn as_micros(&self) -> (r: u128) ensures r == self.nanos / 1_000 { self.nanos / 1_000 }
    pub fn as_nanos(&self) -> (r: u128) ensures r == self.nanos { self.nanos }
    pub fn from_micros(us: u64) -> (r: Duration) ensures r.nanos == us as nat * 1_000 { Duration { nanos: us as u128 * 1_000 } }
    pub fn from_nanos(ns: u64) -> (r: Duration) ensures r.nanos == ns as nat { Duration { nanos: ns as u128 } }
    pub fn as_millis(&self) -> (r: u128) ensures r == self.nanos / 1_000_000
    { self.nanos / 1_000_000 }
    pub fn subsec_millis(&self) -> (r: u32) ensures r == (self.nanos % 1_000_000_000) / 1_000_000
    { ((self.nanos % 1_000_000_000) / 1_000_000) as u32 }
    pub fn as_secs(&self) -> (r: u64) requires self.nanos / 1_000_000_000 <= u64::MAX ensures r == self.nanos / 1_000_000_000
    { (self.nanos / 1_000_000_000) as u64 }
}
#[derive(Clone, Copy, Debug, PartialEq, Eq, Structural)]
pub struct Instant { pub t: u128 }
impl PartialOrdSpecImpl for Instant {
    open spec fn obeys_partial_cmp_spec() -> bool { true }
    open spec fn partial_cmp_spec(&self, other: &Instant) -> Option<CmpOrdering> {
        if self.t < other.t { Some(CmpOrdering::Less) } else if self.t == other.t { Some(CmpOrdering::Equal) } else { Some(CmpOrdering::Greater) }
    }
}
impl PartialOrd for Instant {
    fn partial_cmp(&self, other: &Instant) -> (r: Option<CmpOrdering>) {
        if self.t < other.t { Some(CmpOrdering::Less) } else if self.t == other.t { Some(CmpOrdering::Equal) } else { Some(CmpOrdering::Greater) }
    }
}
impl vstd::std_specs::ops::AddSpecImpl<Duration> for Instant {
    open spec fn obeys_add_spec() -> bool { true }
    open spec fn add_req(self, rhs: Duration) -> bool { self.t + rhs.nanos <= u128::MAX }
    open spec fn add_spec(self, rhs: Duration) -> Instant { Instant { t: (self.t + rhs.nanos) as u128 } }
}
impl core::ops::Add<Duration> for Instant {
    type Output = Instant;
    fn add(self, rhs: Duration) -> (r: Instant) { Instant { t: self.t + rhs.nanos } }
}
impl Instant {
    /// Ord::min / Ord::max on instants (inherent here: the shim has no Ord impl)
    pub fn min(self, other: Instant) -> (r: Instant) ensures r.t == (if self.t <= other.t { self.t } else { other.t }) { if self.t <= other.t { self } else { other } }
    pub fn max(self, other: Instant) -> (r: Instant) ensures r.t == (if self.t >= other.t { self.t } else { other.t }) { if self.t >= other.t { self } else { other } }
    pub fn duration_since(&self, earlier: Instant) -> (r: Duration)
        ensures r.nanos == (if self.t >= earlier.t { self.t - earlier.t } else { 0 })
    { if self.t >= earlier.t { Duration { nanos: self.t - earlier.t } } else { Duration { nanos: 0 } } }
    pub fn saturating_duration_since(&self, earlier: Instant) -> (r: Duration)
        ensures r.nanos == (if self.t >= earlier.t { self.t - earlier.t } else { 0 })
    { self.duration_since(earlier) }
    /// ASSUMED: the platform clock's origin is the shim's 0 (an instant before it is not representable)
    pub fn checked_sub(&self, d: Duration) -> (r: Option<Instant>)
        ensures self.t >= d.nanos ==> r == Some(Instant { t: (self.t - d.nanos) as u128 }), self.t < d.nanos ==> r is None
    { if self.t >= d.nanos { Some(Instant { t: self.t - d.nanos }) } else { None } }
    pub fn checked_duration_since(&self, earlier: Instant) -> (r: Option<Duration>)
        ensures self.t >= earlier.t ==> r == Some(Duration { nanos: (self.t - earlier.t) as u128 }), self.t < earlier.t ==> r is None
    { if self.t >= earlier.t { Some(Duration { nanos: self.t - earlier.t }) } else { None } }
    pub fn checked_add(&self, d: Duration) -> (r: Option<Instant>)
        ensures self.t + d.nanos <= u128::MAX ==> r == Some(Instant { t: (self.t + d.nanos) as u128 }),
                self.t + d.nanos > u128::MAX ==> r is None
    { match self.t.checked_add(d.nanos) { Some(t) => Some(Instant { t }), None => None } }
}
pub fn vx_copied<T: Copy>(o: Option<&T>) -> (r: Option<T>) ensures o is None ==> r is None, o is Some ==> r == Some(*o->0) { match o { Some(x) => Some(*x), None => None } }
pub struct Clock { pub now: Ghost<nat> }
impl Clock {
    #[verifier::external_body]
    pub fn now(&mut self) -> (r: Instant)
        ensures r.t >= old(self).now@, final(self).now@ == r.t,
    { unimplemented!() }
    #[verifier::external_body]
    pub fn elapsed(&mut self, since: Instant) -> (r: Duration)
        ensures final(self).now@ >= old(self).now@,
                r.nanos == (if final(self).now@ >= since.t { final(self).now@ - since.t } else { 0 }),
    { unimplemented!() }
}
