// ---- prelude/vecdeque.rs: ASSUMED specifications of std VecDeque methods vstd does not cover.
pub assume_specification<T, A: std::alloc::Allocator> [std::collections::VecDeque::<T, A>::front] (q: &std::collections::VecDeque<T, A>) -> (r: std::option::Option<&T>)
    ensures q@.len() == 0 ==> r is None, q@.len() > 0 ==> r == Some(&q@[0]);
