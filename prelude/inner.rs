// ---- prelude/inner.rs: the wrapped service as a contract (DESIGN §4.2) — ASSUMED Tower contract.
pub enum Poll<T> { Ready(T), Pending }
impl<T> Poll<T> {
    pub fn is_pending(&self) -> (b: bool) ensures b == (*self is Pending) { match self { Poll::Pending => true, _ => false } }
    pub fn is_ready(&self) -> (b: bool) ensures b == (*self is Ready) { match self { Poll::Ready(_) => true, _ => false } }
}
pub struct Waker { pub p: u8 }
impl Waker { #[verifier::external_body] pub fn wake_by_ref(&self) { unimplemented!() } }
pub struct Context { pub p: u8 }
impl Context { #[verifier::external_body] pub fn waker(&self) -> &Waker { unimplemented!() } }
pub struct InnerFut<Req, Res, E> { pub p: core::marker::PhantomData<(Req, Res, E)> }
pub struct Inner<Req, Res, E> { pub ready: Ghost<bool>, pub polls: Ghost<nat>, pub p: core::marker::PhantomData<(Req, Res, E)> }
impl<Req, Res, E> Inner<Req, Res, E> {
    #[verifier::external_body]
    pub fn poll_ready(&mut self, cx: &mut Context) -> (r: Poll<Result<(), E>>)
        ensures (r matches Poll::Ready(Ok(_))) ==> final(self).ready@,
                !(r matches Poll::Ready(Ok(_))) ==> final(self).ready@ == old(self).ready@,
                final(self).polls@ == old(self).polls@ + 1,
    { unimplemented!() }
    #[verifier::external_body]
    pub fn call(&mut self, req: Req, Tracked(tr): Tracked<&mut Trace<Req, Res, E>>) -> (f: InnerFut<Req, Res, E>)
        requires
            old(self).ready@,   // #inner_called_only_on_an_instance_observed_ready [C20]
            call_gate(*old(tr)),   // #inner_call_gate @GATE_TAGS@
            old(tr).unguarded == 0,   // #no_unguarded_duty_when_inner_call_may_panic @LEDGER_TAGS@
        ensures
            !final(self).ready@, final(self).polls == old(self).polls,
            *final(tr) == (Trace { ev: old(tr).ev.push(Ev::InnerCall(req)), calls: old(tr).calls + 1, last_req: Some(req), reqs: old(tr).reqs.push(req), call_at: old(tr).ev.len(), ..*old(tr) }),
    { unimplemented!() }
    /// poll_ready inside a hand-written future: as poll_ready, and a readiness ERROR is recorded in the trace
    #[verifier::external_body]
    pub fn poll_ready_tr(&mut self, cx: &mut Context, Tracked(tr): Tracked<&mut Trace<Req, Res, E>>) -> (r: Poll<Result<(), E>>)
        ensures (r matches Poll::Ready(Ok(_))) ==> final(self).ready@,
                !(r matches Poll::Ready(Ok(_))) ==> final(self).ready@ == old(self).ready@,
                final(self).polls@ == old(self).polls@ + 1,
                r matches Poll::Ready(Err(e)) ==> *final(tr) == (Trace { ready_err: Some(e), ..*old(tr) }),
                !(r matches Poll::Ready(Err(_))) ==> *final(tr) == *old(tr),
    { unimplemented!() }
    /// `poll_fn(|cx| s.poll_ready(cx)).await` (or `ServiceExt::ready`): drives THIS instance to readiness — an await of unbounded
    /// length — or yields the readiness error
    #[verifier::external_body]
    pub fn vx_ready(&mut self, Tracked(tr): Tracked<&mut Trace<Req, Res, E>>) -> (r: Result<(), E>)
        requires old(tr).unguarded == 0,   // #no_unguarded_duty_at_await @LEDGER_TAGS@
        ensures
            r is Ok ==> final(self).ready@ && *final(tr) == (Trace { blocked: old(tr).blocked + 1, ..*old(tr) }),
            r matches Err(e) ==> *final(tr) == (Trace { blocked: old(tr).blocked + 1, ready_err: Some(e), ..*old(tr) }),
            final(self).polls@ >= old(self).polls@,
    { unimplemented!() }
    /// tower::ServiceExt::oneshot: drives THIS instance to readiness (an await of unbounded length) and then calls it
    #[verifier::external_body]
    pub fn oneshot(self, req: Req, Tracked(tr): Tracked<&mut Trace<Req, Res, E>>) -> (f: OneshotFut<Req, Res, E>)
        ensures f.req == req, *final(tr) == *old(tr),
    { unimplemented!() }
    /// a clone has not been driven to readiness (strict services such as Buffer reserve capacity in poll_ready)
    #[verifier::external_body]
    pub fn clone(&self) -> (r: Self) ensures !r.ready@ { unimplemented!() }
}
impl<Req, Res, E> InnerFut<Req, Res, E> {
    #[verifier::external_body]
    pub fn vx_await(self, Tracked(tr): Tracked<&mut Trace<Req, Res, E>>) -> (r: Result<Res, E>)
        requires
            await_gate(*old(tr)),   // #inner_future_gate @GATE_TAGS@
            old(tr).unguarded == 0,   // #no_unguarded_duty_at_await @LEDGER_TAGS@
        ensures
            *final(tr) == (Trace { ev: old(tr).ev.push(Ev::InnerDone(r)), done: old(tr).done + 1, last_done: Some(r), slept_since_done: 0, granted_since_done: false, ..*old(tr) }),
    { unimplemented!() }
}
pub struct OneshotFut<Req, Res, E> { pub req: Req, pub p: core::marker::PhantomData<(Res, E)> }
impl<Req, Res, E> OneshotFut<Req, Res, E> {
    /// either readiness fails (no inner call, the readiness error is the result) or the request is called and completes; in both
    /// cases the task first waited for readiness (`blocked`)
    #[verifier::external_body]
    pub fn vx_await(self, Tracked(tr): Tracked<&mut Trace<Req, Res, E>>) -> (r: Result<Res, E>)
        requires
            call_gate(*old(tr)),   // #inner_call_gate @GATE_TAGS@
            await_gate(*old(tr)),   // #inner_future_gate @GATE_TAGS@
            old(tr).unguarded == 0,   // #no_unguarded_duty_at_await @LEDGER_TAGS@
        ensures
            (r is Err && *final(tr) == (Trace { blocked: old(tr).blocked + 1, ..*old(tr) }))
            || *final(tr) == (Trace { ev: old(tr).ev.push(Ev::InnerCall(self.req)).push(Ev::InnerDone(r)), calls: old(tr).calls + 1, done: old(tr).done + 1,
                   last_req: Some(self.req), reqs: old(tr).reqs.push(self.req), call_at: old(tr).ev.len(), last_done: Some(r), slept_since_done: 0,
                   granted_since_done: false, blocked: old(tr).blocked + 1, ..*old(tr) }),
    { unimplemented!() }
}
pub assume_specification<T> [std::mem::replace::<T>] (dest: &mut T, src: T) -> (r: T)
    ensures *final(dest) == src, r == *old(dest);
