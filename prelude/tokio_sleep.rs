// ---- prelude/tokio_sleep.rs: ASSUMED contract of tokio::time::sleep (completes no earlier than d after creation).
pub struct SleepFut { pub d: Duration }
#[verifier::external_body]
pub fn sleep(d: Duration) -> (r: SleepFut) ensures r.d == d { unimplemented!() }
impl SleepFut {
    #[verifier::external_body]
    pub fn vx_await<Req, Res, E>(self, Tracked(tr): Tracked<&mut Trace<Req, Res, E>>)
        requires old(tr).unguarded == 0,   // #no_unguarded_duty_at_await @LEDGER_TAGS@
        ensures *final(tr) == (Trace { ev: old(tr).ev.push(Ev::Sleep(self.d)), slept: old(tr).slept + self.d.nanos as nat,
                                       slept_since_done: old(tr).slept_since_done + self.d.nanos as nat, ..*old(tr) }),
    { unimplemented!() }
}
/// tokio::time::sleep_until(deadline): the timer's duration is the distance from the clock's current ghost instant to the deadline
#[verifier::external_body]
pub fn sleep_until(deadline: Instant, clk: &Clock) -> (r: SleepFut)
    ensures r.d.nanos == (if deadline.t >= clk.now@ { (deadline.t - clk.now@) as u128 } else { 0 })
{ unimplemented!() }
