// ---- prelude/events.rs: EventListeners<E> as an opaque observer registry (ASSUMED: listeners only observe;
// `.emit(..)` statements are dropped by R2, the registry itself stays visible to the code under contract).
pub struct EventListeners { pub n: Ghost<nat> }
impl EventListeners {
    #[verifier::external_body]
    pub fn is_empty(&self) -> (r: bool) ensures r == (self.n@ == 0) { unimplemented!() }
    #[verifier::external_body]
    pub fn len(&self) -> (r: usize) ensures r == self.n@ { unimplemented!() }
}
/// the pattern's name (String): carried only into events and metrics
pub struct Name { pub p: Ghost<int> }
impl Name { #[verifier::external_body] pub fn clone(&self) -> (r: Name) ensures r == *self { unimplemented!() } }
