// ---- prelude/trace.rs: ghost effect trace and obligation ledger (DESIGN §4.4).
// One task's effects, in order. All contracts that append to it are ASSUMPTIONS about the
// world outside the unit (inner service, tokio primitives).
pub enum Ev<Req, Res, E> {
    InnerCall(Req), InnerDone(Result<Res, E>),
    AcquireOk(int), AcquireClosed, TimedOut(Duration), Release(int),
    Sleep(Duration), Withdraw(bool), Deposit, FutureCreated, Opaque, ClockRead(nat), Lock, Gate(bool),
}
/// unit-specific decisions recorded by the unit's own shims
pub enum Note { Gate(bool), Record { failure: bool, nanos: nat }, Kernel(int), Budget(bool), Lock, Feedback { success: bool } }
pub tracked struct Trace<Req, Res, E> {
    pub ghost notes: Seq<Note>,
    pub ghost spawned: nat,                 // detached tasks started by this function (R17: their bodies run in line)
    pub ghost queue: Seq<(usize, Result<Res, E>)>,   // messages sent on the result channel and not yet received
    pub ghost last_recv: Option<(usize, Result<Res, E>)>,   // the message most recently received from the result channel
    pub ghost tx_alive: bool,               // the function still holds its own sender of the result channel
    pub ghost chan_cap: nat,                // capacity the result channel was created with
    pub ghost spawn_at: Seq<nat>,           // instant at which each detached task was started
    pub ghost recv_ok: nat,                 // Ok results received
    pub ghost recv_err: nat,                // Err results received
    pub ghost draws: nat,                   // random draws this task consumed from the seeded generator
    pub ghost draws_at_future: nat,         // how many of them had been consumed when the returned future was created
    pub ghost call_at: nat,                 // index in ev of the most recent InnerCall event
    pub ghost timer: Option<Duration>,      // duration handed to the deadline timer (timeout / sleep racing the inner call)
    pub ghost awaits_before_timer: nat,     // awaits performed before the deadline timer was created
    pub ghost inner_dropped: bool,          // the inner future was dropped unfinished (cancelled)
    pub ghost opaque: bool,                 // control went through a block outside the dialect (R15): nothing is claimed about it
    pub ghost store_gets: Seq<int>,         // ids of the keys this task looked up in the cache store
    pub ghost store_inserts: Seq<(int, Res)>,   // (key id, value) pairs this task inserted into the cache store
    pub ghost sent: Seq<(int, Result<Res, E>)>,   // (channel id, value) broadcast by this task
    pub ghost removed: nat,                 // registrations this task removed from the in-flight map (complete or cancel)
    pub ghost published: Option<u64>,       // last value this task stored into the published-state cell
    pub ghost permits: nat,                 // rate-limiter permits this task consumed
    pub ghost guarded: nat,                 // duties held by an RAII guard whose Drop is under contract
    pub ghost incs: nat,                    // increments of the in-flight counter by this task
    pub ghost decs: nat,                    // decrements of the in-flight counter by this task
    pub ghost obs_inflight: Option<usize>,  // last in-flight value this task loaded
    pub ghost obs_limit: Option<usize>,     // last limit this task obtained from the algorithm
    pub ghost reqs: Seq<Req>,               // the requests handed to the inner service, in order
    pub ghost slept_since_done: nat,        // nanoseconds slept since the last InnerDone
    pub ghost granted_since_done: bool,     // a budget grant was obtained since the last InnerDone
    pub ghost denied: bool,                 // the budget refused a retry
    pub ghost fb_calls: nat,       // calls of the fallback / backup
    pub ghost fb_req: Option<Req>,
    pub ghost fb_done: Option<Result<Res, E>>,
    pub ghost ev: Seq<Ev<Req, Res, E>>,
    pub ghost calls: nat,          // number of InnerCall events
    pub ghost done: nat,           // number of InnerDone events
    pub ghost held: Set<int>,      // permits acquired and not yet released by this task
    pub ghost unguarded: nat,      // duties not yet handed to an RAII guard (ledger)
    pub ghost slept: nat,          // total nanoseconds handed to sleep()
    pub ghost last_req: Option<Req>,
    pub ghost last_done: Option<Result<Res, E>>,
    pub ghost admitted: bool,      // unit-specific gate flag (set by the unit's own admission shim)
    pub ghost created: bool,       // the returned future exists (everything before is synchronous in call())
    pub ghost blocked: nat,        // number of awaits performed before the first InnerCall other than the gate's own
    pub ghost ready_err: Option<E>,   // the readiness error that ended the request (poll_ready failed between attempts)
}
impl<Req, Res, E> Trace<Req, Res, E> {
    /// everything that concerns the inner service and the ledger is the same in both traces
    pub open spec fn same_inner(self, o: Self) -> bool {
        self.calls == o.calls && self.done == o.done && self.last_req == o.last_req && self.last_done == o.last_done && self.reqs == o.reqs
            && self.created == o.created && self.unguarded == o.unguarded && self.guarded == o.guarded && self.held == o.held && self.admitted == o.admitted
            && self.fb_calls == o.fb_calls && self.notes == o.notes && self.blocked == o.blocked
    }
    pub open spec fn fresh(self) -> bool {
        self.ev.len() == 0 && self.calls == 0 && self.done == 0 && self.held.len() == 0 && self.held.finite() && self.unguarded == 0 && self.slept == 0
            && self.notes.len() == 0 && self.spawned == 0 && self.spawn_at.len() == 0 && self.queue.len() == 0 && self.last_recv is None && !self.tx_alive && self.recv_ok == 0 && self.recv_err == 0 && self.draws == 0 && self.draws_at_future == 0 && self.call_at == 0 && self.timer is None && self.awaits_before_timer == 0 && !self.inner_dropped && !self.opaque && self.store_gets.len() == 0 && self.store_inserts.len() == 0 && self.sent.len() == 0 && self.removed == 0 && self.published is None && self.permits == 0 && self.guarded == 0 && self.incs == 0 && self.decs == 0 && self.obs_inflight is None && self.obs_limit is None && self.reqs.len() == 0 && self.slept_since_done == 0 && !self.granted_since_done && !self.denied && self.fb_calls == 0 && self.fb_req is None && self.fb_done is None
            && self.last_req is None && self.last_done is None && !self.admitted && !self.created && self.blocked == 0 && self.ready_err is None
    }
}
impl<Req, Res, E> Trace<Req, Res, E> {
    /// R4: the async block starts here. Everything before ran synchronously inside call(); the
    /// future may be dropped right here without ever being polled (cancellation point).
    pub proof fn future_created(tracked &mut self)
        requires old(self).unguarded == 0,   // #no_unguarded_duty_when_future_is_created @LEDGER_TAGS@
        ensures *final(self) == (Trace { created: true, ev: old(self).ev.push(Ev::FutureCreated), ..*old(self) }),
    { self.created = true; self.ev = self.ev.push(Ev::FutureCreated); }
}
