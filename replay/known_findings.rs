//! Replay of the KNOWN FINDINGS of /verif against the real crates (run by tools/replay_known.sh in a scratch
//! worktree of /repo, as tests/kf_replay.rs of the workspace root package). Every test PASSES when the recorded
//! defect manifests on the real code, i.e. a passing run demonstrates that the finding is genuine.
use std::future::Future;
use std::pin::Pin;
use std::sync::atomic::{AtomicBool, AtomicUsize, Ordering};
use std::sync::Arc;
use std::task::{Context, Poll};
use std::time::Duration;
use tower::{Layer, Service, ServiceExt};

type BoxFut<T, E> = Pin<Box<dyn Future<Output = Result<T, E>> + Send>>;

/// C04: the count-based window never slides. Window 2, threshold 0.9: eight successes, then two failures —
/// the last `sliding_window_size` calls are 100% failures, a sliding window would trip, the real code does not.
#[tokio::test]
async fn c04_count_based_window_never_slides() {
    use tower_resilience_circuitbreaker::{CircuitBreakerLayer, CircuitState};
    let fail = Arc::new(AtomicBool::new(false));
    let f2 = Arc::clone(&fail);
    let svc = tower::service_fn(move |_: ()| {
        let f = f2.load(Ordering::SeqCst);
        async move { if f { Err::<(), &'static str>("boom") } else { Ok(()) } }
    });
    let layer = CircuitBreakerLayer::builder()
        .sliding_window_size(2).minimum_number_of_calls(2).failure_rate_threshold(0.9)
        .build();
    let mut cb = layer.layer_fn(svc);
    for _ in 0..8 { let _ = cb.ready().await.unwrap().call(()).await; }
    fail.store(true, Ordering::SeqCst);
    for _ in 0..2 { let _ = cb.ready().await.unwrap().call(()).await; }
    // documented machine over a window of 2: rate 2/2 = 1.0 >= 0.9 -> Open. Real code: rate 2/10 -> Closed.
    assert_eq!(cb.state().await, CircuitState::Closed, "finding no longer reproduces: the window slid");
    let m = cb.metrics().await;
    assert_eq!(m.total_calls, 10, "counters cover the whole history, not the last 2 calls");
}

/// C09: half-open admits every caller that arrives before the first trial completes.
#[tokio::test]
async fn c09_half_open_admits_more_than_permitted() {
    use tower_resilience_circuitbreaker::CircuitBreakerLayer;
    let entered = Arc::new(AtomicUsize::new(0));
    let gate = Arc::new(tokio::sync::Notify::new());
    let failing = Arc::new(AtomicBool::new(true));
    let (e2, g2, f2) = (Arc::clone(&entered), Arc::clone(&gate), Arc::clone(&failing));
    let svc = tower::service_fn(move |_: ()| {
        let (e, g, f) = (Arc::clone(&e2), Arc::clone(&g2), f2.load(Ordering::SeqCst));
        async move {
            if f { return Err::<(), &'static str>("boom"); }
            e.fetch_add(1, Ordering::SeqCst);
            g.notified().await;
            Ok(())
        }
    });
    let layer = CircuitBreakerLayer::builder()
        .sliding_window_size(2).minimum_number_of_calls(2).failure_rate_threshold(0.5)
        .wait_duration_in_open(Duration::from_millis(30)).permitted_calls_in_half_open(2)
        .build();
    let cb = layer.layer_fn(svc);
    let mut c = cb.clone();
    for _ in 0..2 { let _ = c.ready().await.unwrap().call(()).await; }
    assert!(cb.is_open());
    tokio::time::sleep(Duration::from_millis(60)).await;
    failing.store(false, Ordering::SeqCst);
    let mut handles = Vec::new();
    for _ in 0..10 {
        let mut c = cb.clone();
        handles.push(tokio::spawn(async move { c.ready().await.unwrap().call(()).await }));
    }
    tokio::time::sleep(Duration::from_millis(100)).await;
    let n = entered.load(Ordering::SeqCst);
    gate.notify_waiters();
    for _ in 0..20 { gate.notify_waiters(); tokio::time::sleep(Duration::from_millis(5)).await; }
    assert!(n > 2, "finding no longer reproduces: only {n} trial calls reached the inner service (permitted 2)");
}

/// C11: a synchronous panic of inner.call() in the leader leaves the key registered: the next request for that key
/// becomes a waiter on a channel nobody completes.
#[derive(Clone)]
struct PanicsOnFirstCall { first: Arc<AtomicBool> }
impl Service<String> for PanicsOnFirstCall {
    type Response = String; type Error = String; type Future = BoxFut<String, String>;
    fn poll_ready(&mut self, _: &mut Context<'_>) -> Poll<Result<(), String>> { Poll::Ready(Ok(())) }
    fn call(&mut self, req: String) -> Self::Future {
        if self.first.swap(false, Ordering::SeqCst) { panic!("synchronous panic in call()"); }
        Box::pin(async move { Ok(req) })
    }
}
#[tokio::test]
async fn c11_leader_sync_panic_no_longer_leaves_key_registered() {
    use tower_resilience_coalesce::CoalesceLayer;
    let svc = CoalesceLayer::new(|r: &String| r.clone()).layer(PanicsOnFirstCall { first: Arc::new(AtomicBool::new(true)) });
    let mut a = svc.clone();
    let r = std::panic::catch_unwind(std::panic::AssertUnwindSafe(|| { let _ = a.call("k".to_string()); }));
    assert!(r.is_err(), "first call must panic");
    let mut b = svc.clone();
    let second = tokio::time::timeout(Duration::from_millis(300), b.ready().await.unwrap().call("k".to_string())).await;
    // FIXED by the `fix:` commit "coalesce leader un-registers its key when the inner service panics in call()":
    // before the fix this timed out (the key stayed registered); now the second request starts a fresh call.
    assert!(matches!(second, Ok(Ok(_))), "regression: the second request for the same key did not complete: {second:?}");
}

/// C11 (FIXED in /repo by "fix: coalesce leader clones its result before giving up its key"): a leader whose result's Clone impl
/// panics used to leave its key registered (waiters spun forever). The test asserts the repaired behaviour.
static PANIC_ON_CLONE: AtomicBool = AtomicBool::new(false);

#[derive(Debug)]
struct Resp(u32);
impl Clone for Resp {
    fn clone(&self) -> Self {
        if PANIC_ON_CLONE.load(Ordering::SeqCst) {
            panic!("Clone of the response panics");
        }
        Resp(self.0)
    }
}

#[tokio::test]
async fn c11_leader_panic_in_result_clone_frees_the_key_fixed() {
    let calls = Arc::new(AtomicUsize::new(0));
    let c2 = Arc::clone(&calls);
    let svc = tower::service_fn(move |_k: u32| {
        let c = Arc::clone(&c2);
        async move {
            c.fetch_add(1, Ordering::SeqCst);
            tokio::time::sleep(Duration::from_millis(50)).await;
            Ok::<Resp, String>(Resp(7))
        }
    });
    use tower_resilience_coalesce::CoalesceLayer;
    let layer = CoalesceLayer::new(|k: &u32| *k);
    let mut leader_svc = layer.layer(svc);
    let mut waiter_svc = leader_svc.clone();
    let mut later_svc = leader_svc.clone();

    PANIC_ON_CLONE.store(true, Ordering::SeqCst);
    // leader: panics inside poll when it clones the result for its waiters
    let leader = tokio::spawn(async move { leader_svc.ready().await.unwrap().call(1).await.map(|r| r.0) });
    tokio::time::sleep(Duration::from_millis(10)).await;
    let waiter = tokio::spawn(async move { waiter_svc.ready().await.unwrap().call(1).await.map(|r| r.0) });

    let l = leader.await;
    assert!(l.is_err(), "the leader task is expected to panic in Clone");
    PANIC_ON_CLONE.store(false, Ordering::SeqCst);

    // property: the waiter fails promptly (leader-cancelled), it does not wait forever
    let w = tokio::time::timeout(Duration::from_millis(500), waiter).await;
    assert!(w.is_ok(), "waiter still waiting 500 ms after the leader panicked");
    // and the key is usable again at once: a later request starts a fresh call and completes
    let r = tokio::time::timeout(Duration::from_millis(500), async move { later_svc.ready().await.unwrap().call(1).await }).await;
    assert!(r.is_ok(), "a request arriving after the leader's panic waits forever: the key was never un-registered");
    assert_eq!(calls.load(Ordering::SeqCst), 2);
}

/// C20 (FIXED): retries and reconnect retries used to call an instance that had not been polled ready since its previous call;
/// hedge called fresh clones. The tests assert the repaired behaviour with a service that checks per-instance readiness.
#[derive(Debug, Clone)]
struct Refused;
impl std::fmt::Display for Refused { fn fmt(&self, f: &mut std::fmt::Formatter<'_>) -> std::fmt::Result { write!(f, "connection refused") } }
impl std::error::Error for Refused {}
#[derive(Clone)]
struct StrictReadiness { ready: bool, violations: Arc<AtomicUsize>, fails_left: Arc<AtomicUsize> }
impl Service<String> for StrictReadiness {
    type Response = String; type Error = Refused; type Future = BoxFut<String, Refused>;
    fn poll_ready(&mut self, _: &mut Context<'_>) -> Poll<Result<(), Refused>> { self.ready = true; Poll::Ready(Ok(())) }
    fn call(&mut self, req: String) -> Self::Future {
        if !self.ready { self.violations.fetch_add(1, Ordering::SeqCst); }
        self.ready = false;
        let fail = self.fails_left.fetch_update(Ordering::SeqCst, Ordering::SeqCst, |v| v.checked_sub(1)).is_ok();
        Box::pin(async move { if fail { Err(Refused) } else { Ok(req) } })
    }
}
#[tokio::test]
async fn c20_retry_every_attempt_on_a_ready_instance_fixed() {
    use tower_resilience_retry::RetryLayer;
    let v = Arc::new(AtomicUsize::new(0));
    let inner = StrictReadiness { ready: false, violations: Arc::clone(&v), fails_left: Arc::new(AtomicUsize::new(1)) };
    let layer = RetryLayer::<String, Refused>::builder().max_attempts(3).fixed_backoff(Duration::from_millis(1)).build();
    let mut svc = layer.layer(inner);
    let out = svc.ready().await.unwrap().call("x".to_string()).await;
    assert!(out.is_ok());
    // FIXED by "fix: retry drives the service to readiness again before each further attempt": before the fix the second attempt
    // was made without a fresh poll_ready (violations >= 1).
    assert_eq!(v.load(Ordering::SeqCst), 0, "the C20 defect is back: an attempt went to an instance not observed ready");
}
#[tokio::test]
async fn c20_reconnect_retry_on_a_ready_instance_fixed() {
    use tower_resilience_reconnect::{ReconnectConfig, ReconnectLayer, ReconnectPolicy};
    let v = Arc::new(AtomicUsize::new(0));
    let inner = StrictReadiness { ready: false, violations: Arc::clone(&v), fails_left: Arc::new(AtomicUsize::new(1)) };
    let config = ReconnectConfig::builder().policy(ReconnectPolicy::fixed(Duration::from_millis(1))).max_attempts(3).build();
    let mut svc = ReconnectLayer::new(config).layer(inner);
    let out = svc.ready().await.unwrap().call("x".to_string()).await;
    assert!(out.is_ok());
    // FIXED by "fix: reconnect polls the service ready before retrying a request" (before: violations >= 1).
    assert_eq!(v.load(Ordering::SeqCst), 0, "the C20 defect is back: the retry went to an instance not observed ready");
}

/// C12 (FIXED in /repo by "fix: hedge reports all-attempts-failed only when every started attempt has failed"): before the fix
/// all-attempts-failed was reported as soon as ONE error arrived after the last hedge was started, although other started
/// attempts were still running and would succeed. The test now asserts the repaired behaviour.
#[tokio::test]
async fn c12_all_failed_only_after_every_attempt_failed_fixed() {
    use tower_resilience_hedge::HedgeLayer;
    let n = Arc::new(AtomicUsize::new(0));
    let n2 = Arc::clone(&n);
    // attempt 0 (primary): succeeds after 200 ms; attempt 1: fails after 60 ms; attempt 2: succeeds after 300 ms
    let svc = tower::service_fn(move |_: ()| {
        let k = n2.fetch_add(1, Ordering::SeqCst);
        async move {
            match k {
                0 => { tokio::time::sleep(Duration::from_millis(200)).await; Ok::<&'static str, String>("primary") }
                1 => { tokio::time::sleep(Duration::from_millis(60)).await; Err("hedge 1 failed".to_string()) }
                _ => { tokio::time::sleep(Duration::from_millis(300)).await; Ok("hedge 2") }
            }
        }
    });
    let layer = HedgeLayer::builder().max_hedged_attempts(3).delay(Duration::from_millis(10)).build();
    let mut h = layer.layer(svc);
    let out = h.ready().await.unwrap().call(()).await;
    // property: fails only when every started attempt has failed -> Ok("primary") at 200 ms. Before the fix: AllAttemptsFailed at ~70 ms.
    assert_eq!(out.ok(), Some("primary"), "the C12 defect is back");
}

/// C20 (FIXED by "fix: hedge calls the ready instance for the primary and drives clones to readiness for hedges")
#[tokio::test]
async fn c20_hedge_every_attempt_on_a_ready_instance_fixed() {
    use tower_resilience_hedge::HedgeLayer;
    let v = Arc::new(AtomicUsize::new(0));
    // both attempts fail, so both the primary and the hedge are started
    let inner = StrictReadiness { ready: false, violations: Arc::clone(&v), fails_left: Arc::new(AtomicUsize::new(2)) };
    let layer = HedgeLayer::builder().max_hedged_attempts(2).no_delay().build();
    let mut svc = layer.layer(inner);
    let _ = svc.ready().await.unwrap().call("x".to_string()).await;
    assert_eq!(v.load(Ordering::SeqCst), 0, "the C20 defect is back: a hedged attempt went to an instance not observed ready");
}

/// C06 (FIXED by "fix: time limiter (non-cancelling mode) checks the finished call before the expired timer"): before the fix the
/// non-cancelling branch raced `rx` and `sleep` in an unbiased `tokio::select!`; polled late (both ready) it reported a timeout
/// for a call that had finished long before its deadline, about every second time. Twelve rounds: the old code failed with
/// probability 1 - 2^-12.
#[tokio::test]
async fn c06_result_before_deadline_wins_when_polled_late_fixed() {
    use tower_resilience_timelimiter::TimeLimiterLayer;
    for _round in 0..12 {
        let (go_tx, go_rx) = tokio::sync::oneshot::channel::<()>();
        let go_rx = Arc::new(std::sync::Mutex::new(Some(go_rx)));
        let svc = tower::service_fn(move |_: ()| {
            let go_rx = go_rx.lock().unwrap().take().expect("called once");
            async move { let _ = go_rx.await; Ok::<&'static str, String>("inner result") }
        });
        let layer = TimeLimiterLayer::builder().timeout_duration(Duration::from_millis(150)).cancel_running_future(false).build();
        let mut service = layer.layer(svc);
        let fut = service.ready().await.unwrap().call(());
        tokio::pin!(fut);
        assert!(futures::poll!(fut.as_mut()).is_pending());          // starts the inner call, arms the 150 ms deadline
        tokio::time::sleep(Duration::from_millis(20)).await;
        go_tx.send(()).unwrap();                                       // the inner call finishes at ~20 ms
        tokio::time::sleep(Duration::from_millis(230)).await;          // the owner polls again only at ~250 ms
        let out = fut.await;
        assert_eq!(out.ok(), Some("inner result"), "the C06 defect is back: a call that finished before its deadline was reported as timed out");
    }
}

/// C15 / C02 (FIXED by "fix: sliding log limiter never reports a permit as taken when it has no capacity"): before the fix the
/// sliding log answered Ok(Duration::ZERO) ("permit taken") from its two no-capacity fallbacks.
#[tokio::test]
async fn c15_sliding_log_without_capacity_admits_nothing_fixed() {
    use tower_resilience_ratelimiter::{RateLimiterLayer, WindowType};
    async fn admitted(limit: usize, period: Duration) -> usize {
        let hits = Arc::new(AtomicUsize::new(0));
        let h = Arc::clone(&hits);
        let svc = tower::service_fn(move |_: ()| { let h = Arc::clone(&h); async move { h.fetch_add(1, Ordering::SeqCst); Ok::<(), std::io::Error>(()) } });
        let layer = RateLimiterLayer::builder().limit_for_period(limit).refresh_period(period).timeout_duration(Duration::ZERO).window_type(WindowType::SlidingLog).build();
        let mut s = layer.layer(svc);
        for _ in 0..5 { let _ = s.ready().await.unwrap().call(()).await; }
        hits.load(Ordering::SeqCst)
    }
    assert_eq!(admitted(0, Duration::from_millis(200)).await, 0, "the C15 defect is back: a limit of zero admitted calls");
    assert_eq!(admitted(1, Duration::MAX).await, 1, "the C02 defect is back: one per 'forever' admitted more than one call");
}
