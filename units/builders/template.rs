#![feature(allocator_api)]
#![allow(unused)]
use vstd::prelude::*;
use std::sync::Arc;
verus! {
// ---- unit prelude (ASSUMED): opaque values for everything a builder merely stores ----
#[derive(PartialEq, Eq, Structural)]
pub struct Duration { pub nanos: u128 }
pub struct Name { pub id: Ghost<int> }
pub struct EventListeners { pub n: Ghost<nat> }
impl EventListeners {
    #[verifier::external_body] pub fn new() -> (r: Self) ensures r.n@ == 0 { unimplemented!() }
    #[verifier::external_body] pub fn add<L>(&mut self, l: L) ensures final(self).n@ == old(self).n@ + 1 { unimplemented!() }
}
/// any expression that wraps a user closure into the stored function object (Arc::new(f), FnListener::new(..), name.into()):
/// its value is irrelevant here — the claim is about the OTHER fields of the builder
#[verifier::external_body] pub fn vx_wrap<T>() -> (r: T) { unimplemented!() }

// ===== time limiter =====
pub struct FixedTimeout(pub Duration);
pub struct DynamicTimeout<F> { pub f: Arc<F> }
impl<F> DynamicTimeout<F> {
    pub fn new(f: F) -> (r: Self)
        ensures *r.f == f,   // #wraps_the_given_function [C06]
    //@body DynamicTimeout::new file=tlconfig
}
pub struct TimeLimiterConfig<T> { pub timeout_source: T, pub cancel_running_future: bool, pub event_listeners: EventListeners, pub name: Name }
pub struct TimeLimiterLayer<T> { pub config: Arc<TimeLimiterConfig<T>> }
impl<T> TimeLimiterLayer<T> {
    pub fn new(config: TimeLimiterConfig<T>) -> (r: Self)
        ensures *r.config == config,   // #layer_keeps_the_configuration [C06]
    //@body TimeLimiterLayer::new file=tllayer
}
pub struct TimeLimiterConfigBuilder<T> { pub timeout_source: T, pub cancel_running_future: bool, pub event_listeners: EventListeners, pub name: Name }
impl<T> TimeLimiterConfigBuilder<T> {
    pub fn timeout_duration(self, duration: Duration) -> (r: TimeLimiterConfigBuilder<FixedTimeout>)
        ensures r.timeout_source.0 == duration,   // #sets_the_fixed_timeout [C06]
            r.cancel_running_future == self.cancel_running_future && r.event_listeners == self.event_listeners && r.name == self.name,   // #keeps_every_other_setting [C06]
    //@body TimeLimiterConfigBuilder::timeout_duration file=tlconfig
    pub fn timeout_fn<Req, F>(self, f: F) -> (r: TimeLimiterConfigBuilder<DynamicTimeout<F>>)
        ensures *r.timeout_source.f == f,   // #sets_the_per_request_timeout_function [C06]
            r.cancel_running_future == self.cancel_running_future && r.event_listeners == self.event_listeners && r.name == self.name,   // #keeps_every_other_setting [C06]
    //@body TimeLimiterConfigBuilder::timeout_fn file=tlconfig
    pub fn cancel_running_future(self, cancel: bool) -> (r: Self)
        ensures r.cancel_running_future == cancel,   // #sets_the_cancellation_mode [C06]
            r.timeout_source == self.timeout_source && r.event_listeners == self.event_listeners && r.name == self.name,   // #keeps_every_other_setting [C06]
    //@body TimeLimiterConfigBuilder::cancel_running_future file=tlconfig
    pub fn build(self) -> (r: TimeLimiterLayer<T>)
        ensures r.config.timeout_source == self.timeout_source && r.config.cancel_running_future == self.cancel_running_future
            && r.config.event_listeners == self.event_listeners && r.config.name == self.name,   // #configuration_is_exactly_what_was_set [C06]
    //@body TimeLimiterConfigBuilder::build file=tlconfig
}

// ===== fallback =====
pub struct StrategyFn { pub id: Ghost<int> }
pub enum FallbackStrategy<Res> { Value(Res), ValueFn(StrategyFn), FromError(StrategyFn), FromRequestError(StrategyFn), Service(StrategyFn), Exception(StrategyFn) }
pub struct HandlePredicate { pub id: Ghost<int> }
pub struct FallbackConfig<Res> { pub name: Name, pub strategy: FallbackStrategy<Res>, pub handle_predicate: Option<HandlePredicate>, pub event_listeners: EventListeners }
pub struct FallbackLayer<Res> { pub config: Arc<FallbackConfig<Res>> }
impl<Res> FallbackLayer<Res> {
    pub fn new(config: FallbackConfig<Res>) -> (r: Self)
        ensures *r.config == config,   // #layer_keeps_the_configuration [C17]
    //@body FallbackLayer::new file=fblayer
}
pub struct FallbackConfigBuilder<Res> { pub name: Name, pub strategy: Option<FallbackStrategy<Res>>, pub handle_predicate: Option<HandlePredicate>, pub event_listeners: EventListeners }
impl<Res> FallbackConfigBuilder<Res> {
    pub fn new() -> (r: Self)
        ensures r.strategy is None && r.handle_predicate is None && r.event_listeners.n@ == 0,   // #starts_without_strategy_and_predicate [C17]
    //@body FallbackConfigBuilder::new file=fbconfig
    pub fn value(self, value: Res) -> (r: Self)
        ensures r.strategy == Some(FallbackStrategy::Value(value)),   // #sets_the_value_strategy [C17]
            r.handle_predicate == self.handle_predicate && r.event_listeners == self.event_listeners && r.name == self.name,   // #keeps_predicate_and_listeners [C17]
    //@body FallbackConfigBuilder::value file=fbconfig
    pub fn value_fn<F>(self, f: F) -> (r: Self)
        ensures r.strategy is Some && r.strategy->0 is ValueFn,   // #sets_the_value_fn_strategy [C17]
            r.handle_predicate == self.handle_predicate && r.event_listeners == self.event_listeners && r.name == self.name,   // #keeps_predicate_and_listeners [C17]
    //@body FallbackConfigBuilder::value_fn file=fbconfig
    pub fn from_error<F>(self, f: F) -> (r: Self)
        ensures r.strategy is Some && r.strategy->0 is FromError,   // #sets_the_from_error_strategy [C17]
            r.handle_predicate == self.handle_predicate && r.event_listeners == self.event_listeners && r.name == self.name,   // #keeps_predicate_and_listeners [C17]
    //@body FallbackConfigBuilder::from_error file=fbconfig
    pub fn from_request_error<F>(self, f: F) -> (r: Self)
        ensures r.strategy is Some && r.strategy->0 is FromRequestError,   // #sets_the_from_request_error_strategy [C17]
            r.handle_predicate == self.handle_predicate && r.event_listeners == self.event_listeners && r.name == self.name,   // #keeps_predicate_and_listeners [C17]
    //@body FallbackConfigBuilder::from_request_error file=fbconfig
    pub fn service<S>(self, service: S) -> (r: Self)
        ensures r.strategy is Some && r.strategy->0 is Service,   // #sets_the_backup_service_strategy [C17]
            r.handle_predicate == self.handle_predicate && r.event_listeners == self.event_listeners && r.name == self.name,   // #keeps_predicate_and_listeners [C17]
    //@body FallbackConfigBuilder::service file=fbconfig
    pub fn exception<F>(self, f: F) -> (r: Self)
        ensures r.strategy is Some && r.strategy->0 is Exception,   // #sets_the_exception_strategy [C17]
            r.handle_predicate == self.handle_predicate && r.event_listeners == self.event_listeners && r.name == self.name,   // #keeps_predicate_and_listeners [C17]
    //@body FallbackConfigBuilder::exception file=fbconfig
    pub fn handle<F>(self, predicate: F) -> (r: Self)
        ensures r.handle_predicate is Some,   // #sets_the_handle_predicate [C17]
            r.strategy == self.strategy && r.event_listeners == self.event_listeners && r.name == self.name,   // #keeps_strategy_and_listeners [C17]
    //@body FallbackConfigBuilder::handle file=fbconfig
    pub fn build(self) -> (r: FallbackLayer<Res>)
        requires self.strategy is Some,   // build() panics otherwise ("fallback strategy must be set")
        ensures r.config.strategy == self.strategy->0 && r.config.handle_predicate == self.handle_predicate && r.config.event_listeners == self.event_listeners && r.config.name == self.name,   // #configuration_is_exactly_what_was_set [C17]
    //@body FallbackConfigBuilder::build file=fbconfig
}
fn main() {}
}
