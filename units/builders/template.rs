#![feature(allocator_api)]
#![allow(unused)]
use vstd::prelude::*;
use vstd::std_specs::cmp::*;
use core::cmp::Ordering as CmpOrdering;
use std::sync::Arc;
verus! {
// ---- unit prelude (ASSUMED): opaque values for everything a builder merely stores ----
//@include time.rs
pub struct Name { pub id: Ghost<int> }
pub struct EventListeners { pub n: Ghost<nat> }
impl EventListeners {
    #[verifier::external_body] pub fn new() -> (r: Self) ensures r.n@ == 0 { unimplemented!() }
    #[verifier::external_body] pub fn add<L>(&mut self, l: L) ensures final(self).n@ == old(self).n@ + 1 { unimplemented!() }
}
/// any expression that wraps a user closure into the stored function object (Arc::new(f), FnListener::new(..), name.into()):
/// its value is irrelevant here — the claim is about the OTHER fields of the builder
#[verifier::external_body] pub fn vx_wrap<T>() -> (r: T) { unimplemented!() }
/// `Arc::new(x)` of a user closure / object handed to a setter: the stored value is a function of x alone (so "the first one wins" or
/// "ignored" is visible), nothing else is known about it
pub uninterp spec fn wrapped<A, T>(a: A) -> T;
#[verifier::external_body] pub fn vx_wrap_of<A, T>(a: A) -> (r: T) ensures r == wrapped::<A, T>(a) { unimplemented!() }

// ===== time limiter =====
pub struct FixedTimeout(pub Duration);
impl FixedTimeout {
    pub fn new(duration: Duration) -> (r: Self)
        ensures r.0 == duration,   // #a_fixed_timeout_is_exactly_the_given_duration [C06]
    //@body FixedTimeout::new file=tlconfig
}
pub struct DynamicTimeout<F> { pub f: Arc<F> }
impl<F> DynamicTimeout<F> {
    pub fn new(f: F) -> (r: Self)
        ensures *r.f == f,   // #wraps_the_given_function [C06]
    //@body DynamicTimeout::new file=tlconfig
    pub fn clone(&self) -> (r: Self)
        ensures r.f == self.f,   // #a_cloned_timeout_source_uses_the_same_function [C06]
    //@body DynamicTimeout::clone@Clone file=tlconfig
}
pub trait VClone: Sized { fn clone(&self) -> (r: Self) ensures r == *self; }
impl Name { #[verifier::external_body] pub fn clone(&self) -> (r: Self) ensures r == *self { unimplemented!() } }
impl EventListeners { #[verifier::external_body] pub fn clone(&self) -> (r: Self) ensures r == *self { unimplemented!() } }
pub struct TimeLimiterConfig<T> { pub timeout_source: T, pub cancel_running_future: bool, pub event_listeners: EventListeners, pub name: Name }
impl<T: VClone> TimeLimiterConfig<T> {
    pub fn clone(&self) -> (r: Self)
        ensures r == *self,   // #a_cloned_configuration_is_the_same_configuration [C06]
    //@body TimeLimiterConfig::clone@Clone file=tlconfig
}
pub struct TimeLimiterLayer<T> { pub config: Arc<TimeLimiterConfig<T>> }
impl<T> TimeLimiterLayer<T> {
    pub fn new(config: TimeLimiterConfig<T>) -> (r: Self)
        ensures *r.config == config,   // #layer_keeps_the_configuration [C06]
    //@body TimeLimiterLayer::new file=tllayer
}
pub struct TimeLimiterConfigBuilder<T> { pub timeout_source: T, pub cancel_running_future: bool, pub event_listeners: EventListeners, pub name: Name }
impl TimeLimiterConfigBuilder<FixedTimeout> {
    pub fn new() -> (r: Self)
        ensures r.cancel_running_future && r.timeout_source.0.nanos == 5_000_000_000 && r.event_listeners.n@ == 0,   // #defaults_five_seconds_cancelling_without_listeners [C06]
    //@body TimeLimiterConfigBuilder::new file=tlconfig
    pub fn default() -> (r: Self)
        ensures r.cancel_running_future && r.timeout_source.0.nanos == 5_000_000_000 && r.event_listeners.n@ == 0,   // #defaults_five_seconds_cancelling_without_listeners [C06]
    //@body TimeLimiterConfigBuilder::default@Default file=tlconfig
}
impl<T> TimeLimiterConfigBuilder<T> {
    pub fn timeout_duration(self, duration: Duration) -> (r: TimeLimiterConfigBuilder<FixedTimeout>)
        ensures r.timeout_source.0 == duration,   // #sets_the_fixed_timeout [C06]
            r.cancel_running_future == self.cancel_running_future && r.event_listeners == self.event_listeners && r.name == self.name,   // #keeps_every_other_setting [C06]
    //@body TimeLimiterConfigBuilder::timeout_duration file=tlconfig
    pub fn timeout_fn<Req, F>(self, f: F) -> (r: TimeLimiterConfigBuilder<DynamicTimeout<F>>)
        ensures *r.timeout_source.f == f,   // #sets_the_per_request_timeout_function [C06]
            r.cancel_running_future == self.cancel_running_future && r.event_listeners == self.event_listeners && r.name == self.name,   // #keeps_every_other_setting [C06]
    //@body TimeLimiterConfigBuilder::timeout_fn file=tlconfig
    pub fn cancel_running_future(self, cancel: bool) -> (r: Self)
        ensures r.cancel_running_future == cancel,   // #sets_the_cancellation_mode [C06]
            r.timeout_source == self.timeout_source && r.event_listeners == self.event_listeners && r.name == self.name,   // #keeps_every_other_setting [C06]
    //@body TimeLimiterConfigBuilder::cancel_running_future file=tlconfig
    pub fn build(self) -> (r: TimeLimiterLayer<T>)
        ensures r.config.timeout_source == self.timeout_source && r.config.cancel_running_future == self.cancel_running_future
            && r.config.event_listeners == self.event_listeners && r.config.name == self.name,   // #configuration_is_exactly_what_was_set [C06]
    //@body TimeLimiterConfigBuilder::build file=tlconfig
}

// ===== fallback =====
pub struct StrategyFn { pub id: Ghost<int> }
pub enum FallbackStrategy<Res> { Value(Res), ValueFn(StrategyFn), FromError(StrategyFn), FromRequestError(StrategyFn), Service(StrategyFn), Exception(StrategyFn) }
pub struct HandlePredicate { pub id: Ghost<int> }
pub struct FallbackConfig<Res> { pub name: Name, pub strategy: FallbackStrategy<Res>, pub handle_predicate: Option<HandlePredicate>, pub event_listeners: EventListeners }
pub struct FallbackLayer<Res> { pub config: Arc<FallbackConfig<Res>> }
impl<Res> FallbackLayer<Res> {
    pub fn new(config: FallbackConfig<Res>) -> (r: Self)
        ensures *r.config == config,   // #layer_keeps_the_configuration [C17]
    //@body FallbackLayer::new file=fblayer
}
pub struct FallbackConfigBuilder<Res> { pub name: Name, pub strategy: Option<FallbackStrategy<Res>>, pub handle_predicate: Option<HandlePredicate>, pub event_listeners: EventListeners }
impl<Res> FallbackConfigBuilder<Res> {
    pub fn new() -> (r: Self)
        ensures r.strategy is None && r.handle_predicate is None && r.event_listeners.n@ == 0,   // #starts_without_strategy_and_predicate [C17]
    //@body FallbackConfigBuilder::new file=fbconfig
    pub fn default() -> (r: Self)
        ensures r.strategy is None && r.handle_predicate is None && r.event_listeners.n@ == 0,   // #starts_without_strategy_and_predicate [C17]
    //@body FallbackConfigBuilder::default@Default file=fbconfig
    pub fn value(self, value: Res) -> (r: Self)
        ensures r.strategy == Some(FallbackStrategy::Value(value)),   // #sets_the_value_strategy [C17]
            r.handle_predicate == self.handle_predicate && r.event_listeners == self.event_listeners && r.name == self.name,   // #keeps_predicate_and_listeners [C17]
    //@body FallbackConfigBuilder::value file=fbconfig
    pub fn value_fn<F>(self, f: F) -> (r: Self)
        ensures r.strategy == Some(FallbackStrategy::<Res>::ValueFn(wrapped(f))),   // #sets_the_value_fn_strategy [C17]
            r.handle_predicate == self.handle_predicate && r.event_listeners == self.event_listeners && r.name == self.name,   // #keeps_predicate_and_listeners [C17]
    //@body FallbackConfigBuilder::value_fn file=fbconfig
    pub fn from_error<F>(self, f: F) -> (r: Self)
        ensures r.strategy == Some(FallbackStrategy::<Res>::FromError(wrapped(f))),   // #sets_the_from_error_strategy [C17]
            r.handle_predicate == self.handle_predicate && r.event_listeners == self.event_listeners && r.name == self.name,   // #keeps_predicate_and_listeners [C17]
    //@body FallbackConfigBuilder::from_error file=fbconfig
    pub fn from_request_error<F>(self, f: F) -> (r: Self)
        ensures r.strategy == Some(FallbackStrategy::<Res>::FromRequestError(wrapped(f))),   // #sets_the_from_request_error_strategy [C17]
            r.handle_predicate == self.handle_predicate && r.event_listeners == self.event_listeners && r.name == self.name,   // #keeps_predicate_and_listeners [C17]
    //@body FallbackConfigBuilder::from_request_error file=fbconfig
    pub fn service<S>(self, service: S) -> (r: Self)
        ensures r.strategy is Some && r.strategy->0 is Service,   // #sets_the_backup_service_strategy [C17]
            r.handle_predicate == self.handle_predicate && r.event_listeners == self.event_listeners && r.name == self.name,   // #keeps_predicate_and_listeners [C17]
    //@body FallbackConfigBuilder::service file=fbconfig
    pub fn exception<F>(self, f: F) -> (r: Self)
        ensures r.strategy == Some(FallbackStrategy::<Res>::Exception(wrapped(f))),   // #sets_the_exception_strategy [C17]
            r.handle_predicate == self.handle_predicate && r.event_listeners == self.event_listeners && r.name == self.name,   // #keeps_predicate_and_listeners [C17]
    //@body FallbackConfigBuilder::exception file=fbconfig
    pub fn handle<F>(self, predicate: F) -> (r: Self)
        ensures r.handle_predicate == Some(wrapped::<F, HandlePredicate>(predicate)),   // #the_predicate_in_force_is_the_one_given_last [C17]
            r.strategy == self.strategy && r.event_listeners == self.event_listeners && r.name == self.name,   // #keeps_strategy_and_listeners [C17]
    //@body FallbackConfigBuilder::handle file=fbconfig
    pub fn build(self) -> (r: FallbackLayer<Res>)
        requires self.strategy is Some,   // build() panics otherwise ("fallback strategy must be set")
        ensures r.config.strategy == self.strategy->0 && r.config.handle_predicate == self.handle_predicate && r.config.event_listeners == self.event_listeners && r.config.name == self.name,   // #configuration_is_exactly_what_was_set [C17]
    //@body FallbackConfigBuilder::build file=fbconfig
}

// ===== circuit breaker =====
#[derive(PartialEq, Eq, Structural)]
pub enum SlidingWindowType { CountBased, TimeBased }
pub struct CircuitBreakerConfig<C> {
    pub failure_rate_threshold: f64, pub sliding_window_type: SlidingWindowType, pub sliding_window_size: usize, pub sliding_window_duration: Option<Duration>,
    pub wait_duration_in_open: Duration, pub permitted_calls_in_half_open: usize, pub minimum_number_of_calls: usize, pub failure_classifier: C,
    pub slow_call_duration_threshold: Option<Duration>, pub slow_call_rate_threshold: f64, pub event_listeners: EventListeners, pub name: Name,
}
pub struct FnClassifier<F> { pub f: F }
impl<F> FnClassifier<F> {
    pub fn new(f: F) -> (r: Self) ensures r.f == f { FnClassifier { f } }
}
/// the closure classify_response builds around the user's response predicate
pub struct ResponseClassifier { pub id: Ghost<int> }
pub struct Listener { pub id: Ghost<int> }
pub struct CircuitBreakerLayer<C> { pub config: Arc<CircuitBreakerConfig<C>> }
impl<C> CircuitBreakerLayer<C> {
    pub fn new(config: CircuitBreakerConfig<C>) -> (r: Self)
        ensures *r.config == config,   // #layer_keeps_the_configuration [C04]
    //@body CircuitBreakerLayer::new file=cblayer
}
pub struct CircuitBreakerConfigBuilder<C> {
    pub failure_rate_threshold: f64, pub sliding_window_type: SlidingWindowType, pub sliding_window_size: usize, pub sliding_window_duration: Option<Duration>,
    pub wait_duration_in_open: Duration, pub permitted_calls_in_half_open: usize, pub failure_classifier: C, pub minimum_number_of_calls: Option<usize>,
    pub slow_call_duration_threshold: Option<Duration>, pub slow_call_rate_threshold: f64, pub event_listeners: EventListeners, pub name: Name,
}
pub struct DefaultClassifier;
pub uninterp spec fn f64_half() -> f64;
pub uninterp spec fn f64_one() -> f64;
#[verifier::external_body] pub fn vx_half() -> (r: f64) ensures r == f64_half() { unimplemented!() }
#[verifier::external_body] pub fn vx_one() -> (r: f64) ensures r == f64_one() { unimplemented!() }
pub open spec fn cb_defaults<C>(r: CircuitBreakerConfigBuilder<C>) -> bool {
    r.failure_rate_threshold == f64_half() && r.sliding_window_type == SlidingWindowType::CountBased && r.sliding_window_size == 100 && r.sliding_window_duration is None
    && r.wait_duration_in_open.nanos == 30_000_000_000 && r.permitted_calls_in_half_open == 1 && r.minimum_number_of_calls is None
    && r.slow_call_duration_threshold is None && r.slow_call_rate_threshold == f64_one() && r.event_listeners.n@ == 0
}
impl CircuitBreakerConfigBuilder<DefaultClassifier> {
    pub fn new() -> (r: Self)
        ensures cb_defaults(r),   // #defaults_count_based_100_calls_half_failing_30s_open_one_trial_no_slow_call_detection [C04,C09]
    //@body CircuitBreakerConfigBuilder::new file=cbconfig
    pub fn default() -> (r: Self)
        ensures cb_defaults(r),   // #defaults_count_based_100_calls_half_failing_30s_open_one_trial_no_slow_call_detection [C04,C09]
    //@body CircuitBreakerConfigBuilder::default@Default file=cbconfig
}
impl<C> CircuitBreakerConfigBuilder<C> {
    pub fn failure_rate_threshold(self, rate: f64) -> (r: Self)
        ensures r.failure_rate_threshold == rate,   // #sets_failure_rate_threshold [C04]
            r.permitted_calls_in_half_open == self.permitted_calls_in_half_open,   // #keeps_the_half_open_budget [C04,C09]
            r.wait_duration_in_open == self.wait_duration_in_open,   // #keeps_the_open_wait [C03,C04]
            r.sliding_window_type == self.sliding_window_type && r.sliding_window_size == self.sliding_window_size && r.sliding_window_duration == self.sliding_window_duration && r.failure_classifier == self.failure_classifier && r.minimum_number_of_calls == self.minimum_number_of_calls && r.slow_call_duration_threshold == self.slow_call_duration_threshold && r.slow_call_rate_threshold == self.slow_call_rate_threshold && r.event_listeners == self.event_listeners && r.name == self.name,   // #keeps_every_other_setting [C04]
    //@body CircuitBreakerConfigBuilder::failure_rate_threshold file=cbconfig
    pub fn sliding_window_type(self, window_type: SlidingWindowType) -> (r: Self)
        ensures r.sliding_window_type == window_type,   // #sets_sliding_window_type [C04]
            r.permitted_calls_in_half_open == self.permitted_calls_in_half_open,   // #keeps_the_half_open_budget [C04,C09]
            r.wait_duration_in_open == self.wait_duration_in_open,   // #keeps_the_open_wait [C03,C04]
            r.failure_rate_threshold == self.failure_rate_threshold && r.sliding_window_size == self.sliding_window_size && r.sliding_window_duration == self.sliding_window_duration && r.failure_classifier == self.failure_classifier && r.minimum_number_of_calls == self.minimum_number_of_calls && r.slow_call_duration_threshold == self.slow_call_duration_threshold && r.slow_call_rate_threshold == self.slow_call_rate_threshold && r.event_listeners == self.event_listeners && r.name == self.name,   // #keeps_every_other_setting [C04]
    //@body CircuitBreakerConfigBuilder::sliding_window_type file=cbconfig
    pub fn sliding_window_size(self, size: usize) -> (r: Self)
        ensures r.sliding_window_size == size,   // #sets_sliding_window_size [C04]
            r.permitted_calls_in_half_open == self.permitted_calls_in_half_open,   // #keeps_the_half_open_budget [C04,C09]
            r.wait_duration_in_open == self.wait_duration_in_open,   // #keeps_the_open_wait [C03,C04]
            r.failure_rate_threshold == self.failure_rate_threshold && r.sliding_window_type == self.sliding_window_type && r.sliding_window_duration == self.sliding_window_duration && r.failure_classifier == self.failure_classifier && r.minimum_number_of_calls == self.minimum_number_of_calls && r.slow_call_duration_threshold == self.slow_call_duration_threshold && r.slow_call_rate_threshold == self.slow_call_rate_threshold && r.event_listeners == self.event_listeners && r.name == self.name,   // #keeps_every_other_setting [C04]
    //@body CircuitBreakerConfigBuilder::sliding_window_size file=cbconfig
    pub fn sliding_window_duration(self, duration: Duration) -> (r: Self)
        ensures r.sliding_window_duration == Some(duration),   // #sets_sliding_window_duration [C04]
            r.permitted_calls_in_half_open == self.permitted_calls_in_half_open,   // #keeps_the_half_open_budget [C04,C09]
            r.wait_duration_in_open == self.wait_duration_in_open,   // #keeps_the_open_wait [C03,C04]
            r.failure_rate_threshold == self.failure_rate_threshold && r.sliding_window_type == self.sliding_window_type && r.sliding_window_size == self.sliding_window_size && r.failure_classifier == self.failure_classifier && r.minimum_number_of_calls == self.minimum_number_of_calls && r.slow_call_duration_threshold == self.slow_call_duration_threshold && r.slow_call_rate_threshold == self.slow_call_rate_threshold && r.event_listeners == self.event_listeners && r.name == self.name,   // #keeps_every_other_setting [C04]
    //@body CircuitBreakerConfigBuilder::sliding_window_duration file=cbconfig
    pub fn wait_duration_in_open(self, duration: Duration) -> (r: Self)
        ensures r.wait_duration_in_open == duration,   // #sets_wait_duration_in_open [C03,C04]
            r.permitted_calls_in_half_open == self.permitted_calls_in_half_open,   // #keeps_the_half_open_budget [C04,C09]
            r.failure_rate_threshold == self.failure_rate_threshold && r.sliding_window_type == self.sliding_window_type && r.sliding_window_size == self.sliding_window_size && r.sliding_window_duration == self.sliding_window_duration && r.failure_classifier == self.failure_classifier && r.minimum_number_of_calls == self.minimum_number_of_calls && r.slow_call_duration_threshold == self.slow_call_duration_threshold && r.slow_call_rate_threshold == self.slow_call_rate_threshold && r.event_listeners == self.event_listeners && r.name == self.name,   // #keeps_every_other_setting [C04]
    //@body CircuitBreakerConfigBuilder::wait_duration_in_open file=cbconfig
    pub fn permitted_calls_in_half_open(self, n: usize) -> (r: Self)
        ensures r.permitted_calls_in_half_open == n,   // #sets_permitted_calls_in_half_open [C04,C09]
            r.wait_duration_in_open == self.wait_duration_in_open,   // #keeps_the_open_wait [C03,C04]
            r.failure_rate_threshold == self.failure_rate_threshold && r.sliding_window_type == self.sliding_window_type && r.sliding_window_size == self.sliding_window_size && r.sliding_window_duration == self.sliding_window_duration && r.failure_classifier == self.failure_classifier && r.minimum_number_of_calls == self.minimum_number_of_calls && r.slow_call_duration_threshold == self.slow_call_duration_threshold && r.slow_call_rate_threshold == self.slow_call_rate_threshold && r.event_listeners == self.event_listeners && r.name == self.name,   // #keeps_every_other_setting [C04]
    //@body CircuitBreakerConfigBuilder::permitted_calls_in_half_open file=cbconfig
    pub fn minimum_number_of_calls(self, n: usize) -> (r: Self)
        ensures r.minimum_number_of_calls == Some(n),   // #sets_minimum_number_of_calls [C04]
            r.permitted_calls_in_half_open == self.permitted_calls_in_half_open,   // #keeps_the_half_open_budget [C04,C09]
            r.wait_duration_in_open == self.wait_duration_in_open,   // #keeps_the_open_wait [C03,C04]
            r.failure_rate_threshold == self.failure_rate_threshold && r.sliding_window_type == self.sliding_window_type && r.sliding_window_size == self.sliding_window_size && r.sliding_window_duration == self.sliding_window_duration && r.failure_classifier == self.failure_classifier && r.slow_call_duration_threshold == self.slow_call_duration_threshold && r.slow_call_rate_threshold == self.slow_call_rate_threshold && r.event_listeners == self.event_listeners && r.name == self.name,   // #keeps_every_other_setting [C04]
    //@body CircuitBreakerConfigBuilder::minimum_number_of_calls file=cbconfig
    pub fn slow_call_duration_threshold(self, duration: Duration) -> (r: Self)
        ensures r.slow_call_duration_threshold == Some(duration),   // #sets_slow_call_duration_threshold [C04]
            r.permitted_calls_in_half_open == self.permitted_calls_in_half_open,   // #keeps_the_half_open_budget [C04,C09]
            r.wait_duration_in_open == self.wait_duration_in_open,   // #keeps_the_open_wait [C03,C04]
            r.failure_rate_threshold == self.failure_rate_threshold && r.sliding_window_type == self.sliding_window_type && r.sliding_window_size == self.sliding_window_size && r.sliding_window_duration == self.sliding_window_duration && r.failure_classifier == self.failure_classifier && r.minimum_number_of_calls == self.minimum_number_of_calls && r.slow_call_rate_threshold == self.slow_call_rate_threshold && r.event_listeners == self.event_listeners && r.name == self.name,   // #keeps_every_other_setting [C04]
    //@body CircuitBreakerConfigBuilder::slow_call_duration_threshold file=cbconfig
    pub fn slow_call_rate_threshold(self, rate: f64) -> (r: Self)
        ensures r.slow_call_rate_threshold == rate,   // #sets_slow_call_rate_threshold [C04]
            r.permitted_calls_in_half_open == self.permitted_calls_in_half_open,   // #keeps_the_half_open_budget [C04,C09]
            r.wait_duration_in_open == self.wait_duration_in_open,   // #keeps_the_open_wait [C03,C04]
            r.failure_rate_threshold == self.failure_rate_threshold && r.sliding_window_type == self.sliding_window_type && r.sliding_window_size == self.sliding_window_size && r.sliding_window_duration == self.sliding_window_duration && r.failure_classifier == self.failure_classifier && r.minimum_number_of_calls == self.minimum_number_of_calls && r.slow_call_duration_threshold == self.slow_call_duration_threshold && r.event_listeners == self.event_listeners && r.name == self.name,   // #keeps_every_other_setting [C04]
    //@body CircuitBreakerConfigBuilder::slow_call_rate_threshold file=cbconfig
    pub fn name<N>(self, n: N) -> (r: Self)
        ensures
            r.permitted_calls_in_half_open == self.permitted_calls_in_half_open,   // #keeps_the_half_open_budget [C04,C09]
            r.wait_duration_in_open == self.wait_duration_in_open,   // #keeps_the_open_wait [C03,C04]
            r.failure_rate_threshold == self.failure_rate_threshold && r.sliding_window_type == self.sliding_window_type && r.sliding_window_size == self.sliding_window_size && r.sliding_window_duration == self.sliding_window_duration && r.failure_classifier == self.failure_classifier && r.minimum_number_of_calls == self.minimum_number_of_calls && r.slow_call_duration_threshold == self.slow_call_duration_threshold && r.slow_call_rate_threshold == self.slow_call_rate_threshold && r.event_listeners == self.event_listeners,   // #keeps_every_other_setting [C04]
    //@body CircuitBreakerConfigBuilder::name file=cbconfig
    pub fn failure_classifier<F, Res, Err>(self, classifier: F) -> (r: CircuitBreakerConfigBuilder<FnClassifier<F>>)
        ensures r.failure_classifier.f == classifier,   // #installs_the_given_classifier [C04]
            r.permitted_calls_in_half_open == self.permitted_calls_in_half_open,   // #keeps_the_half_open_budget [C04,C09]
            r.wait_duration_in_open == self.wait_duration_in_open,   // #keeps_the_open_wait [C03,C04]
            r.failure_rate_threshold == self.failure_rate_threshold && r.sliding_window_type == self.sliding_window_type && r.sliding_window_size == self.sliding_window_size && r.sliding_window_duration == self.sliding_window_duration && r.minimum_number_of_calls == self.minimum_number_of_calls && r.slow_call_duration_threshold == self.slow_call_duration_threshold && r.slow_call_rate_threshold == self.slow_call_rate_threshold && r.event_listeners == self.event_listeners && r.name == self.name,   // #keeps_every_other_setting [C04]
    //@body CircuitBreakerConfigBuilder::failure_classifier file=cbconfig
    pub fn classify_response<F, Res>(self, classifier: F) -> (r: CircuitBreakerConfigBuilder<FnClassifier<ResponseClassifier>>)
        ensures
            r.permitted_calls_in_half_open == self.permitted_calls_in_half_open,   // #keeps_the_half_open_budget [C04,C09]
            r.wait_duration_in_open == self.wait_duration_in_open,   // #keeps_the_open_wait [C03,C04]
            r.failure_rate_threshold == self.failure_rate_threshold && r.sliding_window_type == self.sliding_window_type && r.sliding_window_size == self.sliding_window_size && r.sliding_window_duration == self.sliding_window_duration && r.minimum_number_of_calls == self.minimum_number_of_calls && r.slow_call_duration_threshold == self.slow_call_duration_threshold && r.slow_call_rate_threshold == self.slow_call_rate_threshold && r.event_listeners == self.event_listeners && r.name == self.name,   // #keeps_every_other_setting [C04]
    //@body CircuitBreakerConfigBuilder::classify_response file=cbconfig
    pub fn on_state_transition<F>(self, f: F) -> (r: Self)
        ensures
            r.permitted_calls_in_half_open == self.permitted_calls_in_half_open,   // #keeps_the_half_open_budget [C04,C09]
            r.wait_duration_in_open == self.wait_duration_in_open,   // #keeps_the_open_wait [C03,C04]
            r.failure_rate_threshold == self.failure_rate_threshold && r.sliding_window_type == self.sliding_window_type && r.sliding_window_size == self.sliding_window_size && r.sliding_window_duration == self.sliding_window_duration && r.failure_classifier == self.failure_classifier && r.minimum_number_of_calls == self.minimum_number_of_calls && r.slow_call_duration_threshold == self.slow_call_duration_threshold && r.slow_call_rate_threshold == self.slow_call_rate_threshold && r.name == self.name,   // #keeps_every_other_setting [C04]
    //@body CircuitBreakerConfigBuilder::on_state_transition file=cbconfig
    pub fn on_call_permitted<F>(self, f: F) -> (r: Self)
        ensures
            r.permitted_calls_in_half_open == self.permitted_calls_in_half_open,   // #keeps_the_half_open_budget [C04,C09]
            r.wait_duration_in_open == self.wait_duration_in_open,   // #keeps_the_open_wait [C03,C04]
            r.failure_rate_threshold == self.failure_rate_threshold && r.sliding_window_type == self.sliding_window_type && r.sliding_window_size == self.sliding_window_size && r.sliding_window_duration == self.sliding_window_duration && r.failure_classifier == self.failure_classifier && r.minimum_number_of_calls == self.minimum_number_of_calls && r.slow_call_duration_threshold == self.slow_call_duration_threshold && r.slow_call_rate_threshold == self.slow_call_rate_threshold && r.name == self.name,   // #keeps_every_other_setting [C04]
    //@body CircuitBreakerConfigBuilder::on_call_permitted file=cbconfig
    pub fn on_call_rejected<F>(self, f: F) -> (r: Self)
        ensures
            r.permitted_calls_in_half_open == self.permitted_calls_in_half_open,   // #keeps_the_half_open_budget [C04,C09]
            r.wait_duration_in_open == self.wait_duration_in_open,   // #keeps_the_open_wait [C03,C04]
            r.failure_rate_threshold == self.failure_rate_threshold && r.sliding_window_type == self.sliding_window_type && r.sliding_window_size == self.sliding_window_size && r.sliding_window_duration == self.sliding_window_duration && r.failure_classifier == self.failure_classifier && r.minimum_number_of_calls == self.minimum_number_of_calls && r.slow_call_duration_threshold == self.slow_call_duration_threshold && r.slow_call_rate_threshold == self.slow_call_rate_threshold && r.name == self.name,   // #keeps_every_other_setting [C04]
    //@body CircuitBreakerConfigBuilder::on_call_rejected file=cbconfig
    pub fn on_success<F>(self, f: F) -> (r: Self)
        ensures
            r.permitted_calls_in_half_open == self.permitted_calls_in_half_open,   // #keeps_the_half_open_budget [C04,C09]
            r.wait_duration_in_open == self.wait_duration_in_open,   // #keeps_the_open_wait [C03,C04]
            r.failure_rate_threshold == self.failure_rate_threshold && r.sliding_window_type == self.sliding_window_type && r.sliding_window_size == self.sliding_window_size && r.sliding_window_duration == self.sliding_window_duration && r.failure_classifier == self.failure_classifier && r.minimum_number_of_calls == self.minimum_number_of_calls && r.slow_call_duration_threshold == self.slow_call_duration_threshold && r.slow_call_rate_threshold == self.slow_call_rate_threshold && r.name == self.name,   // #keeps_every_other_setting [C04]
    //@body CircuitBreakerConfigBuilder::on_success file=cbconfig
    pub fn on_failure<F>(self, f: F) -> (r: Self)
        ensures
            r.permitted_calls_in_half_open == self.permitted_calls_in_half_open,   // #keeps_the_half_open_budget [C04,C09]
            r.wait_duration_in_open == self.wait_duration_in_open,   // #keeps_the_open_wait [C03,C04]
            r.failure_rate_threshold == self.failure_rate_threshold && r.sliding_window_type == self.sliding_window_type && r.sliding_window_size == self.sliding_window_size && r.sliding_window_duration == self.sliding_window_duration && r.failure_classifier == self.failure_classifier && r.minimum_number_of_calls == self.minimum_number_of_calls && r.slow_call_duration_threshold == self.slow_call_duration_threshold && r.slow_call_rate_threshold == self.slow_call_rate_threshold && r.name == self.name,   // #keeps_every_other_setting [C04]
    //@body CircuitBreakerConfigBuilder::on_failure file=cbconfig
    pub fn on_slow_call<F>(self, f: F) -> (r: Self)
        ensures
            r.permitted_calls_in_half_open == self.permitted_calls_in_half_open,   // #keeps_the_half_open_budget [C04,C09]
            r.wait_duration_in_open == self.wait_duration_in_open,   // #keeps_the_open_wait [C03,C04]
            r.failure_rate_threshold == self.failure_rate_threshold && r.sliding_window_type == self.sliding_window_type && r.sliding_window_size == self.sliding_window_size && r.sliding_window_duration == self.sliding_window_duration && r.failure_classifier == self.failure_classifier && r.minimum_number_of_calls == self.minimum_number_of_calls && r.slow_call_duration_threshold == self.slow_call_duration_threshold && r.slow_call_rate_threshold == self.slow_call_rate_threshold && r.name == self.name,   // #keeps_every_other_setting [C04]
    //@body CircuitBreakerConfigBuilder::on_slow_call file=cbconfig
    pub fn build(self) -> (r: CircuitBreakerLayer<C>)
        requires self.sliding_window_type == SlidingWindowType::TimeBased ==> self.sliding_window_duration is Some,   // build() panics otherwise
        ensures
            r.config.permitted_calls_in_half_open == self.permitted_calls_in_half_open,   // #half_open_budget_is_exactly_what_was_set [C04,C09]
            r.config.wait_duration_in_open == self.wait_duration_in_open,   // #open_wait_is_exactly_what_was_set [C03,C04]
            r.config.minimum_number_of_calls == (if self.minimum_number_of_calls is Some { self.minimum_number_of_calls->0 } else { self.sliding_window_size }),   // #minimum_calls_defaults_to_the_window_size [C04]
            r.config.failure_rate_threshold == self.failure_rate_threshold && r.config.sliding_window_type == self.sliding_window_type && r.config.sliding_window_size == self.sliding_window_size
                && r.config.sliding_window_duration == self.sliding_window_duration
                && r.config.failure_classifier == self.failure_classifier
                && r.config.slow_call_duration_threshold == self.slow_call_duration_threshold && r.config.slow_call_rate_threshold == self.slow_call_rate_threshold
                && r.config.event_listeners == self.event_listeners && r.config.name == self.name,   // #configuration_is_exactly_what_was_set [C04]
            r.config.sliding_window_type == SlidingWindowType::TimeBased ==> r.config.sliding_window_duration is Some,   // #time_based_window_always_has_a_duration [C04]
    //@body CircuitBreakerConfigBuilder::build file=cbconfig
}
fn main() {}
}
