TL = "crates/tower-resilience-timelimiter/src/"
FB = "crates/tower-resilience-fallback/src/"
MUTSELF = ("sub", "R16-mut-self", r"\A", "", 0)
WRAP = ("wrapcalls", "R6-closure-wrap", r"(?:std::sync::)?Arc::new", "vx_wrap()", -1)
WRAPID = ("wrapcalls", "R6-closure-wrap", r"(?:std::sync::)?Arc::new", "vx_wrap_of({args})", -1)
def setter(*extra):
    # `mut self` setters: the template declares `self` by value; re-bind it mutably at the start of the body
    return dict(file="fbconfig", rules=[("sub", "R16-mut-self", r"\bself\b", "self_", -1), ("inject", None, "start", "let mut self_ = self;")] + list(extra))
UNIT = dict(
    serves=["C06", "C17"],
    files={"tlconfig": TL + "config.rs", "tllayer": TL + "layer.rs", "fbconfig": FB + "config.rs", "fblayer": FB + "layer.rs"},
    default_file="tlconfig",
    rules=[("R1",)],
    extra_params=[],
    fns={
        "FixedTimeout::new": dict(file="tlconfig"),
        "DynamicTimeout::new": dict(file="tlconfig"),
        "DynamicTimeout::clone@Clone": dict(file="tlconfig"),
        "TimeLimiterConfig::clone@Clone": dict(file="tlconfig"),
        "TimeLimiterLayer::new": dict(file="tllayer", rules=[("sub", "R10-into-arc", r"config\.into\(\)", "Arc::new(config)", -1)]),
        "TimeLimiterConfigBuilder::timeout_duration": dict(file="tlconfig"),
        "TimeLimiterConfigBuilder::timeout_fn": dict(file="tlconfig"),
        "TimeLimiterConfigBuilder::cancel_running_future": dict(file="tlconfig", rules=[("sub", "R16-mut-self", r"\bself\b", "self_", -1), ("inject", None, "start", "let mut self_ = self;")]),
        "TimeLimiterConfigBuilder::new": dict(file="tlconfig", rules=[("sub", "R6-name", r"String::from\(\"[^\"]*\"\)", "vx_wrap()", 1)]),
        "TimeLimiterConfigBuilder::default@Default": dict(file="tlconfig"),
        "CircuitBreakerConfigBuilder::new": dict(file="cbconfig", rules=[("sub", "R6-name", r"String::from\(\"[^\"]*\"\)", "vx_wrap()", 1),
            ("sub", "R14-float", r"(?<![\w.])0\.5(?![\w.])", "vx_half()", -1), ("sub", "R14-float", r"(?<![\w.])1\.0(?![\w.])", "vx_one()", -1)]),
        "CircuitBreakerConfigBuilder::default@Default": dict(file="cbconfig"),
        "TimeLimiterConfigBuilder::build": dict(file="tlconfig", rules=[("sub", "R9-paths", r"crate::TimeLimiterLayer", "TimeLimiterLayer", -1)]),
        "FallbackLayer::new": dict(file="fblayer"),
        "FallbackConfigBuilder::new": dict(file="fbconfig", rules=[("sub", "R6-name", r"\"[^\"]*\"\.to_string\(\)", "vx_wrap()", 1)]),
        "FallbackConfigBuilder::default@Default": dict(file="fbconfig"),
        "FallbackConfigBuilder::value": setter(),
        "FallbackConfigBuilder::value_fn": setter(WRAPID),
        "FallbackConfigBuilder::from_error": setter(WRAPID),
        "FallbackConfigBuilder::from_request_error": setter(WRAPID),
        "FallbackConfigBuilder::service": setter(WRAP, ("sub", "R9-paths", r"crate::ServiceFn<Req, Res, E>", "StrategyFn", -1)),
        "FallbackConfigBuilder::exception": setter(WRAPID),
        "FallbackConfigBuilder::handle": setter(WRAPID),
        "FallbackConfigBuilder::build": dict(file="fbconfig", rules=[
            ("sub", "R9-paths", r"crate::FallbackLayer", "FallbackLayer", -1),
            ("sub", "expect", r"\.expect\(\"[^\"]*\"\)", ".unwrap()", 1),
        ]),
    },
    types=[
        ("struct", "TimeLimiterConfigBuilder", "tlconfig"),
        ("struct", "TimeLimiterConfig", "tlconfig"),
        ("struct", "FallbackConfigBuilder", "fbconfig"),
        ("struct", "FallbackConfig", "fbconfig"),
        ("enum", "FallbackStrategy", "fblib"),
    ],
)
UNIT["files"]["fblib"] = FB + "lib.rs"
CB = "crates/tower-resilience-circuitbreaker/src/"
UNIT["files"]["cbconfig"] = CB + "config.rs"
UNIT["files"]["cblayer"] = CB + "layer.rs"
UNIT["serves"] = ["C04", "C06", "C17"]
def cbsetter():
    return dict(file="cbconfig", rules=[("sub", "R16-mut-self", r"\bself\b", "self_", -1), ("inject", None, "start", "let mut self_ = self;")])
for _n in ["failure_rate_threshold", "sliding_window_type", "sliding_window_size", "sliding_window_duration", "wait_duration_in_open", "permitted_calls_in_half_open",
           "minimum_number_of_calls", "slow_call_duration_threshold", "slow_call_rate_threshold"]:
    UNIT["fns"]["CircuitBreakerConfigBuilder::" + _n] = cbsetter()
UNIT["fns"]["CircuitBreakerConfigBuilder::build"] = dict(file="cbconfig", rules=[
    ("sub", "R9-paths", r"crate::layer::CircuitBreakerLayer", "CircuitBreakerLayer", -1),
    ("sub", "panic", r"panic!\(\"[^\"]*\"\);", "assert(false);", 1),
])
UNIT["fns"]["CircuitBreakerLayer::new"] = dict(file="cblayer", rules=[("sub", "R10-into-arc", r"config\.into\(\)", "Arc::new(config)", 1)], skip_sig_check=False)
UNIT["types"] += [("struct", "CircuitBreakerConfigBuilder", "cbconfig"), ("struct", "CircuitBreakerConfig", "cbconfig"), ("enum", "SlidingWindowType", "cbconfig")]

CBMUT = [("sub", "R16-mut-self", r"\bself\b", "self_", -1), ("inject", None, "start", "let mut self_ = self;")]
CBLISTEN = ("wrapcalls", "R6-closure-wrap", r"(?:tower_resilience_core::)?FnListener::new", "vx_wrap::<Listener>()", 1)
UNIT["fns"]["CircuitBreakerConfigBuilder::name"] = dict(file="cbconfig", rules=CBMUT + [("sub", "R6-into", r"\bn\.into\(\)", "vx_wrap()", 1)])
UNIT["fns"]["CircuitBreakerConfigBuilder::failure_classifier"] = dict(file="cbconfig")
UNIT["fns"]["CircuitBreakerConfigBuilder::classify_response"] = dict(file="cbconfig", rules=[
    ("wrapcalls", "R6-closure-wrap", r"self\.failure_classifier", "self.failure_classifier::<ResponseClassifier, Res, core::convert::Infallible>(vx_wrap())", 1)])
for _n in ["on_state_transition", "on_call_permitted", "on_call_rejected", "on_success", "on_failure", "on_slow_call"]:
    UNIT["fns"]["CircuitBreakerConfigBuilder::" + _n] = dict(file="cbconfig", rules=CBMUT + [("sub", "R9-paths", r"use tower_resilience_core::FnListener;", "", -1), CBLISTEN])
UNIT["serves"] = ["C03", "C04", "C06", "C09", "C17"]
