#![feature(allocator_api)]
#![allow(unused)]
use vstd::prelude::*;
use vstd::std_specs::cmp::*;
use core::cmp::Ordering as CmpOrdering;
use std::sync::Arc;
verus! {
//@include time.rs
//@include trace.rs
pub open spec fn call_gate<Req, Res, E>(tr: Trace<Req, Res, E>) -> bool { tr.created }
pub open spec fn await_gate<Req, Res, E>(tr: Trace<Req, Res, E>) -> bool { true }
//@include inner.rs
//@include events.rs

// ---- unit prelude (ASSUMED): the user closures Arc<dyn Fn ..> are pure functions; every invocation of a
// strategy closure or of the backup service is counted in the trace (fb_calls) ----
pub trait VClone: Sized { fn clone(&self) -> (r: Self) ensures r == *self; }
pub struct HandlePredicate<E> { pub id: Ghost<int>, pub p: core::marker::PhantomData<E> }
pub uninterp spec fn pred_spec<E>(p: HandlePredicate<E>, e: E) -> bool;
impl<E> HandlePredicate<E> {
    #[verifier::external_body]
    pub fn vx_call(&self, e: &E) -> (r: bool) ensures r == pred_spec(*self, *e) { unimplemented!() }
}
pub struct ValueFn<Res> { pub id: Ghost<int>, pub p: core::marker::PhantomData<Res> }
pub uninterp spec fn value_fn_spec<Res>(f: ValueFn<Res>) -> Res;
impl<Res> ValueFn<Res> {
    #[verifier::external_body] pub fn vx_clone(&self) -> (r: Self) ensures r == *self { unimplemented!() }
    #[verifier::external_body]
    pub fn vx_call<Req, E>(&self, Tracked(tr): Tracked<&mut Trace<Req, Res, E>>) -> (r: Res)
        ensures r == value_fn_spec(*self), *final(tr) == (Trace { fb_calls: old(tr).fb_calls + 1, ..*old(tr) }),
    { unimplemented!() }
}
pub struct FromErrorFn<Res, E> { pub id: Ghost<int>, pub p: core::marker::PhantomData<(Res, E)> }
pub uninterp spec fn from_error_spec<Res, E>(f: FromErrorFn<Res, E>, e: E) -> Res;
impl<Res, E> FromErrorFn<Res, E> {
    #[verifier::external_body] pub fn vx_clone(&self) -> (r: Self) ensures r == *self { unimplemented!() }
    #[verifier::external_body]
    pub fn vx_call<Req>(&self, e: &E, Tracked(tr): Tracked<&mut Trace<Req, Res, E>>) -> (r: Res)
        ensures r == from_error_spec(*self, *e), *final(tr) == (Trace { fb_calls: old(tr).fb_calls + 1, ..*old(tr) }),
    { unimplemented!() }
}
pub struct FromRequestErrorFn<Req, Res, E> { pub id: Ghost<int>, pub p: core::marker::PhantomData<(Req, Res, E)> }
pub uninterp spec fn from_req_err_spec<Req, Res, E>(f: FromRequestErrorFn<Req, Res, E>, req: Req, e: E) -> Res;
impl<Req, Res, E> FromRequestErrorFn<Req, Res, E> {
    #[verifier::external_body] pub fn vx_clone(&self) -> (r: Self) ensures r == *self { unimplemented!() }
    #[verifier::external_body]
    pub fn vx_call(&self, req: &Req, e: &E, Tracked(tr): Tracked<&mut Trace<Req, Res, E>>) -> (r: Res)
        ensures r == from_req_err_spec(*self, *req, *e), *final(tr) == (Trace { fb_calls: old(tr).fb_calls + 1, ..*old(tr) }),
    { unimplemented!() }
}
pub struct ExceptionFn<E> { pub id: Ghost<int>, pub p: core::marker::PhantomData<E> }
pub uninterp spec fn exception_spec<E>(f: ExceptionFn<E>, e: E) -> E;
impl<E> ExceptionFn<E> {
    #[verifier::external_body] pub fn vx_clone(&self) -> (r: Self) ensures r == *self { unimplemented!() }
    #[verifier::external_body]
    pub fn vx_call<Req, Res>(&self, e: E, Tracked(tr): Tracked<&mut Trace<Req, Res, E>>) -> (r: E)
        ensures r == exception_spec(*self, e), *final(tr) == (Trace { fb_calls: old(tr).fb_calls + 1, ..*old(tr) }),
    { unimplemented!() }
}
pub struct ServiceFn<Req, Res, E> { pub id: Ghost<int>, pub p: core::marker::PhantomData<(Req, Res, E)> }
pub struct FbFut<Req, Res, E> { pub req: Ghost<Req>, pub p: core::marker::PhantomData<(Req, Res, E)> }
impl<Req, Res, E> ServiceFn<Req, Res, E> {
    #[verifier::external_body] pub fn vx_clone(&self) -> (r: Self) ensures r == *self { unimplemented!() }
    #[verifier::external_body]
    /// invoking the backup service (creating its future) is what "the strategy was triggered" means: counted here, not at the await
    pub fn vx_call(&self, req: Req, Tracked(tr): Tracked<&mut Trace<Req, Res, E>>) -> (f: FbFut<Req, Res, E>)
        ensures f.req@ == req, *final(tr) == (Trace { fb_calls: old(tr).fb_calls + 1, fb_req: Some(req), ..*old(tr) }),
    { unimplemented!() }
}
impl<Req, Res, E> FbFut<Req, Res, E> {
    #[verifier::external_body]
    pub fn vx_await(self, Tracked(tr): Tracked<&mut Trace<Req, Res, E>>) -> (r: Result<Res, E>)
        requires old(tr).unguarded == 0,
        ensures *final(tr) == (Trace { fb_done: Some(r), ..*old(tr) }),
    { unimplemented!() }
}

// ---- types of /repo (shape-checked) ----
pub enum FallbackError<E> { Inner(E), FallbackFailed(E) }
pub enum FallbackStrategy<Req, Res, E> {
    Value(Res), ValueFn(ValueFn<Res>), FromError(FromErrorFn<Res, E>), FromRequestError(FromRequestErrorFn<Req, Res, E>),
    Service(ServiceFn<Req, Res, E>), Exception(ExceptionFn<E>),
}
pub struct FallbackConfig<Req, Res, E> { pub strategy: FallbackStrategy<Req, Res, E>, pub handle_predicate: Option<HandlePredicate<E>>, pub event_listeners: EventListeners }
pub struct Fallback<Req, Res, E> { pub inner: Inner<Req, Res, E>, pub config: Arc<FallbackConfig<Req, Res, E>> }

/// the handle predicate accepts the error (always, if there is none)
pub open spec fn handles<Req, Res, E>(c: FallbackConfig<Req, Res, E>, e: E) -> bool {
    c.handle_predicate is Some ==> pred_spec(c.handle_predicate->0, e)
}
/// exactly what each strategy specifies for this request and this error
pub open spec fn strategy_answer<Req, Res, E>(s: FallbackStrategy<Req, Res, E>, req: Req, e: E, tr: Trace<Req, Res, E>, result: Result<Res, FallbackError<E>>) -> bool {
    match s {
        FallbackStrategy::Value(v) => result == Ok::<Res, FallbackError<E>>(v) && tr.fb_calls == 0,
        FallbackStrategy::ValueFn(f) => result == Ok::<Res, FallbackError<E>>(value_fn_spec(f)) && tr.fb_calls == 1,
        FallbackStrategy::FromError(f) => result == Ok::<Res, FallbackError<E>>(from_error_spec(f, e)) && tr.fb_calls == 1,
        FallbackStrategy::FromRequestError(f) => result == Ok::<Res, FallbackError<E>>(from_req_err_spec(f, req, e)) && tr.fb_calls == 1,
        FallbackStrategy::Service(b) => tr.fb_calls == 1 && tr.fb_req == Some(req) && (match tr.fb_done {
            Some(Ok(v)) => result == Ok::<Res, FallbackError<E>>(v),
            Some(Err(e2)) => result == Err::<Res, FallbackError<E>>(FallbackError::FallbackFailed(e2)),
            None => false }),
        FallbackStrategy::Exception(t) => result == Err::<Res, FallbackError<E>>(FallbackError::Inner(exception_spec(t, e))) && tr.fb_calls == 1,
    }
}

impl<E: VClone> FallbackError<E> {
    pub fn clone(&self) -> (r: Self)
        ensures r == *self,   // #a_cloned_error_says_the_same_thing [C17]
    //@body FallbackError::clone@Clone file=error
}
impl<Req, Res: VClone, E> FallbackStrategy<Req, Res, E> {
    pub fn clone(&self) -> (r: Self)
        ensures r == *self,   // #a_cloned_strategy_is_the_same_strategy [C17]
    //@body FallbackStrategy::clone@Clone
}
impl<Req: VClone, Res: VClone, E> Fallback<Req, Res, E> {
    pub fn new(inner: Inner<Req, Res, E>, config: Arc<FallbackConfig<Req, Res, E>>) -> (r: Self)
        ensures r.inner == inner && r.config == config,   // #keeps_config_and_inner [C17,C20]
    //@body Fallback::new

    pub fn clone(&self) -> (r: Self)
        ensures r.config == self.config,   // #clones_share_the_config [C17]
    //@body Fallback::clone@Clone

    pub fn poll_ready(&mut self, cx: &mut Context) -> (r: Poll<Result<(), FallbackError<E>>>)
        ensures
            r matches Poll::Ready(Ok(_)) ==> final(self).inner.ready@,   // #ready_only_when_inner_ready [C20]
            r matches Poll::Ready(Err(e)) ==> e is Inner,   // #readiness_errors_surface_as_inner [C20]
            final(self).config == old(self).config,   // #shared_state_handles_and_configuration_are_left_untouched [C17]
    //@body Fallback::poll_ready@Service

    pub fn call(&mut self, req: Req, clk: &mut Clock, Tracked(tr): Tracked<&mut Trace<Req, Res, E>>) -> (result: Result<Res, FallbackError<E>>)
        requires old(tr).fresh(), old(self).inner.ready@,
        ensures
            final(tr).calls == 1 && final(tr).done == 1 && final(tr).last_req == Some(req),   // #forwards_the_request_once_unchanged [C17,C20]
            final(tr).last_done matches Some(Ok(v)) ==> result == Ok::<Res, FallbackError<E>>(v) && final(tr).fb_calls == 0,   // #success_passes_through_and_never_triggers_the_fallback [C17,C20]
            final(tr).last_done matches Some(Err(e)) ==> (!handles(*old(self).config, e) ==> result == Err::<Res, FallbackError<E>>(FallbackError::Inner(e)) && final(tr).fb_calls == 0),   // #unhandled_error_returned_unchanged [C17,C20]
            final(tr).last_done matches Some(Err(e)) ==> (handles(*old(self).config, e) ==> strategy_answer(old(self).config.strategy, req, e, *final(tr), result)),   // #handled_error_gets_exactly_the_strategys_answer [C17]
            final(self).config == old(self).config,   // #shared_state_handles_and_configuration_are_left_untouched [C17]
    //@body Fallback::call@Service
}
fn main() {}
}
