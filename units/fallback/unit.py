FB = "crates/tower-resilience-fallback/src/"
TR = "Tracked(tr)"
UNIT = dict(
    serves=["C17", "C20"],
    files={"lib": FB + "lib.rs", "config": FB + "config.rs", "error": FB + "error.rs"},
    default_file="lib",
    verus_flags=["--no-erasure-check"],
    rules=[("R1",), ("R2",)],
    extra_params=["clk", "tr"],
    fns={
        "Fallback::new": dict(),
        "FallbackError::clone@Clone": dict(file="error"),
        "FallbackStrategy::clone@Clone": dict(rules=[("sub", "R10-arc-clone", r"Arc::clone\((\w+)\)", r"\1.vx_clone()", -1),
            ("sub", "R10-arc-clone", r"\b([fs])\.clone\(\)", r"\1.vx_clone()", -1)]),
        "Fallback::clone@Clone": dict(),
        "Fallback::poll_ready@Service": dict(rules=[("R10p", "FallbackError::Inner")]),
        "Fallback::call@Service": dict(rules=[
            ("R4",), ("R3",),
            ("sub", "R10-predicate", r"config\s*\.\s*handle_predicate\s*\.\s*as_ref\(\)\s*\.\s*map\(\s*\|p\|\s*p\(&error\)\s*\)\s*\.\s*unwrap_or\(true\)",
             "(match &config.handle_predicate { Some(p) => p.vx_call(&error), None => true })", -1),
            ("sub", "R6-closure-call", r"\bf\(\)", "f.vx_call(Tracked(tr))", 1),
            ("sub", "R6-closure-call", r"\bf\(&error\)", "f.vx_call(&error, Tracked(tr))", 1),
            ("sub", "R6-closure-call", r"\bf\(&(\w+), &error\)", r"f.vx_call(&\1, &error, Tracked(tr))", 1),
            ("wrapcalls", "R6-closure-call", r"\bbackup", "backup.vx_call({args}, Tracked(tr))", 1),
            # the predicate called in an expanded `match` instead of through Option::map (optional)
            ("sub", "R6-closure-call", r"(?<![\w.:])(?!f\()([a-z_]\w*)\(&error\)", r"\1.vx_call(&error)", -1),
            ("sub", "R6-closure-call", r"\btransform\(error\)", "transform.vx_call(error, Tracked(tr))", 1),
            ("addarg", ["call"], TR, 1),
        ]),
    },
    types=[
        ("enum", "FallbackError", "error"),
        ("enum", "FallbackStrategy", "lib"),
        ("struct", "FallbackConfig", "config", {"drop": ["name"]}),
        ("struct", "Fallback", "lib"),
    ],
)
