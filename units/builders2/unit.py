BH = "crates/tower-resilience-bulkhead/src/"
RL = "crates/tower-resilience-ratelimiter/src/"
HG = "crates/tower-resilience-hedge/src/"
MUT = [("sub", "R16-mut-self", r"\bself\b", "self_", -1), ("inject", None, "start", "let mut self_ = self;")]
INTO = ("sub", "R6-into", r"\bname\.into\(\)", "vx_wrap()", 1)
LISTEN = ("wrapcalls", "R6-closure-wrap", r"FnListener::new", "vx_wrap::<Listener>()", 1)
def setter(file, *extra):
    return dict(file=file, rules=MUT + list(extra))
UNIT = dict(
    serves=["C01", "C07", "C02", "C15", "C12"],
    files={"bhconfig": BH + "config.rs", "bhlayer": BH + "layer.rs", "rlconfig": RL + "config.rs", "rllayer": RL + "layer.rs",
           "hgconfig": HG + "config.rs", "hglayer": HG + "layer.rs"},
    default_file="bhconfig",
    rules=[("R1",)],
    extra_params=[],
    fns={
        "BulkheadLayer::new": dict(file="bhlayer"),
        "BulkheadConfigBuilder::new": dict(file="bhconfig", rules=[("sub", "R6-name", r"\"[^\"]*\"\.to_string\(\)", "vx_wrap()", 1)]),
        "BulkheadConfigBuilder::default@Default": dict(file="bhconfig"),
        "BulkheadConfigBuilder::max_concurrent_calls": setter("bhconfig"),
        "BulkheadConfigBuilder::max_wait_duration": setter("bhconfig"),
        "BulkheadConfigBuilder::reject_when_full": setter("bhconfig"),
        "BulkheadConfigBuilder::name": dict(file="bhconfig", rules=MUT + [INTO], skip_sig_check=False),
        "BulkheadConfigBuilder::on_call_permitted": setter("bhconfig", LISTEN),
        "BulkheadConfigBuilder::on_call_rejected": setter("bhconfig", LISTEN),
        "BulkheadConfigBuilder::on_call_finished": setter("bhconfig", LISTEN),
        "BulkheadConfigBuilder::on_call_failed": setter("bhconfig", LISTEN),
        "BulkheadConfigBuilder::build": dict(file="bhconfig", rules=[("sub", "R9-paths", r"crate::layer::BulkheadLayer", "BulkheadLayer", -1)]),
        "RateLimiterLayer::new": dict(file="rllayer"),
        "RateLimiterConfigBuilder::limit_for_period": setter("rlconfig"),
        "RateLimiterConfigBuilder::refresh_period": setter("rlconfig"),
        "RateLimiterConfigBuilder::timeout_duration": setter("rlconfig"),
        "RateLimiterConfigBuilder::window_type": setter("rlconfig"),
        "RateLimiterConfigBuilder::name": setter("rlconfig", INTO),
        "RateLimiterConfigBuilder::on_permit_acquired": setter("rlconfig", LISTEN),
        "RateLimiterConfigBuilder::on_permit_rejected": setter("rlconfig", LISTEN),
        "RateLimiterConfigBuilder::on_permits_refreshed": setter("rlconfig", LISTEN),
        "RateLimiterConfigBuilder::new": dict(file="rlconfig", rules=[("sub", "R6-name", r"\"[^\"]*\"\.to_string\(\)", "vx_wrap()", 1)]),
        "RateLimiterConfigBuilder::default@Default": dict(file="rlconfig"),
        "HedgeDelay::default@Default": dict(file="hgconfig"),
        "HedgeConfig::default@Default": dict(file="hgconfig"),
        "HedgeConfigBuilder::new": dict(file="hgconfig"),
        "HedgeConfigBuilder::default@Default": dict(file="hgconfig"),
        "RateLimiterConfigBuilder::build": dict(file="rlconfig", rules=[("sub", "R9-paths", r"crate::RateLimiterLayer", "RateLimiterLayer", -1)]),
        "HedgeLayer::from_config": dict(file="hglayer"),
        "HedgeConfigBuilder::name": setter("hgconfig", INTO),
        "HedgeConfigBuilder::max_hedged_attempts": setter("hgconfig", ("sub", "R10-max", r"\bn\.max\(1\)", "vx_max(n, 1)", 1)),
        "HedgeConfigBuilder::delay": setter("hgconfig"),
        "HedgeConfigBuilder::no_delay": setter("hgconfig"),
        "HedgeConfigBuilder::delay_fn": setter("hgconfig", ("wrapcalls", "R6-closure-wrap", r"Arc::new", "vx_wrap_of({args})", 1)),
        "HedgeConfigBuilder::on_event": setter("hgconfig"),
        "HedgeConfigBuilder::build": dict(file="hgconfig"),
    },
    types=[
        ("struct", "BulkheadConfig", "bhconfig"), ("struct", "BulkheadConfigBuilder", "bhconfig"), ("struct", "BulkheadLayer", "bhlayer"),
        ("struct", "RateLimiterConfig", "rlconfig"), ("struct", "RateLimiterConfigBuilder", "rlconfig"), ("struct", "RateLimiterLayer", "rllayer"), ("enum", "WindowType", "rlconfig"),
        ("struct", "HedgeConfig", "hgconfig"), ("struct", "HedgeConfigBuilder", "hgconfig"), ("struct", "HedgeLayer", "hglayer"), ("enum", "HedgeDelay", "hgconfig"),
    ],
)
