#![feature(allocator_api)]
#![allow(unused)]
use vstd::prelude::*;
use vstd::std_specs::cmp::*;
use core::cmp::Ordering as CmpOrdering;
use std::sync::Arc;
verus! {
// ---- unit prelude (ASSUMED): opaque values for everything a builder merely stores ----
//@include time.rs
pub struct Name { pub id: Ghost<int> }
pub struct EventListeners { pub n: Ghost<nat> }
impl EventListeners {
    #[verifier::external_body] pub fn new() -> (r: Self) ensures r.n@ == 0 { unimplemented!() }
    #[verifier::external_body] pub fn default() -> (r: Self) ensures r.n@ == 0 { unimplemented!() }
    #[verifier::external_body] pub fn add<L>(&mut self, l: L) ensures final(self).n@ == old(self).n@ + 1 { unimplemented!() }
}
/// any expression that wraps a user closure or converts a name (Arc::new(f), FnListener::new(..), name.into(), "..".to_string()):
/// its value is irrelevant here — the claims are about the OTHER fields of the builder
#[verifier::external_body] pub fn vx_wrap<T>() -> (r: T) { unimplemented!() }
/// `Arc::new(x)` of a user closure / object handed to a setter: the stored value is a function of x alone (so "the first one wins" or
/// "ignored" is visible), nothing else is known about it
pub uninterp spec fn wrapped<A, T>(a: A) -> T;
#[verifier::external_body] pub fn vx_wrap_of<A, T>(a: A) -> (r: T) ensures r == wrapped::<A, T>(a) { unimplemented!() }
pub struct Listener { pub id: Ghost<int> }
pub open spec fn max1(n: usize) -> usize { if n >= 1 { n } else { 1 } }
#[verifier::external_body] pub fn vx_max(a: usize, b: usize) -> (r: usize) ensures r == (if a >= b { a } else { b }) { unimplemented!() }

// ===== bulkhead (C01, C07) =====
pub struct BulkheadConfig { pub max_concurrent_calls: usize, pub max_wait_duration: Option<Duration>, pub name: Name, pub event_listeners: EventListeners }
pub struct BulkheadLayer { pub config: BulkheadConfig }
impl BulkheadLayer {
    pub fn new(config: BulkheadConfig) -> (r: Self)
        ensures r.config == config,   // #layer_keeps_the_configuration [C01,C07]
    //@body BulkheadLayer::new file=bhlayer
}
pub struct BulkheadConfigBuilder { pub max_concurrent_calls: usize, pub max_wait_duration: Option<Duration>, pub name: Name, pub event_listeners: EventListeners }
impl BulkheadConfigBuilder {
    pub fn new() -> (r: Self)
        ensures r.max_wait_duration is None && r.event_listeners.n@ == 0 && r.max_concurrent_calls >= 1,   // #defaults_wait_forever_with_positive_capacity [C07]
    //@body BulkheadConfigBuilder::new file=bhconfig
    pub fn default() -> (r: Self)
        ensures r.max_wait_duration is None && r.event_listeners.n@ == 0 && r.max_concurrent_calls >= 1,   // #defaults_wait_forever_with_positive_capacity [C07]
    //@body BulkheadConfigBuilder::default@Default file=bhconfig
    pub fn max_concurrent_calls(self, max: usize) -> (r: Self)
        ensures r.max_concurrent_calls == max,   // #sets_max_concurrent_calls [C01,C07]
            r.max_wait_duration == self.max_wait_duration && r.name == self.name && r.event_listeners == self.event_listeners,   // #keeps_every_other_setting [C01,C07]
    //@body BulkheadConfigBuilder::max_concurrent_calls file=bhconfig
    pub fn max_wait_duration(self, duration: Duration) -> (r: Self)
        ensures r.max_wait_duration == Some(duration),   // #sets_max_wait_duration_whatever_was_set_before [C07]
            r.max_concurrent_calls == self.max_concurrent_calls && r.name == self.name && r.event_listeners == self.event_listeners,   // #keeps_every_other_setting [C01,C07]
    //@body BulkheadConfigBuilder::max_wait_duration file=bhconfig
    pub fn reject_when_full(self) -> (r: Self)
        ensures r.max_wait_duration == Some(Duration { nanos: 0 }),   // #reject_when_full_is_a_zero_wait [C07]
            r.max_concurrent_calls == self.max_concurrent_calls && r.name == self.name && r.event_listeners == self.event_listeners,   // #keeps_every_other_setting [C01,C07]
    //@body BulkheadConfigBuilder::reject_when_full file=bhconfig
    pub fn name(self, name: Name) -> (r: Self)
        ensures r.max_concurrent_calls == self.max_concurrent_calls && r.max_wait_duration == self.max_wait_duration && r.event_listeners == self.event_listeners,   // #keeps_every_other_setting [C01,C07]
    //@body BulkheadConfigBuilder::name file=bhconfig
    pub fn on_call_permitted<F>(self, f: F) -> (r: Self)
        ensures r.max_concurrent_calls == self.max_concurrent_calls && r.max_wait_duration == self.max_wait_duration && r.name == self.name,   // #listener_registration_keeps_every_setting [C01,C07]
    //@body BulkheadConfigBuilder::on_call_permitted file=bhconfig
    pub fn on_call_rejected<F>(self, f: F) -> (r: Self)
        ensures r.max_concurrent_calls == self.max_concurrent_calls && r.max_wait_duration == self.max_wait_duration && r.name == self.name,   // #listener_registration_keeps_every_setting [C01,C07]
    //@body BulkheadConfigBuilder::on_call_rejected file=bhconfig
    pub fn on_call_finished<F>(self, f: F) -> (r: Self)
        ensures r.max_concurrent_calls == self.max_concurrent_calls && r.max_wait_duration == self.max_wait_duration && r.name == self.name,   // #listener_registration_keeps_every_setting [C01,C07]
    //@body BulkheadConfigBuilder::on_call_finished file=bhconfig
    pub fn on_call_failed<F>(self, f: F) -> (r: Self)
        ensures r.max_concurrent_calls == self.max_concurrent_calls && r.max_wait_duration == self.max_wait_duration && r.name == self.name,   // #listener_registration_keeps_every_setting [C01,C07]
    //@body BulkheadConfigBuilder::on_call_failed file=bhconfig
    pub fn build(self) -> (r: BulkheadLayer)
        ensures r.config.max_concurrent_calls == self.max_concurrent_calls && r.config.max_wait_duration == self.max_wait_duration
            && r.config.name == self.name && r.config.event_listeners == self.event_listeners,   // #configuration_is_exactly_what_was_set [C01,C07]
    //@body BulkheadConfigBuilder::build file=bhconfig
}

// ===== rate limiter (C02, C15) =====
#[derive(Clone, Copy, PartialEq, Eq, Structural)]
pub enum WindowType { Fixed, SlidingLog, SlidingCounter }
pub struct RateLimiterConfig { pub limit_for_period: usize, pub refresh_period: Duration, pub timeout_duration: Duration, pub window_type: WindowType, pub event_listeners: EventListeners, pub name: Name }
pub struct RateLimiterLayer { pub config: Arc<RateLimiterConfig> }
impl RateLimiterLayer {
    pub fn new(config: RateLimiterConfig) -> (r: Self)
        ensures *r.config == config,   // #layer_keeps_the_configuration [C02,C15]
    //@body RateLimiterLayer::new file=rllayer
}
pub struct RateLimiterConfigBuilder { pub limit_for_period: usize, pub refresh_period: Duration, pub timeout_duration: Duration, pub window_type: WindowType, pub event_listeners: EventListeners, pub name: Name }
impl WindowType { /// #[derive(Default)]: which variant carries #[default] is not claimed here
    #[verifier::external_body] pub fn default() -> (r: Self) { unimplemented!() } }
pub open spec fn rl_defaults(r: RateLimiterConfigBuilder) -> bool {
    r.limit_for_period == 50 && r.refresh_period.nanos == 1_000_000_000 && r.timeout_duration.nanos == 100_000_000 && r.event_listeners.n@ == 0
}
impl RateLimiterConfigBuilder {
    pub fn new() -> (r: Self)
        ensures rl_defaults(r),   // #defaults_50_per_second_waiting_at_most_100ms [C02,C15]
    //@body RateLimiterConfigBuilder::new file=rlconfig
    pub fn default() -> (r: Self)
        ensures rl_defaults(r),   // #defaults_50_per_second_waiting_at_most_100ms [C02,C15]
    //@body RateLimiterConfigBuilder::default@Default file=rlconfig
    pub fn limit_for_period(self, limit: usize) -> (r: Self)
        ensures r.limit_for_period == limit,   // #sets_limit_for_period [C02]
            r.refresh_period == self.refresh_period && r.timeout_duration == self.timeout_duration && r.window_type == self.window_type && r.event_listeners == self.event_listeners && r.name == self.name,   // #keeps_every_other_setting [C02,C15]
    //@body RateLimiterConfigBuilder::limit_for_period file=rlconfig
    pub fn refresh_period(self, duration: Duration) -> (r: Self)
        ensures r.refresh_period == duration,   // #sets_refresh_period [C02]
            r.limit_for_period == self.limit_for_period && r.timeout_duration == self.timeout_duration && r.window_type == self.window_type && r.event_listeners == self.event_listeners && r.name == self.name,   // #keeps_every_other_setting [C02,C15]
    //@body RateLimiterConfigBuilder::refresh_period file=rlconfig
    pub fn timeout_duration(self, duration: Duration) -> (r: Self)
        ensures r.timeout_duration == duration,   // #sets_timeout_duration [C15]
            r.limit_for_period == self.limit_for_period && r.refresh_period == self.refresh_period && r.window_type == self.window_type && r.event_listeners == self.event_listeners && r.name == self.name,   // #keeps_every_other_setting [C02,C15]
    //@body RateLimiterConfigBuilder::timeout_duration file=rlconfig
    pub fn window_type(self, window_type: WindowType) -> (r: Self)
        ensures r.window_type == window_type,   // #sets_window_type [C02]
            r.limit_for_period == self.limit_for_period && r.refresh_period == self.refresh_period && r.timeout_duration == self.timeout_duration && r.event_listeners == self.event_listeners && r.name == self.name,   // #keeps_every_other_setting [C02,C15]
    //@body RateLimiterConfigBuilder::window_type file=rlconfig
    pub fn name<S>(self, name: S) -> (r: Self)
        ensures r.limit_for_period == self.limit_for_period && r.refresh_period == self.refresh_period && r.timeout_duration == self.timeout_duration && r.window_type == self.window_type && r.event_listeners == self.event_listeners,   // #keeps_every_other_setting [C02,C15]
    //@body RateLimiterConfigBuilder::name file=rlconfig
    pub fn on_permit_acquired<F>(self, f: F) -> (r: Self)
        ensures r.limit_for_period == self.limit_for_period && r.refresh_period == self.refresh_period && r.timeout_duration == self.timeout_duration && r.window_type == self.window_type && r.name == self.name,   // #listener_registration_keeps_every_setting [C02,C15]
    //@body RateLimiterConfigBuilder::on_permit_acquired file=rlconfig
    pub fn on_permit_rejected<F>(self, f: F) -> (r: Self)
        ensures r.limit_for_period == self.limit_for_period && r.refresh_period == self.refresh_period && r.timeout_duration == self.timeout_duration && r.window_type == self.window_type && r.name == self.name,   // #listener_registration_keeps_every_setting [C02,C15]
    //@body RateLimiterConfigBuilder::on_permit_rejected file=rlconfig
    pub fn on_permits_refreshed<F>(self, f: F) -> (r: Self)
        ensures r.limit_for_period == self.limit_for_period && r.refresh_period == self.refresh_period && r.timeout_duration == self.timeout_duration && r.window_type == self.window_type && r.name == self.name,   // #listener_registration_keeps_every_setting [C02,C15]
    //@body RateLimiterConfigBuilder::on_permits_refreshed file=rlconfig
    pub fn build(self) -> (r: RateLimiterLayer)
        ensures r.config.limit_for_period == self.limit_for_period && r.config.refresh_period == self.refresh_period && r.config.timeout_duration == self.timeout_duration
            && r.config.window_type == self.window_type && r.config.event_listeners == self.event_listeners && r.config.name == self.name,   // #configuration_is_exactly_what_was_set [C02,C15]
    //@body RateLimiterConfigBuilder::build file=rlconfig
}

// ===== hedge (C12) =====
pub struct DelayFn { pub id: Ghost<int> }
pub enum HedgeDelay { Fixed(Duration), Immediate, Dynamic(Arc<DelayFn>) }
pub struct HedgeConfig { pub name: Option<Name>, pub max_hedged_attempts: usize, pub delay: HedgeDelay, pub listeners: EventListeners }
pub struct HedgeLayer { pub config: HedgeConfig }
impl HedgeLayer {
    pub fn from_config(config: HedgeConfig) -> (r: Self)
        ensures r.config == config,   // #layer_keeps_the_configuration [C12]
    //@body HedgeLayer::from_config file=hglayer
}
pub open spec fn hedge_defaults(c: HedgeConfig) -> bool {
    c.name is None && c.max_hedged_attempts == 2 && c.delay == HedgeDelay::Fixed(Duration { nanos: 1_000_000_000 }) && c.listeners.n@ == 0
}
impl HedgeDelay {
    pub fn default() -> (r: Self)
        ensures r == HedgeDelay::Fixed(Duration { nanos: 1_000_000_000 }),   // #default_delay_is_one_second [C12]
    //@body HedgeDelay::default@Default file=hgconfig
}
impl HedgeConfig {
    pub fn default() -> (r: Self)
        ensures hedge_defaults(r),   // #defaults_one_hedge_after_one_second [C12]
    //@body HedgeConfig::default@Default file=hgconfig
}
pub struct HedgeConfigBuilder { pub config: HedgeConfig }
impl HedgeConfigBuilder {
    pub fn new() -> (r: Self)
        ensures hedge_defaults(r.config),   // #defaults_one_hedge_after_one_second [C12]
    //@body HedgeConfigBuilder::new file=hgconfig
    pub fn default() -> (r: Self)
        ensures hedge_defaults(r.config),   // #defaults_one_hedge_after_one_second [C12]
    //@body HedgeConfigBuilder::default@Default file=hgconfig
    pub fn name(self, name: Name) -> (r: Self)
        ensures r.config.max_hedged_attempts == self.config.max_hedged_attempts && r.config.delay == self.config.delay && r.config.listeners == self.config.listeners,   // #keeps_every_other_setting [C12]
    //@body HedgeConfigBuilder::name file=hgconfig
    pub fn max_hedged_attempts(self, n: usize) -> (r: Self)
        ensures r.config.max_hedged_attempts == max1(n),   // #at_least_one_attempt_whatever_is_requested [C12]
            r.config.name == self.config.name && r.config.delay == self.config.delay && r.config.listeners == self.config.listeners,   // #keeps_every_other_setting [C12]
    //@body HedgeConfigBuilder::max_hedged_attempts file=hgconfig
    pub fn delay(self, delay: Duration) -> (r: Self)
        ensures r.config.delay == HedgeDelay::Fixed(delay),   // #sets_the_fixed_delay [C12]
            r.config.name == self.config.name && r.config.max_hedged_attempts == self.config.max_hedged_attempts && r.config.listeners == self.config.listeners,   // #keeps_every_other_setting [C12]
    //@body HedgeConfigBuilder::delay file=hgconfig
    pub fn no_delay(self) -> (r: Self)
        ensures r.config.delay == HedgeDelay::Immediate,   // #sets_parallel_mode [C12]
            r.config.name == self.config.name && r.config.max_hedged_attempts == self.config.max_hedged_attempts && r.config.listeners == self.config.listeners,   // #keeps_every_other_setting [C12]
    //@body HedgeConfigBuilder::no_delay file=hgconfig
    pub fn delay_fn<F>(self, f: F) -> (r: Self)
        ensures r.config.delay == HedgeDelay::Dynamic(wrapped(f)),   // #sets_the_per_attempt_delay_function [C12]
            r.config.name == self.config.name && r.config.max_hedged_attempts == self.config.max_hedged_attempts && r.config.listeners == self.config.listeners,   // #keeps_every_other_setting [C12]
    //@body HedgeConfigBuilder::delay_fn file=hgconfig
    pub fn on_event<L>(self, listener: L) -> (r: Self)
        ensures r.config.name == self.config.name && r.config.max_hedged_attempts == self.config.max_hedged_attempts && r.config.delay == self.config.delay,   // #listener_registration_keeps_every_setting [C12]
    //@body HedgeConfigBuilder::on_event file=hgconfig
    pub fn build(self) -> (r: HedgeLayer)
        ensures r.config == self.config,   // #configuration_is_exactly_what_was_set [C12]
    //@body HedgeConfigBuilder::build file=hgconfig
}
fn main() {}
}
