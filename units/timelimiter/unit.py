TL = "crates/tower-resilience-timelimiter/src/"
TR = "Tracked(tr)"
UNIT = dict(
    serves=["C06", "C20"],
    files={"lib": TL + "lib.rs", "config": TL + "config.rs", "error": TL + "error.rs"},
    default_file="lib",
    verus_flags=["--no-erasure-check"],
    rules=[("R1",), ("R2",)],
    extra_params=["clk", "tr"],
    fns={
        "FixedTimeout::get_timeout@TimeoutFn": dict(file="config"),
        "DynamicTimeout::get_timeout@TimeoutFn": dict(file="config"),
        "TimeLimiter::clone@Clone": dict(),
        "TimeLimiter::poll_ready@Service": dict(rules=[("R10p", "TimeLimiterError::Inner")]),
        "TimeLimiter::call@Service": dict(rules=[
            ("R15", r"let \(tx, rx\) = tokio::sync::oneshot::channel\(\);", r"tokio::select!\s*\{", "vx_opaque_noncancel(inner, req, timeout_duration, Tracked(tr))"),
            ("R4",), ("R3",), ("R5",),
            ("sub", "R16-local-type", r"let result: Option<Result<S::Response, S::Error>> =", "let result: Option<Result<Res, E>> =", 1),
            ("addarg", ["call"], TR, 1),
        ]),
    },
    types=[
        ("enum", "TimeLimiterError", "error"),
        ("struct", "DynamicTimeout", "config"),
        ("struct", "TimeLimiterConfig", "config"),
        ("struct", "TimeLimiter", "lib"),
    ],
)
