TL = "crates/tower-resilience-timelimiter/src/"
TR = "Tracked(tr)"
UNIT = dict(
    serves=["C06", "C20"],
    files={"lib": TL + "lib.rs", "config": TL + "config.rs", "error": TL + "error.rs"},
    default_file="lib",
    verus_flags=["--no-erasure-check"],
    rules=[("R1",), ("R2",)],
    extra_params=["clk", "tr"],
    fns={
        "FixedTimeout::get_timeout@TimeoutFn": dict(file="config"),
        "DynamicTimeout::get_timeout@TimeoutFn": dict(file="config"),
        "TimeLimiter::clone@Clone": dict(),
        "TimeLimiter::poll_ready@Service": dict(rules=[("R10p", "TimeLimiterError::Inner")]),
        "TimeLimiter::call@Service": dict(safety_tags=["C06"], rules=[
            # tokio's own clock type and absolute-deadline timers (optional: the pinned tree uses timeout(d, ..) and sleep(d))
            ("sub", "R9-paths", r"tokio::time::Instant::now\(\)", "Instant::now()", -1),
            ("addarg", ["timeout_at", "sleep_until"], "&*clk", -1),
            ("R10f", -1),
            ("R17-spawn", 1),
            ("R17-select", 1),
            ("sub", "R9-paths", r"tokio::sync::oneshot::channel\(\)", "oneshot_channel(Tracked(tr))", 1),
            ("sub", "R9-paths", r"tokio::time::(sleep_until|sleep|timeout_at|timeout)\b", r"\1", -1),
            ("sub", "R6-send", r"\btx\.send\((\w+)\)", r"tx.send(\1, Tracked(tr))", 1),
            ("R4",), ("R3",), ("R5",),
            ("sub", "R16-local-type", r"let result: Option<Result<S::Response, S::Error>> =", "let result: Option<Result<Res, E>> =", 1),
            ("addarg", ["call"], TR, 2),
        ]),
    },
    frame=[
        # the assumed contracts of `timeout(d, f)` (polls f before it looks at the deadline) and of the select! shim (a result that has
        # arrived is taken) rest on this: a select! that can examine the expired timer BEFORE the ready result hands the caller a timeout
        # error for a call that finished before its deadline whenever the caller polls late
        dict(name="a_ready_result_is_never_passed_over_for_an_expired_timer", tags=["C06"], select_timer_last=r"\bsleep(_until)?\s*\(",
             glob=TL + "lib.rs", violation=True),
    ],
    types=[
        ("enum", "TimeLimiterError", "error"),
        ("struct", "DynamicTimeout", "config"),
        ("struct", "TimeLimiterConfig", "config"),
        ("struct", "TimeLimiter", "lib"),
    ],
)
