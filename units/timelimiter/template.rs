#![feature(allocator_api)]
#![allow(unused)]
use vstd::prelude::*;
use vstd::std_specs::cmp::*;
use core::cmp::Ordering as CmpOrdering;
use std::sync::Arc;
verus! {
//@include time.rs
//@include trace.rs
pub open spec fn call_gate<Req, Res, E>(tr: Trace<Req, Res, E>) -> bool { tr.created }
pub open spec fn await_gate<Req, Res, E>(tr: Trace<Req, Res, E>) -> bool { true }
//@include inner.rs
//@include events.rs

// ---- unit prelude: ALL of the timing is ASSUMED here (tokio's timer): timeout(d, f) created at t0 either lets f
// complete with r at some t <= t0+d and returns Ok(r) at t, or returns Err(Elapsed) at exactly t0+d and drops f then ----
pub struct Elapsed {}
pub struct TimeoutFut<Req, Res, E> { pub d: Duration, pub p: core::marker::PhantomData<(Req, Res, E)> }
pub fn timeout<Req, Res, E>(d: Duration, f: InnerFut<Req, Res, E>) -> (r: TimeoutFut<Req, Res, E>) ensures r.d == d { TimeoutFut { d, p: core::marker::PhantomData } }
impl<Req, Res, E> TimeoutFut<Req, Res, E> {
    #[verifier::external_body]
    pub fn vx_await(self, Tracked(tr): Tracked<&mut Trace<Req, Res, E>>) -> (r: Result<Result<Res, E>, Elapsed>)
        requires old(tr).unguarded == 0,
        ensures
            r matches Ok(v) ==> *final(tr) == (Trace { ev: old(tr).ev.push(Ev::InnerDone(v)), done: old(tr).done + 1, last_done: Some(v), slept_since_done: 0, granted_since_done: false,
                                                        timer: Some(self.d), awaits_before_timer: old(tr).blocked, ..*old(tr) }),
            r is Err ==> *final(tr) == (Trace { ev: old(tr).ev.push(Ev::TimedOut(self.d)), timer: Some(self.d), awaits_before_timer: old(tr).blocked, inner_dropped: true, ..*old(tr) }),
    { unimplemented!() }
}
/// R15: the non-cancelling branch (tokio::spawn + oneshot + tokio::select!) is outside the dialect: it may make the
/// inner call and returns an arbitrary value; nothing is claimed for executions through it
#[verifier::external_body]
pub fn vx_opaque_noncancel<Req, Res, E>(inner: Inner<Req, Res, E>, req: Req, d: Duration, Tracked(tr): Tracked<&mut Trace<Req, Res, E>>) -> (r: Option<Result<Res, E>>)
    ensures final(tr).opaque && final(tr).created == old(tr).created,
{ unimplemented!() }
/// T: TimeoutFn<Req> — the configured source, by the contract of its two implementations (proved below)
pub struct TimeoutSource { pub id: Ghost<int> }
pub uninterp spec fn timeout_spec<Req>(s: TimeoutSource, req: Req) -> Duration;
impl TimeoutSource {
    #[verifier::external_body]
    pub fn get_timeout<Req>(&self, req: &Req) -> (r: Duration) ensures r == timeout_spec(*self, *req) { unimplemented!() }
}

// ---- types of /repo (shape-checked) ----
pub enum TimeLimiterError<E> { Timeout, Inner(E) }
pub struct FixedTimeout(pub Duration);
pub struct DynamicTimeout<F> { pub f: Arc<F> }
pub struct TimeLimiterConfig { pub timeout_source: TimeoutSource, pub cancel_running_future: bool, pub event_listeners: EventListeners, pub name: Name }
pub struct TimeLimiter<Req, Res, E> { pub inner: Inner<Req, Res, E>, pub config: Arc<TimeLimiterConfig> }

impl FixedTimeout {
    pub fn get_timeout<Req>(&self, _req: &Req) -> (r: Duration)
        ensures r == self.0,   // #fixed_timeout_is_the_configured_duration [C06]
    //@body FixedTimeout::get_timeout@TimeoutFn file=config
}
impl<F> DynamicTimeout<F> {
    pub fn get_timeout<Req>(&self, req: &Req) -> (r: Duration) where F: Fn(&Req) -> Duration
        requires call_requires(*self.f, (req,)),
        ensures call_ensures(*self.f, (req,), r),   // #per_request_timeout_is_what_the_function_returns_for_this_request [C06]
    //@body DynamicTimeout::get_timeout@TimeoutFn file=config
}

impl<Req, Res, E> TimeLimiter<Req, Res, E> {
    pub fn clone(&self) -> (r: Self)
        ensures r.config == self.config,   // #clones_share_the_config [C06]
    //@body TimeLimiter::clone@Clone

    pub fn poll_ready(&mut self, cx: &mut Context) -> (r: Poll<Result<(), TimeLimiterError<E>>>)
        ensures
            r matches Poll::Ready(Ok(_)) ==> final(self).inner.ready@,   // #ready_only_when_inner_ready [C20]
            r matches Poll::Ready(Err(e)) ==> e is Inner,   // #readiness_errors_surface_as_inner [C20]
            final(self).config == old(self).config,   // #frame
    //@body TimeLimiter::poll_ready@Service

    pub fn call(&mut self, req: Req, clk: &mut Clock, Tracked(tr): Tracked<&mut Trace<Req, Res, E>>) -> (result: Result<Res, TimeLimiterError<E>>)
        requires old(tr).fresh(), old(self).inner.ready@,
        ensures
            final(tr).opaque <==> !old(self).config.cancel_running_future,   // #cancel_flag_selects_the_mode [C06]
            !final(tr).opaque ==> final(tr).calls == 1 && final(tr).last_req == Some(req),   // #forwards_the_request_once_unchanged [C06,C20]
            !final(tr).opaque ==> final(tr).timer == Some(timeout_spec(old(self).config.timeout_source, req)) && final(tr).awaits_before_timer == 0,   // #deadline_is_this_requests_timeout_and_starts_at_arrival [C06]
            !final(tr).opaque ==> (match result {
                Ok(v) => final(tr).last_done == Some(Ok::<Res, E>(v)) && !final(tr).inner_dropped,
                Err(TimeLimiterError::Inner(e)) => final(tr).last_done == Some(Err::<Res, E>(e)) && !final(tr).inner_dropped,
                Err(TimeLimiterError::Timeout) => final(tr).inner_dropped && final(tr).done == 0 }),   // #inner_result_if_in_time_else_timeout_error_and_inner_dropped [C06,C20]
            final(self).config == old(self).config,   // #frame
    //@body TimeLimiter::call@Service
}
fn main() {}
}
