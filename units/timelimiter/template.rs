#![feature(allocator_api)]
#![allow(unused)]
use vstd::prelude::*;
use vstd::std_specs::cmp::*;
use core::cmp::Ordering as CmpOrdering;
use std::sync::Arc;
verus! {
//@include time.rs
//@include trace.rs
pub open spec fn call_gate<Req, Res, E>(tr: Trace<Req, Res, E>) -> bool { tr.created }
pub open spec fn await_gate<Req, Res, E>(tr: Trace<Req, Res, E>) -> bool { true }
//@include inner.rs
//@include tokio_sleep.rs
//@include events.rs

// ---- unit prelude: ALL of the timing is ASSUMED here (tokio's timer): timeout(d, f) created at t0 either lets f
// complete with r at some t <= t0+d and returns Ok(r) at t, or returns Err(Elapsed) at exactly t0+d and drops f then ----
pub struct Elapsed {}
pub struct TimeoutFut<Req, Res, E> { pub d: Duration, pub p: core::marker::PhantomData<(Req, Res, E)> }
pub fn timeout<Req, Res, E>(d: Duration, f: InnerFut<Req, Res, E>) -> (r: TimeoutFut<Req, Res, E>) ensures r.d == d { TimeoutFut { d, p: core::marker::PhantomData } }
impl<Req, Res, E> TimeoutFut<Req, Res, E> {
    #[verifier::external_body]
    pub fn vx_await(self, Tracked(tr): Tracked<&mut Trace<Req, Res, E>>) -> (r: Result<Result<Res, E>, Elapsed>)
        requires old(tr).unguarded == 0,
        ensures
            r matches Ok(v) ==> *final(tr) == (Trace { ev: old(tr).ev.push(Ev::InnerDone(v)), done: old(tr).done + 1, last_done: Some(v), slept_since_done: 0, granted_since_done: false,
                                                        timer: Some(self.d), awaits_before_timer: old(tr).blocked, ..*old(tr) }),
            r is Err ==> *final(tr) == (Trace { ev: old(tr).ev.push(Ev::TimedOut(self.d)), timer: Some(self.d), awaits_before_timer: old(tr).blocked, inner_dropped: true, ..*old(tr) }),
    { unimplemented!() }
}
/// tokio::time::timeout_at / sleep_until: the same timers given an absolute deadline; the duration that reaches the timer is the
/// distance from the instant the deadline was computed at (no time passes in the model between computing it and arming the timer)
#[verifier::external_body]
pub fn timeout_at<Req, Res, E>(deadline: Instant, f: InnerFut<Req, Res, E>, clk: &Clock) -> (r: TimeoutFut<Req, Res, E>)
    ensures r.d.nanos == (if deadline.t >= clk.now@ { (deadline.t - clk.now@) as u128 } else { 0 })
{ unimplemented!() }
/// R17: the non-cancelling branch. `tokio::spawn(async move { B })` runs B in line (the detached task runs to completion:
/// tokio, assumed) and `tokio::select!` is a nondeterministic choice between "the task's result has arrived" and "the timer fired".
pub struct OneTx<Res, E> { pub p: core::marker::PhantomData<(Res, E)> }
pub struct OneRx<Res, E> { pub p: core::marker::PhantomData<(Res, E)> }
pub struct RecvError {}
#[verifier::external_body]
pub fn oneshot_channel<Req, Res, E>(Tracked(tr): Tracked<&mut Trace<Req, Res, E>>) -> (r: (OneTx<Res, E>, OneRx<Res, E>))
    ensures *final(tr) == (Trace { tx_alive: true, ..*old(tr) }),
{ unimplemented!() }
impl<Res, E> OneTx<Res, E> {
    #[verifier::external_body]
    pub fn send<Req>(self, v: Result<Res, E>, Tracked(tr): Tracked<&mut Trace<Req, Res, E>>) -> (r: Result<(), Result<Res, E>>)
        ensures *final(tr) == (Trace { queue: old(tr).queue.push((0usize, v)), tx_alive: false, ..*old(tr) }),
    { unimplemented!() }
}
impl<Res, E> OneRx<Res, E> {
    /// the receiver awaited inside select!: yields the value the detached task sent
    #[verifier::external_body]
    pub fn vx_await<Req>(self, Tracked(tr): Tracked<&mut Trace<Req, Res, E>>) -> (r: Result<Result<Res, E>, RecvError>)
        requires old(tr).queue.len() > 0,
        ensures r matches Ok(v) ==> v == old(tr).queue[0].1, r is Ok,
            *final(tr) == (Trace { queue: old(tr).queue.drop_first(), last_recv: Some(old(tr).queue[0]), ..*old(tr) }),
    { unimplemented!() }
}
#[verifier::external_body]
pub fn vx_select2<Req, Res, E>(c1: bool, Tracked(tr): Tracked<&mut Trace<Req, Res, E>>) -> (r: u8)
    ensures *final(tr) == *old(tr), r <= 2, r == 0 ==> old(tr).queue.len() > 0, r == 1 ==> c1, r == 2 ==> old(tr).queue.len() == 0 && !c1,
{ unimplemented!() }
pub fn vx_branch_disabled() requires false { }
/// a select! branch that cannot be taken
#[verifier::external_body]
pub fn vx_never<T>() -> (r: T) requires false { unimplemented!() }
/// T: TimeoutFn<Req> — the configured source, by the contract of its two implementations (proved below)
pub struct TimeoutSource { pub id: Ghost<int> }
pub uninterp spec fn timeout_spec<Req>(s: TimeoutSource, req: Req) -> Duration;
impl TimeoutSource {
    #[verifier::external_body]
    pub fn get_timeout<Req>(&self, req: &Req) -> (r: Duration) ensures r == timeout_spec(*self, *req) { unimplemented!() }
}

// ---- types of /repo (shape-checked) ----
pub enum TimeLimiterError<E> { Timeout, Inner(E) }
pub struct FixedTimeout(pub Duration);
pub struct DynamicTimeout<F> { pub f: Arc<F> }
pub struct TimeLimiterConfig { pub timeout_source: TimeoutSource, pub cancel_running_future: bool, pub event_listeners: EventListeners, pub name: Name }
pub struct TimeLimiter<Req, Res, E> { pub inner: Inner<Req, Res, E>, pub config: Arc<TimeLimiterConfig> }

impl FixedTimeout {
    pub fn get_timeout<Req>(&self, _req: &Req) -> (r: Duration)
        ensures r == self.0,   // #fixed_timeout_is_the_configured_duration [C06]
    //@body FixedTimeout::get_timeout@TimeoutFn file=config
}
impl<F> DynamicTimeout<F> {
    pub fn get_timeout<Req>(&self, req: &Req) -> (r: Duration) where F: Fn(&Req) -> Duration
        requires call_requires(*self.f, (req,)),
        ensures call_ensures(*self.f, (req,), r),   // #per_request_timeout_is_what_the_function_returns_for_this_request [C06]
    //@body DynamicTimeout::get_timeout@TimeoutFn file=config
}

impl<Req, Res, E> TimeLimiter<Req, Res, E> {
    pub fn clone(&self) -> (r: Self)
        ensures r.config == self.config,   // #clones_share_the_config [C06]
    //@body TimeLimiter::clone@Clone

    pub fn poll_ready(&mut self, cx: &mut Context) -> (r: Poll<Result<(), TimeLimiterError<E>>>)
        ensures
            r matches Poll::Ready(Ok(_)) ==> final(self).inner.ready@,   // #ready_only_when_inner_ready [C20]
            r matches Poll::Ready(Err(e)) ==> e is Inner,   // #readiness_errors_surface_as_inner [C20]
            final(self).config == old(self).config,   // #shared_state_handles_and_configuration_are_left_untouched [C06]
    //@body TimeLimiter::poll_ready@Service

    pub fn call(&mut self, req: Req, clk: &mut Clock, Tracked(tr): Tracked<&mut Trace<Req, Res, E>>) -> (result: Result<Res, TimeLimiterError<E>>)
        requires old(tr).fresh(), old(self).inner.ready@,
        ensures
            final(tr).calls == 1 && final(tr).last_req == Some(req),   // #forwards_the_request_once_unchanged_in_both_modes [C06,C20]
            old(self).config.cancel_running_future ==> final(tr).timer == Some(timeout_spec(old(self).config.timeout_source, req)) && final(tr).awaits_before_timer == 0 && final(tr).spawned == 0,   // #cancel_mode_deadline_is_this_requests_timeout_and_starts_at_arrival [C06]
            old(self).config.cancel_running_future ==> (match result {
                Ok(v) => final(tr).last_done == Some(Ok::<Res, E>(v)) && !final(tr).inner_dropped,
                Err(TimeLimiterError::Inner(e)) => final(tr).last_done == Some(Err::<Res, E>(e)) && !final(tr).inner_dropped,
                Err(TimeLimiterError::Timeout) => final(tr).inner_dropped && final(tr).done == 0 }),   // #cancel_mode_inner_result_if_in_time_else_timeout_error_and_inner_dropped [C06,C20]
            // non-cancelling mode: the inner call is made once inside the detached task and is never dropped; the caller gets the
            // task's result, or the timeout error after a timer of exactly this request's timeout
            !old(self).config.cancel_running_future ==> final(tr).spawned == 1 && !final(tr).inner_dropped && final(tr).done == 1,   // #non_cancelling_mode_lets_the_inner_call_run_to_completion_in_a_detached_task [C06]
            !old(self).config.cancel_running_future ==> (match result {
                Ok(v) => final(tr).last_done == Some(Ok::<Res, E>(v)) && final(tr).slept == 0,
                Err(TimeLimiterError::Inner(e)) => final(tr).last_done == Some(Err::<Res, E>(e)) && final(tr).slept == 0,
                Err(TimeLimiterError::Timeout) => final(tr).slept == timeout_spec(old(self).config.timeout_source, req).nanos && final(tr).last_recv is None }),   // #non_cancelling_mode_result_if_it_arrives_else_timeout_after_this_requests_timeout [C06,C20]
            final(self).config == old(self).config,   // #shared_state_handles_and_configuration_are_left_untouched [C06]
    //@body TimeLimiter::call@Service
}
fn main() {}
}
