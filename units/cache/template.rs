#![feature(allocator_api)]
#![allow(unused)]
use vstd::prelude::*;
use vstd::std_specs::cmp::*;
use core::cmp::Ordering as CmpOrdering;
use std::sync::Arc;
verus! {
//@include time.rs
//@include trace.rs
pub open spec fn call_gate<Req, Res, E>(tr: Trace<Req, Res, E>) -> bool { true }
pub open spec fn await_gate<Req, Res, E>(tr: Trace<Req, Res, E>) -> bool { true }
//@include inner.rs
//@include events.rs

// ---- unit prelude (ASSUMED) ----
pub trait VClone: Sized { fn clone(&self) -> (r: Self) ensures r == *self; }
pub uninterp spec fn key_id<K>(k: K) -> int;
/// the three eviction containers by contract: an abstract map with a capacity (LRU: external `lru` crate; LFU/FIFO:
/// iterator adapters and entry API outside the dialect). NOT proved here: victim choice and len <= capacity.
pub trait EvictionStore<K, V> {
    spec fn view(&self) -> Map<K, V>;
    spec fn cap(&self) -> nat;
    spec fn kind(&self) -> int;
    fn get(&mut self, key: &K) -> (r: Option<&V>)
        ensures final(self).view() == old(self).view(), final(self).cap() == old(self).cap(), final(self).kind() == old(self).kind(),
            old(self).view().contains_key(*key) ==> r == Some(&old(self).view()[*key]),
            !old(self).view().contains_key(*key) ==> r is None;
    fn insert(&mut self, key: K, value: V) -> (r: Option<(K, V)>)
        ensures final(self).view().contains_key(key) && final(self).view()[key] == value,
            forall|k: K| #![trigger final(self).view().contains_key(k)] k != key && final(self).view().contains_key(k) ==> old(self).view().contains_key(k) && final(self).view()[k] == old(self).view()[k],
            final(self).view().len() <= final(self).cap(), final(self).cap() == old(self).cap(), final(self).kind() == old(self).kind();
    fn remove(&mut self, key: &K) -> (r: Option<V>)
        ensures final(self).view() == old(self).view().remove(*key), final(self).cap() == old(self).cap(), final(self).kind() == old(self).kind();
    fn len(&self) -> (r: usize) ensures r == self.view().len();
}
pub struct LruStore<K, V> { pub p: core::marker::PhantomData<(K, V)> }
pub struct LfuStore<K, V> { pub p: core::marker::PhantomData<(K, V)> }
pub struct FifoStore<K, V> { pub p: core::marker::PhantomData<(K, V)> }
pub uninterp spec fn store_view<S, K, V>(s: S) -> Map<K, V>;
pub uninterp spec fn store_cap<S>(s: S) -> nat;
macro_rules! assumed_store {
    ($t:ident, $kind:expr) => {
        verus! {
        impl<K, V> EvictionStore<K, V> for $t<K, V> {
            open spec fn view(&self) -> Map<K, V> { store_view(*self) }
            open spec fn cap(&self) -> nat { store_cap(*self) }
            open spec fn kind(&self) -> int { $kind }
            #[verifier::external_body] fn get(&mut self, key: &K) -> (r: Option<&V>) { unimplemented!() }
            #[verifier::external_body] fn insert(&mut self, key: K, value: V) -> (r: Option<(K, V)>) { unimplemented!() }
            #[verifier::external_body] fn remove(&mut self, key: &K) -> (r: Option<V>) { unimplemented!() }
            #[verifier::external_body] fn len(&self) -> (r: usize) { unimplemented!() }
        }
        impl<K, V> $t<K, V> {
            #[verifier::external_body]
            pub fn new(capacity: usize) -> (r: Self) ensures r.view() == Map::<K, V>::empty(), capacity >= 1 ==> r.cap() == capacity, r.cap() >= 1 { unimplemented!() }
        }
        }
    };
}
assumed_store!(LruStore, 1);
assumed_store!(LfuStore, 2);
assumed_store!(FifoStore, 3);
/// std::sync::Mutex<CacheStore> (R8)
pub struct Mutex<T> { pub id: Ghost<int>, pub init: Ghost<T> }
impl<T> Mutex<T> {
    /// Mutex::new: the protected value starts as `v`
    #[verifier::external_body] pub fn new(v: T) -> (r: Self) ensures r.init@ == v { unimplemented!() }
}
#[verifier::external_body]
pub fn vx_lock<'a, K, V>(m: &'a Arc<Mutex<CacheStore<K, V>>>) -> (r: &'a mut CacheStore<K, V>) { unimplemented!() }

// ---- types of /repo (shape-checked) ----
#[derive(Debug, Clone, Copy, PartialEq, Eq, Structural)]
pub enum EvictionPolicy { Lru, Lfu, Fifo }
impl EvictionPolicy {
    /// #[derive(Default)] with `#[default]` on Lru (frame check `lru_is_the_default_policy` reads the attribute off the source)
    #[verifier::external_body] pub fn default() -> (r: Self) ensures r == EvictionPolicy::Lru { unimplemented!() }
}
pub struct CacheEntry<V> { pub value: V, pub inserted_at: Instant }
#[verifier::reject_recursive_types(K)]
#[verifier::reject_recursive_types(V)]
pub struct CacheStore<K, V> { pub store: Box<dyn EvictionStore<K, CacheEntry<V>>>, pub ttl: Option<Duration> }
pub enum CacheError<E> { Inner(E) }
pub struct CacheConfig<F> { pub max_size: usize, pub ttl: Option<Duration>, pub eviction_policy: EvictionPolicy, pub key_extractor: F, pub event_listeners: EventListeners, pub name: Name }
#[verifier::reject_recursive_types(K)]
#[verifier::reject_recursive_types(Res)]
pub struct Cache<Req, Res, E, K, F> { pub inner: Inner<Req, Res, E>, pub config: Arc<CacheConfig<F>>, pub store: Arc<Mutex<CacheStore<K, Res>>> }

pub open spec fn policy_kind(p: EvictionPolicy) -> int { match p { EvictionPolicy::Lru => 1, EvictionPolicy::Lfu => 2, EvictionPolicy::Fifo => 3 } }
pub open spec fn expired<V>(e: CacheEntry<V>, ttl: Option<Duration>, now: nat) -> bool { ttl is Some && now >= e.inserted_at.t && now - e.inserted_at.t > ttl->0.nanos }

impl<V> CacheEntry<V> {
    pub fn new(value: V, clk: &mut Clock) -> (r: Self)
        ensures r.value == value && old(clk).now@ <= r.inserted_at.t <= final(clk).now@,   // #entry_stamped_with_the_insertion_time [C10]
    //@body CacheEntry::new file=store
    pub fn is_expired(&self, ttl: Option<Duration>, clk: &mut Clock) -> (r: bool)
        ensures r == expired(*self, ttl, final(clk).now@) && final(clk).now@ >= old(clk).now@,   // #expired_iff_older_than_ttl [C10]
    //@body CacheEntry::is_expired file=store
}

impl<K: VClone + 'static, V: VClone + 'static> CacheStore<K, V> {
    pub fn new(capacity: usize, ttl: Option<Duration>, policy: EvictionPolicy) -> (r: Self)
        ensures
            r.store.kind() == policy_kind(policy),   // #container_is_the_one_the_policy_names [C10]
            capacity >= 1 ==> r.store.cap() == capacity,   // #capacity_is_max_size [C10]
            r.ttl == ttl && r.store.view() == Map::<K, CacheEntry<V>>::empty(),   // #starts_empty_with_the_configured_ttl [C10]
    //@body CacheStore::new file=store

    pub fn get<Req, E>(&mut self, key: &K, clk: &mut Clock, Tracked(tr): Tracked<&mut Trace<Req, V, E>>) -> (r: Option<V>)
        ensures
            !old(self).store.view().contains_key(*key) ==> r is None && final(self).store.view() == old(self).store.view(),   // #unknown_key_misses [C10]
            old(self).store.view().contains_key(*key) && !expired(old(self).store.view()[*key], old(self).ttl, final(clk).now@)
                ==> r == Some(old(self).store.view()[*key].value) && final(self).store.view() == old(self).store.view(),   // #hit_returns_the_value_stored_under_that_key [C10]
            old(self).store.view().contains_key(*key) && expired(old(self).store.view()[*key], old(self).ttl, final(clk).now@)
                ==> r is None && final(self).store.view() == old(self).store.view().remove(*key),   // #expired_entry_is_removed_and_misses [C10]
            final(self).ttl == old(self).ttl && final(self).store.cap() == old(self).store.cap() && final(self).store.kind() == old(self).store.kind(),   // #shared_state_handles_and_configuration_are_left_untouched [C10]
            *final(tr) == (Trace { store_gets: old(tr).store_gets.push(key_id(*key)), ..*old(tr) }),   // #lookup_recorded
    //@body CacheStore::get file=store

    pub fn insert<Req, E>(&mut self, key: K, value: V, clk: &mut Clock, Tracked(tr): Tracked<&mut Trace<Req, V, E>>) -> (r: Option<V>)
        ensures
            final(self).store.view().contains_key(key) && final(self).store.view()[key].value == value
                && old(clk).now@ <= final(self).store.view()[key].inserted_at.t <= final(clk).now@,   // #insert_stores_the_value_under_its_key_stamped_now [C10]
            forall|k: K| #![trigger final(self).store.view().contains_key(k)] k != key && final(self).store.view().contains_key(k) ==> old(self).store.view().contains_key(k) && final(self).store.view()[k] == old(self).store.view()[k],   // #insert_never_changes_another_keys_value [C10]
            final(self).store.view().len() <= final(self).store.cap(),   // #size_bounded_by_capacity (by the containers' assumed contract)
            final(self).ttl == old(self).ttl && final(self).store.cap() == old(self).store.cap() && final(self).store.kind() == old(self).store.kind(),   // #shared_state_handles_and_configuration_are_left_untouched [C10]
            *final(tr) == (Trace { store_inserts: old(tr).store_inserts.push((key_id(key), value)), ..*old(tr) }),   // #insert_recorded
    //@body CacheStore::insert file=store

    pub fn len(&self) -> (r: usize)
        ensures r == self.store.view().len(),   // #len_is_the_number_of_entries [C10]
    //@body CacheStore::len file=store
}

impl<Req, Res: VClone + 'static, E, K: VClone + 'static, F: Fn(&Req) -> K> Cache<Req, Res, E, K, F> {
    pub fn clone(&self) -> (r: Self)
        ensures r.store == self.store && r.config == self.config,   // #clones_share_the_store [C10]
    //@body Cache::clone@Clone

    pub fn new(inner: Inner<Req, Res, E>, config: Arc<CacheConfig<F>>) -> (r: Self)
        ensures
            r.store.init@.store.kind() == policy_kind(config.eviction_policy) && (config.max_size >= 1 ==> r.store.init@.store.cap() == config.max_size)
                && r.store.init@.ttl == config.ttl && r.store.init@.store.view() == Map::<K, CacheEntry<Res>>::empty(),   // #private_store_is_built_from_exactly_the_configured_policy_size_and_ttl [C10]
            r.config == config && r.inner == inner,   // #keeps_inner_and_configuration [C10,C20]
    //@body Cache::new

    pub fn with_store(inner: Inner<Req, Res, E>, config: Arc<CacheConfig<F>>, store: Arc<Mutex<CacheStore<K, Res>>>) -> (r: Self)
        ensures r.store == store && r.config == config && r.inner == inner,   // #shared_layer_uses_the_given_store [C10]
    //@body Cache::with_store

    pub fn poll_ready(&mut self, cx: &mut Context) -> (r: Poll<Result<(), CacheError<E>>>)
        ensures
            r matches Poll::Ready(Ok(_)) ==> final(self).inner.ready@,   // #ready_only_when_inner_ready [C20]
            final(self).store == old(self).store && final(self).config == old(self).config,   // #shared_state_handles_and_configuration_are_left_untouched [C10]
    //@body Cache::poll_ready@Service

    pub fn call(&mut self, req: Req, clk: &mut Clock, Tracked(tr): Tracked<&mut Trace<Req, Res, E>>) -> (result: Result<Res, CacheError<E>>)
        requires old(tr).fresh(), old(self).inner.ready@, call_requires(old(self).config.key_extractor, (&req,)),
        ensures
            final(tr).store_gets.len() == 1 && (exists|k: K| call_ensures(old(self).config.key_extractor, (&req,), k) && final(tr).store_gets[0] == key_id(k)
                && (forall|i: int| 0 <= i < final(tr).store_inserts.len() ==> (#[trigger] final(tr).store_inserts[i]).0 == key_id(k))),   // #looks_up_and_stores_under_the_requests_own_key [C10]
            final(tr).calls <= 1,   // #at_most_one_inner_call [C10,C20]
            final(tr).calls == 0 ==> result is Ok && final(tr).store_inserts.len() == 0,   // #a_hit_does_not_call_the_inner_service_and_stores_nothing [C10]
            final(tr).calls == 1 ==> final(tr).done == 1 && final(tr).last_req == Some(req),   // #a_miss_calls_the_inner_service_once_with_the_request [C10,C20]
            final(tr).last_done matches Some(Ok(v)) ==> result == Ok::<Res, CacheError<E>>(v) && final(tr).store_inserts.len() == 1 && final(tr).store_inserts[0].1 == v,   // #a_successful_response_is_returned_and_stored_once [C10,C20]
            final(tr).last_done matches Some(Err(e)) ==> result == Err::<Res, CacheError<E>>(CacheError::Inner(e)) && final(tr).store_inserts.len() == 0,   // #errors_are_returned_unchanged_and_never_cached [C10,C20]
            final(self).store == old(self).store && final(self).config == old(self).config,   // #shared_state_handles_and_configuration_are_left_untouched [C10]
    //@body Cache::call@Service
}
/// CacheLayer::shared() / SharedCacheLayer: one store for every service the layer produces
#[verifier::reject_recursive_types(K)]
#[verifier::reject_recursive_types(Res)]
pub struct SharedCacheLayer<K, Res, F> { pub config: Arc<CacheConfig<F>>, pub store: Arc<Mutex<CacheStore<K, Res>>> }
impl<K: VClone + 'static, Res: VClone + 'static, F> SharedCacheLayer<K, Res, F> {
    pub fn new(config: CacheConfig<F>) -> (r: Self)
        ensures
            r.store.init@.store.kind() == policy_kind(config.eviction_policy) && (config.max_size >= 1 ==> r.store.init@.store.cap() == config.max_size)
                && r.store.init@.ttl == config.ttl && r.store.init@.store.view() == Map::<K, CacheEntry<Res>>::empty(),   // #shared_store_is_built_from_exactly_the_configured_policy_size_and_ttl [C10]
            *r.config == config,   // #keeps_the_configuration [C10]
    //@body SharedCacheLayer::new file=shared
    pub fn from_config(config: Arc<CacheConfig<F>>) -> (r: Self)
        ensures
            r.store.init@.store.kind() == policy_kind(config.eviction_policy) && (config.max_size >= 1 ==> r.store.init@.store.cap() == config.max_size)
                && r.store.init@.ttl == config.ttl && r.store.init@.store.view() == Map::<K, CacheEntry<Res>>::empty(),   // #shared_store_is_built_from_exactly_the_configured_policy_size_and_ttl [C10]
            r.config == config,   // #keeps_the_configuration [C10]
    //@body SharedCacheLayer::from_config file=shared
}
impl<Res: VClone + 'static, K: VClone + 'static, F> SharedCacheLayer<K, Res, F> {
    pub fn layer<Req, E>(&self, service: Inner<Req, Res, E>) -> (r: Cache<Req, Res, E, K, F>) where F: Fn(&Req) -> K
        ensures r.store == self.store && r.config == self.config && r.inner == service,   // #every_service_of_a_shared_layer_uses_the_one_store [C10]
    //@body SharedCacheLayer::layer@Layer file=shared
}
fn main() {}
}
