CA = "crates/tower-resilience-cache/src/"
TR = "Tracked(tr)"
UNIT = dict(
    serves=["C10", "C20"],
    files={"shared": CA + "shared_layer.rs", "lib": CA + "lib.rs", "store": CA + "store.rs", "eviction": CA + "eviction.rs", "config": CA + "config.rs", "error": CA + "error.rs"},
    default_file="lib",
    verus_flags=["--no-erasure-check"],
    rules=[("R1",), ("R2",), ("R5",)],
    extra_params=["clk", "tr"],
    fns={
        "CacheEntry::new": dict(file="store"),
        "CacheEntry::is_expired": dict(file="store"),
        "CacheStore::new": dict(file="store", rules=[("R10f", -1)]),
        "CacheStore::get": dict(file="store", rules=[
            ("addarg", ["is_expired"], "clk", 1),
            ("inject", None, "start", "proof { tr.store_gets = tr.store_gets.push(key_id(*key)); }"),
        ]),
        "CacheStore::insert": dict(file="store", rules=[
            ("addarg", ["new"], "clk", 1),
            ("sub", "R10-tuple-closure", r"self\.store\.insert\(key, entry\)\.map\(\|\(_, e\)\| e\.value\)", "(match self.store.insert(key, entry) { Some(vx_kv) => Some(vx_kv.1.value), None => None })", 1),
            ("inject", None, "start", "proof { tr.store_inserts = tr.store_inserts.push((key_id(key), value)); }"),
        ]),
        "CacheStore::len": dict(file="store"),
        "Cache::clone@Clone": dict(),
        "Cache::new": dict(),
        "Cache::with_store": dict(),
        "SharedCacheLayer::new": dict(file="shared"),
        "SharedCacheLayer::from_config": dict(file="shared"),
        "SharedCacheLayer::layer@Layer": dict(file="shared"),
        "Cache::poll_ready@Service": dict(rules=[("R10p", "CacheError::Inner")]),
        "Cache::call@Service": dict(rules=[
            ("R4",), ("R3",),
            ("sub", "R8-lock", r"(self\.)?store\.lock\(\)\.unwrap\(\)", lambda m, t: "vx_lock(&%sstore)" % (t[m.start(1):m.end(1)] if m.start(1) >= 0 else ""), 2),
            ("sub", "R6-store", r"\.get\(&(\w+)\)", r".get(&\1, clk, Tracked(tr))", 1),
            ("sub", "R6-store", r"\.insert\((\w+), (\w+)\.clone\(\)\)", r".insert(\1, \2.clone(), clk, Tracked(tr))", 1),
            ("addarg", ["call"], TR, 1),
            ("R10e", -1),
        ]),
    },
    types=[
        ("enum", "EvictionPolicy", "eviction"),
        ("struct", "CacheEntry", "store"),
        ("struct", "CacheStore", "store"),
        ("enum", "CacheError", "error"),
        ("struct", "CacheConfig", "config"),
        ("struct", "Cache", "lib"),
    ],
    frame=[
        dict(name="lru_is_the_default_policy", tags=[], pattern=r"#\[default\]\s*Lru\b", glob=CA + "eviction.rs", only_in=None, min_hits=1),
    ],
)
