#![feature(allocator_api)]
#![allow(unused)]
use vstd::prelude::*;
use vstd::std_specs::cmp::*;
use core::cmp::Ordering as CmpOrdering;
use std::sync::Arc;
verus! {
//@include time.rs
//@include trace.rs
pub open spec fn call_gate<Req, Res, E>(tr: Trace<Req, Res, E>) -> bool { true }
pub open spec fn await_gate<Req, Res, E>(tr: Trace<Req, Res, E>) -> bool { true }
//@include inner.rs

// ---- unit prelude (ASSUMED) ----
pub trait VClone: Sized { fn clone(&self) -> (r: Self) ensures r == *self; }
pub enum Ordering { Release, Acquire, Relaxed, SeqCst, AcqRel }
/// the inner future polled by hand (R13: pin projection erased): Ready(r) is the InnerDone event
impl<Req, Res, E> InnerFut<Req, Res, E> {
    #[verifier::external_body]
    pub fn poll(&mut self, cx: &mut Context, Tracked(tr): Tracked<&mut Trace<Req, Res, E>>) -> (r: Poll<Result<Res, E>>)
        ensures r matches Poll::Ready(v) ==> *final(tr) == (Trace { ev: old(tr).ev.push(Ev::InnerDone(v)), done: old(tr).done + 1, last_done: Some(v), slept_since_done: 0, granted_since_done: false, ..*old(tr) }),
                r is Pending ==> *final(tr) == *old(tr),
    { unimplemented!() }
}
/// tokio::time::Sleep polled by hand: Ready(()) only when the full duration has passed
pub struct Sleep { pub d: Duration }
#[verifier::external_body]
pub fn sleep(d: Duration) -> (r: Sleep) ensures r.d == d { unimplemented!() }
impl Sleep {
    #[verifier::external_body]
    pub fn poll<Req, Res, E>(&mut self, cx: &mut Context, Tracked(tr): Tracked<&mut Trace<Req, Res, E>>) -> (r: Poll<()>)
        ensures r is Ready ==> *final(tr) == (Trace { ev: old(tr).ev.push(Ev::Sleep(old(self).d)), slept: old(tr).slept + old(self).d.nanos as nat, slept_since_done: old(tr).slept_since_done + old(self).d.nanos as nat, ..*old(tr) }),
                r is Pending ==> *final(tr) == *old(tr),
                final(self).d == old(self).d,
    { unimplemented!() }
}
/// Arc<AtomicU64> holding the published connection state (per task: the last value this task stored)
pub struct AtomicU64 { pub id: Ghost<int> }
impl AtomicU64 {
    #[verifier::external_body]
    pub fn store<Req, Res, E>(&self, v: u64, o: Ordering, Tracked(tr): Tracked<&mut Trace<Req, Res, E>>)
        ensures *final(tr) == (Trace { published: Some(v), ..*old(tr) }),
    { unimplemented!() }
    #[verifier::external_body]
    pub fn load(&self, o: Ordering) -> (r: u64) { unimplemented!() }
}
/// shared attempt counter: other requests of the same layer update it concurrently, so a read is arbitrary
pub struct AtomicU32 { pub id: Ghost<int> }
impl AtomicU32 {
    #[verifier::external_body] pub fn load(&self, o: Ordering) -> (r: u32) { unimplemented!() }
    #[verifier::external_body] pub fn store(&self, v: u32, o: Ordering) { unimplemented!() }
    #[verifier::external_body] pub fn fetch_add(&self, v: u32, o: Ordering) -> (r: u32) ensures r < u32::MAX { unimplemented!() }
}
/// interval functions of tower-resilience-retry (decided by C14) and the user predicate: pure functions
pub struct FixedInterval { pub id: Ghost<int> }
pub struct ExponentialBackoff { pub id: Ghost<int> }
pub struct ExponentialRandomBackoff { pub id: Ghost<int> }
pub struct CustomInterval { pub id: Ghost<int> }
pub uninterp spec fn interval_spec(kind: int, id: int, attempt: usize) -> Duration;
impl FixedInterval { #[verifier::external_body] pub fn clone(&self) -> (r: Self) ensures r == *self { unimplemented!() }
    #[verifier::external_body] pub fn next_interval(&self, attempt: usize) -> (r: Duration) ensures r == interval_spec(1, self.id@, attempt) { unimplemented!() } }
impl ExponentialBackoff { #[verifier::external_body] pub fn clone(&self) -> (r: Self) ensures r == *self { unimplemented!() }
    #[verifier::external_body] pub fn next_interval(&self, attempt: usize) -> (r: Duration) ensures r == interval_spec(2, self.id@, attempt) { unimplemented!() } }
impl ExponentialRandomBackoff { #[verifier::external_body] pub fn clone(&self) -> (r: Self) ensures r == *self { unimplemented!() }
    #[verifier::external_body] pub fn next_interval(&self, attempt: usize) -> (r: Duration) ensures r == interval_spec(3, self.id@, attempt) { unimplemented!() } }
impl CustomInterval { #[verifier::external_body] pub fn next_interval(&self, attempt: usize) -> (r: Duration) ensures r == interval_spec(4, self.id@, attempt) { unimplemented!() } }
pub struct ReconnectPredicate { pub id: Ghost<int> }
pub uninterp spec fn predicate_spec<E>(p: ReconnectPredicate, e: E) -> bool;
impl ReconnectPredicate {
    #[verifier::external_body]
    pub fn vx_call<E>(&self, e: &E) -> (r: bool) ensures r == predicate_spec(*self, *e) { unimplemented!() }
}

// ---- types of /repo (shape-checked) ----
#[derive(Debug, Clone, Copy, PartialEq, Eq, Structural)]
pub enum ConnectionState { Connected, Disconnected, Reconnecting }
pub struct ReconnectState { pub state: Arc<AtomicU64>, pub attempts: Arc<AtomicU32>, pub last_connected: Arc<AtomicU64> }
pub enum ReconnectPolicy { None, Fixed(FixedInterval), Exponential(ExponentialBackoff), ExponentialRandom(ExponentialRandomBackoff), Custom(Arc<CustomInterval>) }
pub struct ReconnectConfig { pub policy: ReconnectPolicy, pub max_attempts: Option<u32>, pub retry_on_reconnect: bool, pub reconnect_predicate: Option<ReconnectPredicate> }
pub enum ReconnectError<E> { MaxAttemptsExceeded { attempts: u32, error: Box<E> }, ConnectionFailed(E), ConnectionFailedNoRetry(E), ServiceError(E) }
pub enum Phase<F> { Calling(F), Sleeping(Sleep), Failed }
pub struct ReconnectService<Req, Res, E> { pub inner: Inner<Req, Res, E>, pub config: Arc<ReconnectConfig>, pub state: ReconnectState }
pub struct ReconnectFuture<Req, Res, E> {
    pub inner: Inner<Req, Res, E>,
    pub config: Arc<ReconnectConfig>,
    pub state: ReconnectState,
    pub request: Req,
    pub attempt: u32,
    pub last_error: Option<E>,
    pub phase: Phase<InnerFut<Req, Res, E>>,
}

pub open spec fn enc(s: ConnectionState) -> u64 { match s { ConnectionState::Connected => 0, ConnectionState::Disconnected => 1, ConnectionState::Reconnecting => 2 } }
pub open spec fn delay_spec(p: ReconnectPolicy, attempt: usize) -> Option<Duration> {
    match p {
        ReconnectPolicy::None => None,
        ReconnectPolicy::Fixed(i) => Some(interval_spec(1, i.id@, attempt)),
        ReconnectPolicy::Exponential(i) => Some(interval_spec(2, i.id@, attempt)),
        ReconnectPolicy::ExponentialRandom(i) => Some(interval_spec(3, i.id@, attempt)),
        ReconnectPolicy::Custom(i) => Some(interval_spec(4, i.id@, attempt)),
    }
}
pub open spec fn reconnectable<E>(c: ReconnectConfig, e: E) -> bool { c.reconnect_predicate is Some ==> predicate_spec(c.reconnect_predicate->0, e) }

impl ReconnectState {
    pub fn clone(&self) -> (r: Self)
        ensures r.state == self.state,   // #clones_share_the_published_state [C16]
    //@derive_clone ReconnectState
    pub fn state(&self) -> (r: ConnectionState)
    //@body ReconnectState::state file=state
    pub fn attempts(&self) -> (r: u32)
    //@body ReconnectState::attempts file=state
    pub fn increment_attempts(&self) -> (r: u32)
    //@body ReconnectState::increment_attempts file=state
    pub fn reset_attempts(&self)
    //@body ReconnectState::reset_attempts file=state
    pub fn encode_state(state: ConnectionState) -> (r: u64)
        ensures r == enc(state),   // #encodes_each_state_distinctly [C16]
    //@body ReconnectState::encode_state file=state
    pub fn decode_state(encoded: u64) -> (r: ConnectionState)
        ensures forall|s: ConnectionState| encoded == enc(s) ==> r == s,   // #decode_inverts_encode [C16]
    //@body ReconnectState::decode_state file=state
    pub fn set_state<Req, Res, E>(&self, state: ConnectionState, Tracked(tr): Tracked<&mut Trace<Req, Res, E>>)
        ensures *final(tr) == (Trace { published: Some(enc(state)), ..*old(tr) }),   // #publishes_the_given_state [C16]
    //@body ReconnectState::set_state file=state
    pub fn mark_disconnected<Req, Res, E>(&self, Tracked(tr): Tracked<&mut Trace<Req, Res, E>>)
        ensures *final(tr) == (Trace { published: Some(enc(ConnectionState::Disconnected)), ..*old(tr) }),   // #publishes_disconnected [C16]
    //@body ReconnectState::mark_disconnected file=state
    pub fn mark_reconnecting<Req, Res, E>(&self, Tracked(tr): Tracked<&mut Trace<Req, Res, E>>)
        ensures *final(tr) == (Trace { published: Some(enc(ConnectionState::Reconnecting)), ..*old(tr) }),   // #publishes_reconnecting [C16]
    //@body ReconnectState::mark_reconnecting file=state
    /// mark_connected also resets the attempt counter and stamps last_connected (not part of C16): by contract
    #[verifier::external_body]
    pub fn mark_connected<Req, Res, E>(&self, Tracked(tr): Tracked<&mut Trace<Req, Res, E>>)
        ensures *final(tr) == (Trace { published: Some(enc(ConnectionState::Connected)), ..*old(tr) }),
    { unimplemented!() }
}
impl ReconnectPolicy {
    pub fn clone(&self) -> (r: Self)
        ensures r == *self,   // #a_cloned_policy_is_the_same_policy [C16,C14]
    //@body ReconnectPolicy::clone@Clone file=policy
    pub fn delay_for_attempt(&self, attempt: usize) -> (r: Option<Duration>)
        ensures r == delay_spec(*self, attempt),   // #delegates_to_the_configured_interval_function [C16,C14]
    //@body ReconnectPolicy::delay_for_attempt file=policy
}
impl ReconnectConfig {
    pub fn should_reconnect<E>(&self, error: &E) -> (r: bool)
        ensures r == reconnectable(*self, *error),   // #asks_the_predicate_or_accepts_everything [C16]
    //@body ReconnectConfig::should_reconnect file=config
}

impl<Req: VClone, Res, E> ReconnectService<Req, Res, E> {
    pub fn poll_ready(&mut self, cx: &mut Context) -> (r: Poll<Result<(), ReconnectError<E>>>)
        ensures
            r matches Poll::Ready(Ok(_)) ==> final(self).inner.ready@,   // #ready_only_when_inner_ready [C20]
            r matches Poll::Ready(Err(e)) ==> e is ServiceError,   // #readiness_errors_surface_as_service_error [C20]
            final(self).config == old(self).config,   // #shared_state_handles_and_configuration_are_left_untouched [C16]
    //@body ReconnectService::poll_ready@Service

    /// call() makes the first attempt synchronously and returns the hand-written future
    pub fn call(&mut self, request: Req, Tracked(tr): Tracked<&mut Trace<Req, Res, E>>) -> (f: ReconnectFuture<Req, Res, E>)
        requires old(tr).fresh(), old(self).inner.ready@,
        ensures
            f.wf(*final(tr)),   // #future_starts_in_calling_phase_after_exactly_one_call [C16]
            final(tr).calls == 1 && final(tr).last_req == Some(request) && f.request == request,   // #first_attempt_carries_the_request [C16,C20]
            f.config == old(self).config && f.attempt == 0,   // #uses_the_services_configuration [C16]
    //@body ReconnectService::call@Service
}

impl<Req: VClone, Res, E> ReconnectFuture<Req, Res, E> {
    /// invariant of the future between polls
    pub open spec fn wf(&self, tr: Trace<Req, Res, E>) -> bool {
        &&& (self.phase is Calling ==> tr.calls == self.attempt + 1 && tr.done == self.attempt)
        &&& (self.phase matches Phase::Sleeping(s) ==> self.attempt > 0 && tr.calls == self.attempt && tr.done == self.attempt && self.last_error is Some
                && delay_spec(self.config.policy, self.attempt as usize) == Some(s.d)
                // the timer has not fired yet, or it has (and the future is waiting for the inner service to become ready)
                && (tr.slept_since_done == 0 || tr.slept_since_done >= s.d.nanos))
        &&& !(self.phase is Failed)
        &&& tr.unguarded == 0 && tr.ready_err is None
        &&& (self.config.max_attempts is Some ==> self.attempt <= self.config.max_attempts->0)
        &&& (self.attempt > 0 ==> tr.last_done is Some && tr.last_done->0 is Err && reconnectable(*self.config, tr.last_done->0->Err_0)
                && (self.phase is Sleeping ==> self.last_error == Some(tr.last_done->0->Err_0)))
        &&& (self.attempt > 0 ==> tr.published == Some(enc(ConnectionState::Reconnecting)))
        &&& (forall|i: int| 0 <= i < tr.reqs.len() ==> tr.reqs[i] == self.request)
    }

    #[verifier::exec_allows_no_decreases_clause]
    pub fn poll(&mut self, cx: &mut Context, Tracked(tr): Tracked<&mut Trace<Req, Res, E>>) -> (r: Poll<Result<Res, ReconnectError<E>>>)
        requires old(self).wf(*old(tr)),
        ensures
            r is Pending ==> final(self).wf(*final(tr)),   // #invariant_kept_between_polls [C16]
            final(self).config == old(self).config && final(self).request == old(self).request,   // #configuration_and_request_never_change [C16]
            old(self).config.max_attempts is Some ==> final(tr).calls <= old(self).config.max_attempts->0 + 1,   // #at_most_max_attempts_plus_one_inner_calls [C16]
            forall|i: int| 0 <= i < final(tr).reqs.len() ==> final(tr).reqs[i] == old(self).request,   // #every_attempt_carries_the_request [C16,C20]
            r matches Poll::Ready(Ok(v)) ==> final(tr).last_done == Some(Ok::<Res, E>(v)) && final(tr).published == Some(enc(ConnectionState::Connected)),   // #success_is_the_last_inner_outcome_and_publishes_connected [C16,C20]
            r matches Poll::Ready(Err(ReconnectError::ServiceError(e))) ==> (final(tr).ready_err is None ==> final(tr).last_done == Some(Err::<Res, E>(e)) && !reconnectable(*old(self).config, e)),   // #other_errors_are_returned_at_once_unchanged [C16,C20]
            r matches Poll::Ready(Err(ReconnectError::ServiceError(e))) ==> (final(tr).ready_err matches Some(x) ==> x == e),   // #a_readiness_error_before_a_retry_surfaces_as_service_error [C20]
            final(tr).ready_err is Some ==> r matches Poll::Ready(Err(ReconnectError::ServiceError(_))),   // #a_readiness_error_ends_the_request [C20]
            r matches Poll::Ready(Err(ReconnectError::MaxAttemptsExceeded { attempts, error })) ==> old(self).config.max_attempts is Some && attempts > old(self).config.max_attempts->0
                && final(tr).last_done == Some(Err::<Res, E>(*error)) && reconnectable(*old(self).config, *error),   // #gives_up_only_beyond_max_attempts_with_the_last_error [C16]
            r matches Poll::Ready(Err(ReconnectError::ConnectionFailed(e))) ==> final(tr).last_done == Some(Err::<Res, E>(e)) && reconnectable(*old(self).config, e)
                && old(self).config.policy is None,   // #no_policy_means_no_retry_with_the_last_error [C16]
            r matches Poll::Ready(Err(ReconnectError::ConnectionFailedNoRetry(e))) ==> !old(self).config.retry_on_reconnect && final(tr).last_done == Some(Err::<Res, E>(e)),   // #no_retry_flag_returns_the_last_error_after_the_backoff [C16]
            (r is Ready && !(r matches Poll::Ready(Ok(_))) && !(r matches Poll::Ready(Err(ReconnectError::ConnectionFailedNoRetry(_))))
                && final(tr).last_done is Some && final(tr).last_done->0 is Err && reconnectable(*old(self).config, final(tr).last_done->0->Err_0))
                ==> final(tr).published != Some(enc(ConnectionState::Connected)),   // #not_published_connected_while_a_reconnectable_failure_is_handled [C16]
    //@body ReconnectFuture::poll@Future
}
fn main() {}
}
