RC = "crates/tower-resilience-reconnect/src/"
TR = "Tracked(tr)"
UNIT = dict(
    serves=["C16", "C14", "C20"],
    files={"service": RC + "service.rs", "state": RC + "state.rs", "policy": RC + "policy.rs", "config": RC + "config.rs"},
    default_file="service",
    verus_flags=["--no-erasure-check"],
    rules=[("R1",), ("R2",)],
    extra_params=["clk", "tr"],
    fns={
        "ReconnectState::state": dict(file="state"),
        "ReconnectState::attempts": dict(file="state"),
        "ReconnectState::increment_attempts": dict(file="state"),
        "ReconnectState::reset_attempts": dict(file="state"),
        "ReconnectState::encode_state": dict(file="state"),
        "ReconnectState::decode_state": dict(file="state"),
        "ReconnectState::set_state": dict(file="state", rules=[("addarg", ["store"], TR, 1)]),
        "ReconnectState::mark_disconnected": dict(file="state", rules=[("addarg", ["set_state"], TR, 1)]),
        "ReconnectState::mark_reconnecting": dict(file="state", rules=[("addarg", ["set_state"], TR, 1)]),
        "ReconnectPolicy::clone@Clone": dict(file="policy", rules=[("sub", "R10-arc-clone", r"\bc\.clone\(\)", "Arc::clone(c)", 1)]),
        "ReconnectPolicy::delay_for_attempt": dict(file="policy"),
        "ReconnectConfig::should_reconnect": dict(file="config", rules=[("sub", "R6-closure-call", r"\bpredicate\(error\)", "predicate.vx_call(error)", 1)]),
        "ReconnectService::poll_ready@Service": dict(rules=[("R10p", "ReconnectError::ServiceError")]),
        "ReconnectService::call@Service": dict(rules=[("addarg", ["call"], TR, 1)]),
        "ReconnectFuture::poll@Future": dict(rename_params={}, skip_sig_check=True, rules=[
            # R13 pin-erase
            ("sub", "R13-pin", r"let mut this = self\.project\(\);", "", 1),
            ("sub", "R13-pin", r"\bthis\.phase\.as_mut\(\)\.project\(\)", "&mut self.phase", 1),
            ("sub", "R13-pin", r"\bthis\.phase\.set\(", "self.phase = (", None),
            ("sub", "R13-pin", r"\*this\.(attempt|last_error)\b", r"self.\1", None),
            ("sub", "R13-pin", r"\bthis\b", "self", None),
            ("sub", "R13-pin", r"\bPhaseProj::", "Phase::", 3),
            ("sub", "R9-paths", r"tokio::time::sleep", "sleep", 1),
            ("sub", "R6-ready", r"\bself\.inner\.poll_ready\(cx\)", "self.inner.poll_ready_tr(cx, Tracked(tr))", -1),
            ("addarg", ["poll", "mark_connected", "mark_disconnected", "mark_reconnecting", "call"], TR, None),
            ("sub", "panic-unreachable", r"panic!\(\"[^\"]*\"\);", "assert(false); return Poll::Pending;", 1, ),
            # domain restriction (DESIGN §6 C16): the attempt counter never reaches u32::MAX
            ("inject", r"self\.attempt \+= 1;", "before", "assume(self.attempt < u32::MAX);", "optional"),
            ("sub", "R9-paths", r"crate::state::", "", -1),
            ("inject", r"let call_future = self\.inner\.call\(", "before",
             "proof { assert(tr.slept_since_done >= delay_spec(self.config.policy, self.attempt as usize)->0.nanos); }   // #waits_the_policys_delay_before_each_retry [C16]"),
            ("loops", {0: """invariant
                self.wf(*tr),   // #invariant_kept_by_every_step_of_poll [C16]
                self.config == old(self).config, self.request == old(self).request,"""}),
        ]),
    },
    derive_clone={"ReconnectState": "state"},
    types=[
        ("enum", "ConnectionState", "state"),
        ("struct", "ReconnectState", "state"),
        ("enum", "ReconnectPolicy", "policy"),
        ("struct", "ReconnectConfig", "config", {"drop": ["on_reconnect", "on_state_change"]}),
        ("enum", "ReconnectError", "service"),
        ("enum", "Phase", "service"),
        ("struct", "ReconnectService", "service"),
        ("struct", "ReconnectFuture", "service"),
    ],
)
