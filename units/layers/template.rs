#![feature(allocator_api)]
#![allow(unused)]
use vstd::prelude::*;
use std::sync::Arc;
verus! {
// ---- unit `layers`: `Layer::layer` of every middleware hands the wrapped service and EXACTLY the layer's configuration to the
// service constructor. The constructors themselves are under contract in the per-layer units (Bulkhead::new, RateLimiter::new, ...);
// here they are shims carrying that contract. Configurations are opaque values. ----
pub struct Svc { pub id: Ghost<int> }

// ===== bulkhead =====
pub struct BulkheadCfg { pub id: Ghost<int> }
impl BulkheadCfg { /// #[derive(Clone)] / hand-written Clone under contract in the builders units
    #[verifier::external_body] pub fn clone(&self) -> (r: Self) ensures r == *self { unimplemented!() } }
pub struct Bulkhead { pub inner: Svc, pub config: BulkheadCfg }
impl Bulkhead {
    /// contract of the real constructor, proved in the layer's own unit
    #[verifier::external_body] pub fn new(inner: Svc, config: BulkheadCfg) -> (r: Self) ensures r.inner == inner && r.config == config { unimplemented!() }
}
pub struct BulkheadLayer { pub config: BulkheadCfg }
impl BulkheadLayer {
    pub fn layer(&self, service: Svc) -> (r: Bulkhead)
        ensures r.config == self.config && r.inner == service,   // #the_service_gets_the_wrapped_service_and_exactly_the_layers_configuration [C01,C07,C20]
    //@body BulkheadLayer::layer@Layer file=bulkhead
}

// ===== ratelimiter =====
pub struct RateLimiterCfg { pub id: Ghost<int> }
pub struct RateLimiter { pub inner: Svc, pub config: Arc<RateLimiterCfg> }
impl RateLimiter {
    /// contract of the real constructor, proved in the layer's own unit
    #[verifier::external_body] pub fn new(inner: Svc, config: Arc<RateLimiterCfg>) -> (r: Self) ensures r.inner == inner && r.config == config { unimplemented!() }
}
pub struct RateLimiterLayer { pub config: Arc<RateLimiterCfg> }
impl RateLimiterLayer {
    pub fn layer(&self, service: Svc) -> (r: RateLimiter)
        ensures r.config == self.config && r.inner == service,   // #the_service_gets_the_wrapped_service_and_exactly_the_layers_configuration [C02,C15,C20]
    //@body RateLimiterLayer::layer@Layer file=ratelimiter
}

// ===== retry =====
pub struct RetryCfg { pub id: Ghost<int> }
pub struct Retry { pub inner: Svc, pub config: Arc<RetryCfg> }
impl Retry {
    /// contract of the real constructor, proved in the layer's own unit
    #[verifier::external_body] pub fn new(inner: Svc, config: Arc<RetryCfg>, _phantom: core::marker::PhantomData<()>) -> (r: Self) ensures r.inner == inner && r.config == config { unimplemented!() }
}
pub struct RetryLayer { pub config: Arc<RetryCfg> }
impl RetryLayer {
    pub fn layer(&self, service: Svc) -> (r: Retry)
        ensures r.config == self.config && r.inner == service,   // #the_service_gets_the_wrapped_service_and_exactly_the_layers_configuration [C05,C20]
    //@body RetryLayer::layer@Layer file=retry
}

// ===== fallback =====
pub struct FallbackCfg { pub id: Ghost<int> }
pub struct Fallback { pub inner: Svc, pub config: Arc<FallbackCfg> }
impl Fallback {
    /// contract of the real constructor, proved in the layer's own unit
    #[verifier::external_body] pub fn new(inner: Svc, config: Arc<FallbackCfg>) -> (r: Self) ensures r.inner == inner && r.config == config { unimplemented!() }
}
pub struct FallbackLayer { pub config: Arc<FallbackCfg> }
impl FallbackLayer {
    pub fn layer(&self, service: Svc) -> (r: Fallback)
        ensures r.config == self.config && r.inner == service,   // #the_service_gets_the_wrapped_service_and_exactly_the_layers_configuration [C17,C20]
    //@body FallbackLayer::layer@Layer file=fallback
}

// ===== cache =====
pub struct CacheCfg { pub id: Ghost<int> }
pub struct Cache { pub inner: Svc, pub config: Arc<CacheCfg> }
impl Cache {
    /// contract of the real constructor, proved in the layer's own unit
    #[verifier::external_body] pub fn new(inner: Svc, config: Arc<CacheCfg>) -> (r: Self) ensures r.inner == inner && r.config == config { unimplemented!() }
}
pub struct CacheLayer { pub config: Arc<CacheCfg> }
impl CacheLayer {
    pub fn layer(&self, service: Svc) -> (r: Cache)
        ensures r.config == self.config && r.inner == service,   // #the_service_gets_the_wrapped_service_and_exactly_the_layers_configuration [C10,C20]
    //@body CacheLayer::layer@Layer file=cache
}

// ===== coalesce =====
pub struct CoalesceCfg { pub id: Ghost<int> }
pub struct CoalesceService { pub inner: Svc, pub config: Arc<CoalesceCfg> }
impl CoalesceService {
    /// contract of the real constructor, proved in the layer's own unit
    #[verifier::external_body] pub fn new(inner: Svc, config: Arc<CoalesceCfg>) -> (r: Self) ensures r.inner == inner && r.config == config { unimplemented!() }
}
pub struct CoalesceLayer { pub config: Arc<CoalesceCfg> }
impl CoalesceLayer {
    pub fn layer(&self, service: Svc) -> (r: CoalesceService)
        ensures r.config == self.config && r.inner == service,   // #the_service_gets_the_wrapped_service_and_exactly_the_layers_configuration [C11,C20]
    //@body CoalesceLayer::layer@Layer file=coalesce
}

// ===== hedge =====
pub struct HedgeCfg { pub id: Ghost<int> }
impl HedgeCfg { /// #[derive(Clone)] / hand-written Clone under contract in the builders units
    #[verifier::external_body] pub fn clone(&self) -> (r: Self) ensures r == *self { unimplemented!() } }
pub struct Hedge { pub inner: Svc, pub config: HedgeCfg }
impl Hedge {
    /// contract of the real constructor, proved in the layer's own unit
    #[verifier::external_body] pub fn new(inner: Svc, config: HedgeCfg) -> (r: Self) ensures r.inner == inner && r.config == config { unimplemented!() }
}
pub struct HedgeLayer { pub config: HedgeCfg }
impl HedgeLayer {
    pub fn layer(&self, service: Svc) -> (r: Hedge)
        ensures r.config == self.config && r.inner == service,   // #the_service_gets_the_wrapped_service_and_exactly_the_layers_configuration [C12,C20]
    //@body HedgeLayer::layer@Layer file=hedge
}

// ===== adaptive =====
pub struct Algo { pub id: Ghost<int> }
pub struct AdaptiveService { pub inner: Svc, pub config: Arc<Algo> }
impl AdaptiveService {
    /// contract of the real constructor, proved in the layer's own unit
    #[verifier::external_body] pub fn new(inner: Svc, config: Arc<Algo>) -> (r: Self) ensures r.inner == inner && r.config == config { unimplemented!() }
}
pub struct AdaptiveLimiterLayer { pub algorithm: Arc<Algo> }
impl AdaptiveLimiterLayer {
    pub fn layer(&self, service: Svc) -> (r: AdaptiveService)
        ensures r.config == self.algorithm && r.inner == service,   // #the_service_gets_the_wrapped_service_and_exactly_the_layers_configuration [C13,C20]
    //@body AdaptiveLimiterLayer::layer@Layer file=adaptive
}

// ===== chaos =====
pub struct ChaosCfg { pub id: Ghost<int> }
impl ChaosCfg { /// #[derive(Clone)] / hand-written Clone under contract in the builders units
    #[verifier::external_body] pub fn clone(&self) -> (r: Self) ensures r == *self { unimplemented!() } }
pub struct Chaos { pub inner: Svc, pub config: ChaosCfg }
impl Chaos {
    /// contract of the real constructor, proved in the layer's own unit
    #[verifier::external_body] pub fn new(inner: Svc, config: ChaosCfg) -> (r: Self) ensures r.inner == inner && r.config == config { unimplemented!() }
}
pub struct ChaosLayer { pub config: ChaosCfg }
impl ChaosLayer {
    pub fn layer(&self, inner: Svc) -> (r: Chaos)
        ensures r.config == self.config && r.inner == inner,   // #the_service_gets_the_wrapped_service_and_exactly_the_layers_configuration [C19,C20]
    //@body ChaosLayer::layer@Layer#0 file=chaos
}
impl ChaosLayer {
    pub fn layer_2(&self, inner: Svc) -> (r: Chaos)
        ensures r.config == self.config && r.inner == inner,   // #the_service_gets_the_wrapped_service_and_exactly_the_layers_configuration [C19,C20]
    //@body ChaosLayer::layer@Layer#1 file=chaos
}

// ===== circuitbreaker =====
pub struct CbCfg { pub id: Ghost<int> }
pub struct CircuitBreaker { pub inner: Svc, pub config: Arc<CbCfg> }
impl CircuitBreaker {
    /// contract of the real constructor, proved in the layer's own unit
    #[verifier::external_body] pub fn new(inner: Svc, config: Arc<CbCfg>) -> (r: Self) ensures r.inner == inner && r.config == config { unimplemented!() }
}
pub struct CircuitBreakerLayer { pub config: Arc<CbCfg> }
impl CircuitBreakerLayer {
    pub fn layer_fn(&self, service: Svc) -> (r: CircuitBreaker)
        ensures r.config == self.config && r.inner == service,   // #the_service_gets_the_wrapped_service_and_exactly_the_layers_configuration [C03,C04,C09,C20]
    //@body CircuitBreakerLayer::layer_fn file=circuitbreaker
}
impl CircuitBreakerLayer {
    pub fn layer(&self, service: Svc) -> (r: CircuitBreaker)
        ensures r.config == self.config && r.inner == service,   // #the_service_gets_the_wrapped_service_and_exactly_the_layers_configuration [C03,C04,C09,C20]
    //@body CircuitBreakerLayer::layer@Layer#0 file=circuitbreaker
}
impl CircuitBreakerLayer {
    pub fn layer_2(&self, service: Svc) -> (r: CircuitBreaker)
        ensures r.config == self.config && r.inner == service,   // #the_service_gets_the_wrapped_service_and_exactly_the_layers_configuration [C03,C04,C09,C20]
    //@body CircuitBreakerLayer::layer@Layer#1 file=circuitbreaker
}

// ===== timelimiter =====
pub struct TlCfg { pub id: Ghost<int> }
pub struct TimeLimiter { pub inner: Svc, pub config: Arc<TlCfg> }
impl TimeLimiter {
    /// contract of the real constructor, proved in the layer's own unit
    #[verifier::external_body] pub fn new(inner: Svc, config: Arc<TlCfg>) -> (r: Self) ensures r.inner == inner && r.config == config { unimplemented!() }
}
pub struct TimeLimiterLayer { pub config: Arc<TlCfg> }
impl TimeLimiterLayer {
    pub fn layer(&self, service: Svc) -> (r: TimeLimiter)
        ensures r.config == self.config && r.inner == service,   // #the_service_gets_the_wrapped_service_and_exactly_the_layers_configuration [C06,C20]
    //@body TimeLimiterLayer::layer@Layer#0 file=timelimiter
}
impl TimeLimiterLayer {
    pub fn layer_2(&self, service: Svc) -> (r: TimeLimiter)
        ensures r.config == self.config && r.inner == service,   // #the_service_gets_the_wrapped_service_and_exactly_the_layers_configuration [C06,C20]
    //@body TimeLimiterLayer::layer@Layer#1 file=timelimiter
}
fn main() {}
}
