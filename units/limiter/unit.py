RL = "crates/tower-resilience-ratelimiter/src/"
TR = "Tracked(tr)"
CT = "clk, Tracked(tr)"
ADMIT = "proof { tr.permits = tr.permits + 1; }"
UNIT = dict(
    serves=["C02", "C15", "C20"],
    files={"limiter": RL + "limiter.rs", "lib": RL + "lib.rs", "config": RL + "config.rs", "error": RL + "error.rs"},
    default_file="limiter",
    verus_flags=["--no-erasure-check"],
    rules=[("R1",), ("R2",), ("R5",), ("sub", "R11-addassign", r"(\bself\.\w*start)\s*\+=\s*([^;]+);", r"\1 = \1 + (\2);", -1)],
    extra_params=["clk", "tr", "gh"],
    fns={
        "FixedWindowState::new": dict(),
        "FixedWindowState::refresh": dict(optional=True),
        "FixedWindowState::try_acquire": dict(rules=[
            ("inject", r"self\.available_permits (?:-= 1|= self\.available_permits - 1);", "after", ADMIT),
        ]),
        "SlidingLogState::new": dict(),
        "SlidingCounterState::new": dict(),
        "SlidingLogState::try_acquire": dict(rules=[
            ("sub", "R11-refpat", r"Some\(&timestamp\) = self\.request_log\.front\(\)", "Some(timestamp) = vx_copied(self.request_log.front())", 1),
            ("sub", "R11-refpat", r"Some\(&oldest\) = self\.request_log\.front\(\)", "Some(oldest) = vx_copied(self.request_log.front())", 1),
            ("R10", -1),   # E.map(|p| B).unwrap_or(D) -> match (any receiver, balanced bodies)
            ("inject", r"if self\.request_log\.len\(\) < self\.limit_for_period", "before", """proof {
                let w = self.window_duration.nanos as nat; let n = gh.adm.len() as int; let k0 = old(self).request_log@.len() as int; let kept = self.request_log@; let d = k0 - kept.len();
                lemma_live_suffix(old(self).request_log@, now.t as nat, w);
                assert(times(kept) =~= gh.adm.subrange(n - kept.len(), n)) by {
                    assert forall|i: int| 0 <= i < kept.len() implies times(kept)[i] == gh.adm.subrange(n - kept.len(), n)[i] by {
                        assert(kept[i] == old(self).request_log@[d + i]);
                        assert(times(old(self).request_log@)[d + i] == gh.adm.subrange(n - k0, n)[d + i]);
                    }
                }
                assert forall|j: int| 0 <= j < n - kept.len() implies now.t >= #[trigger] gh.adm[j] && now.t - gh.adm[j] >= w by {
                    if j >= n - k0 { assert(gh.adm[j] == gh.adm.subrange(n - k0, n)[j - (n - k0)]); assert(times(old(self).request_log@)[j - (n - k0)] == old(self).request_log@[j - (n - k0)].t); }
                }
            }""", 1),
            ("inject", r"self\.request_log\.push_back\(now\);", "before", """proof {
                let w = self.window_duration.nanos as nat; let n = gh.adm.len() as int; let kept = self.request_log@;
                lemma_admit(gh.adm, kept.len() as nat, now.t as nat, w, self.limit_for_period as nat);
                gh.adm = gh.adm.push(now.t as nat);
                assert(times(kept.push(now)) =~= gh.adm.subrange(n + 1 - (kept.len() + 1), n + 1)) by {
                    assert forall|i: int| 0 <= i < kept.len() + 1 implies times(kept.push(now))[i] == gh.adm.subrange(n - kept.len(), n + 1)[i] by {
                        if i < kept.len() { assert(times(kept)[i] == gh.adm.subrange(n - kept.len(), n)[i]); }
                    }
                }
            }"""),
            ("inject", r"self\.request_log\.push_back\(now\);", "after", ADMIT),
            ("loops", {0: """invariant
                    live_log(self.request_log@, now.t as nat, self.window_duration.nanos as nat) == live_log(old(self).request_log@, now.t as nat, old(self).window_duration.nanos as nat),
                    self.limit_for_period == old(self).limit_for_period && self.window_duration == old(self).window_duration && self.timeout_duration == old(self).timeout_duration,
                    sorted_upto(self.request_log@, now.t as nat), self.request_log@.len() <= self.limit_for_period, now.t == clk.now@,
                    *tr == *old(tr),
                ensures live_log(self.request_log@, now.t as nat, self.window_duration.nanos as nat) =~= self.request_log@,
                    self.request_log@.len() > 0 ==> !(now.t >= self.request_log@[0].t && now.t - self.request_log@[0].t >= self.window_duration.nanos),
                decreases self.request_log@.len()"""}),
        ]),
        "SlidingCounterState::maybe_rotate_bucket": dict(rules=[
            ("R14", "buckets_passed", ["elapsed", "self.bucket_duration"]),
        ]),
        "SlidingCounterState::try_acquire": dict(rules=[
            ("sub", "R14-drop-float-lets", r"let elapsed_ratio = elapsed_ratio\.clamp\(0\.0, 1\.0\);", "", 1),
            ("R14", "elapsed_ratio", ["elapsed", "self.bucket_duration"]),
            ("sub", "R14-drop-float-lets", r"let previous_weight = 1\.0 - elapsed_ratio;", "", 1),
            ("R14", "weighted_count", ["self.previous_count", "previous_weight", "self.current_count"]),
            ("sub", "R14-drop-float-lets", r"let weighted_count =\s*vx_leaf_weighted_count\([^;]*\);", "", 1),
            ("sub", "R14-admit", r"weighted_count < self\.limit_for_period as f64", "vx_leaf_admit(self.previous_count, self.current_count, elapsed, self.bucket_duration, self.limit_for_period)", 1),
            ("sub", "R14-estimate", r"self\.estimate_wait_time\(elapsed_ratio\)", "vx_estimate_wait_time(self.previous_count, self.current_count, self.limit_for_period, self.bucket_duration, elapsed)", 1),
            ("inject", r"self\.current_count \+= 1;", "after", ADMIT),
        ]),
        "RateLimiterStateInner::try_acquire": dict(rules=[("addarg", ["try_acquire"], CT, 3),
            ("sub", "R6-ghost", r"(Self::SlidingLog\(state\) => state\.try_acquire\(clk, Tracked\(tr\))\)", r"\1, Tracked(gh))", 1)]),
        "SharedRateLimiter::acquire": dict(rules=[
            ("sub", "R8-lock", r"self\.state\.lock\(\)\.unwrap\(\)", "vx_lock(&self.state, clk, Tracked(gh))", 2),
            ("R10r", -1),
            ("R3",),
            ("addarg", ["try_acquire"], CT + ", Tracked(gh)", 2),
        ]),
        "RateLimiterStateInner::new": dict(rules=[("addarg", ["FixedWindowState::new", "SlidingCounterState::new"], "clk", 2)]),
        "SharedRateLimiter::new": dict(rules=[("addarg", ["RateLimiterStateInner::new"], "clk", 1)]),
        "RateLimiter::new": dict(file="lib", rules=[("addarg", ["SharedRateLimiter::new"], "clk", 1)]),
        "RateLimiter::clone@Clone": dict(file="lib"),
        "RateLimiter::poll_ready@Service": dict(file="lib", rules=[("R10p", "RateLimiterServiceError::Inner")]),
        "RateLimiter::call@Service": dict(file="lib", rules=[
            ("R4",),
            ("sub", "R3-acquire", r"limiter\.acquire\(\)\.await", "limiter.acquire(clk, Tracked(tr), Tracked(gh))", 1),
            ("R3",),
            ("addarg", ["call"], TR, 1),
            ("R10e", 1),
        ]),
    },
    derive_clone={"SharedRateLimiter": "limiter"},
    types=[
        ("enum", "WindowType", "config"),
        ("struct", "FixedWindowState", "limiter"),
        ("struct", "SlidingLogState", "limiter"),
        ("struct", "SlidingCounterState", "limiter"),
        ("enum", "RateLimiterStateInner", "limiter"),
        ("struct", "SharedRateLimiter", "limiter"),
        ("enum", "RateLimiterServiceError", "error"),
        ("struct", "RateLimiterConfig", "config", {"drop": ["event_listeners", "name"]}),
        ("struct", "RateLimiter", "lib"),
    ],
)
