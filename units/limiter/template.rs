#![feature(allocator_api)]
#![allow(unused)]
use vstd::prelude::*;
use vstd::std_specs::cmp::*;
use core::cmp::Ordering as CmpOrdering;
use std::collections::VecDeque;
use std::sync::Arc;
verus! {
//@include time.rs
//@include vecdeque.rs
//@include trace.rs
/// C02/C15: the inner call is made only after this task took exactly one permit
pub open spec fn call_gate<Req, Res, E>(tr: Trace<Req, Res, E>) -> bool { tr.permits == 1 && tr.created }
pub open spec fn await_gate<Req, Res, E>(tr: Trace<Req, Res, E>) -> bool { tr.permits == 1 }
//@include inner.rs GATE_TAGS=[C02,C15]
//@include tokio_sleep.rs

// ---- unit prelude (ASSUMED) ----
pub type AcquireResult = Result<Duration, Duration>;
/// float leaves of the sliding counter (R14); facts about them are Kani obligations on the same text
pub uninterp spec fn weighted_lt_limit(previous: usize, current: usize, elapsed: Duration, bucket: Duration, limit: usize) -> bool;
#[verifier::external_body]
fn vx_leaf_elapsed_ratio(elapsed: Duration, bucket_duration: Duration) -> (r: f64) { unimplemented!() }
#[verifier::external_body]
fn vx_leaf_admit(previous_count: usize, current_count: usize, elapsed: Duration, bucket_duration: Duration, limit_for_period: usize) -> (r: bool)
    ensures r == weighted_lt_limit(previous_count, current_count, elapsed, bucket_duration, limit_for_period),
            r ==> current_count < limit_for_period,   // Kani leaf `weighted_lt_limit_implies_room`
{ unimplemented!() }
#[verifier::external_body]
fn vx_leaf_buckets_passed(elapsed: Duration, bucket_duration: Duration) -> (r: u32)
    ensures elapsed.nanos >= 2 * bucket_duration.nanos && bucket_duration.nanos > 0 ==> r >= 2,   // NAMED IEEE ASSUMPTION: the Kani leaf on this division did not close in 15 min
{ unimplemented!() }
/// SlidingCounterState::estimate_wait_time: positive whenever no slot is free — ASSUMED here; Kani leaf `estimate_wait_positive_when_full`
/// checks it on the extracted function for counts <= 10^4 away from the last millionth of the bucket (DESIGN 11.4)
#[verifier::external_body]
fn vx_estimate_wait_time(previous_count: usize, current_count: usize, limit_for_period: usize, bucket_duration: Duration, elapsed: Duration) -> (r: Duration)
    ensures r.nanos > 0,
{ unimplemented!() }
/// std::sync::Mutex (R8): a critical section is atomic; between two sections any contracted operation of another task may have run
#[verifier::external_body]
pub fn vx_lock<'a>(m: &'a Arc<Mutex<RateLimiterStateInner>>, clk: &Clock, Tracked(gh): Tracked<&mut AdmLog>) -> (r: &'a mut RateLimiterStateInner)
    ensures r.wf(*clk), r.wf_adm(*final(gh), *clk), r.timeout() == m.timeout@,   // the configured timeout never changes (#configuration_unchanged on every kernel operation)
{ unimplemented!() }
pub struct Mutex<T> { pub id: Ghost<int>, pub timeout: Ghost<Duration>, pub init: Ghost<T> }
impl Mutex<RateLimiterStateInner> {
    /// Mutex::new: the protected value starts as `v` (init); its configured timeout is what vx_lock reports ever after
    #[verifier::external_body]
    pub fn new(v: RateLimiterStateInner) -> (r: Self) ensures r.init@ == v, r.timeout@ == v.timeout() { unimplemented!() }
}

// ---- types of /repo (shape-checked) ----
#[derive(Clone, Copy, PartialEq, Eq, Structural)]
pub enum WindowType { Fixed, SlidingLog, SlidingCounter }
pub struct FixedWindowState { pub limit_for_period: usize, pub refresh_period: Duration, pub timeout_duration: Duration, pub available_permits: usize, pub period_start: Instant }
pub struct SlidingLogState { pub limit_for_period: usize, pub window_duration: Duration, pub timeout_duration: Duration, pub request_log: VecDeque<Instant> }
pub struct SlidingCounterState { pub limit_for_period: usize, pub bucket_duration: Duration, pub timeout_duration: Duration, pub previous_count: usize, pub current_count: usize, pub bucket_start: Instant }
pub enum RateLimiterStateInner { Fixed(FixedWindowState), SlidingLog(SlidingLogState), SlidingCounter(SlidingCounterState) }
pub struct SharedRateLimiter { pub state: Arc<Mutex<RateLimiterStateInner>> }
pub enum RateLimiterServiceError<E> { RateLimited, Inner(E) }
pub struct RateLimiterConfig { pub limit_for_period: usize, pub refresh_period: Duration, pub timeout_duration: Duration, pub window_type: WindowType }
pub struct RateLimiter<Req, Res, E> { pub inner: Inner<Req, Res, E>, pub config: Arc<RateLimiterConfig>, pub limiter: SharedRateLimiter }

pub open spec fn zero() -> AcquireResult { Ok(Duration { nanos: 0 }) }
pub open spec fn sorted_upto(s: Seq<Instant>, now: nat) -> bool {
    &&& forall|i: int, j: int| 0 <= i < j < s.len() ==> s[i].t <= s[j].t
    &&& forall|i: int| 0 <= i < s.len() ==> (#[trigger] s[i]).t <= now
}
/// entries of the log still inside the window at `now` (the log is sorted, so they form a suffix)
pub open spec fn live_log(s: Seq<Instant>, now: nat, w: nat) -> Seq<Instant> decreases s.len() {
    if s.len() > 0 && now >= s[0].t && now - s[0].t >= w { live_log(s.drop_first(), now, w) } else { s }
}

/// ghost: every admission of this limiter through the sliding log, oldest first
pub tracked struct AdmLog { pub ghost adm: Seq<nat> }
pub open spec fn times(s: Seq<Instant>) -> Seq<nat> { Seq::new(s.len(), |i: int| s[i].t as nat) }
/// C02 (sliding log): any limit+1 consecutive admissions span at least the window
pub open spec fn spaced(adm: Seq<nat>, limit: nat, w: nat) -> bool {
    forall|i: int| 0 <= i && i + limit < adm.len() ==> #[trigger] adm[i + limit as int] - adm[i] >= w
}
/// what live_log keeps is a suffix; everything it drops is at least w old
pub proof fn lemma_live_suffix(s: Seq<Instant>, now: nat, w: nat)
    ensures ({ let k = s.len() - live_log(s, now, w).len();
        &&& 0 <= k <= s.len()
        &&& live_log(s, now, w) == s.subrange(k, s.len() as int)
        &&& forall|j: int| 0 <= j < k ==> now >= (#[trigger] s[j]).t && now - s[j].t >= w }),
    decreases s.len(),
{
    if s.len() > 0 && now >= s[0].t && now - s[0].t >= w {
        let r = s.drop_first();
        lemma_live_suffix(r, now, w);
        let k1 = r.len() - live_log(r, now, w).len();
        assert(live_log(s, now, w) == live_log(r, now, w));
        assert(r.subrange(k1, r.len() as int) =~= s.subrange(k1 + 1, s.len() as int));
        assert forall|j: int| 0 <= j < k1 + 1 implies now >= (#[trigger] s[j]).t && now - s[j].t >= w by {
            if j > 0 { assert(s[j] == r[j - 1]); }
        }
    } else {
        assert(s.subrange(0, s.len() as int) =~= s);
    }
}
/// admitting at `now` when fewer than `limit` admissions are still inside the window keeps the spacing
pub proof fn lemma_admit(adm: Seq<nat>, k: nat, now: nat, w: nat, limit: nat)
    requires spaced(adm, limit, w), k <= adm.len(), k < limit,
        forall|j: int| 0 <= j < adm.len() - k ==> now >= #[trigger] adm[j] && now - adm[j] >= w,
    ensures spaced(adm.push(now), limit, w),
{
    let a2 = adm.push(now);
    assert forall|i: int| 0 <= i && i + limit < a2.len() implies #[trigger] a2[i + limit as int] - a2[i] >= w by {
        if i + limit < adm.len() {
            assert(a2[i + limit as int] == adm[i + limit as int] && a2[i] == adm[i]);
        } else {
            assert(a2[i + limit as int] == now);
            assert(i < adm.len() - k);
            assert(a2[i] == adm[i]);
        }
    }
}

// ---- C02 (fixed window / sliding counter): global window-history lemma over the contracts of try_acquire ----
/// abstract view of a windowed limiter state: the current window started at `start` and has admitted `used` callers
pub struct Win { pub start: nat, pub used: nat, pub limit: nat, pub period: nat }
/// ghost history: every window start so far (`cuts`), every admission instant (`adm`) and the window each was counted in (`win`)
pub struct WinHist { pub cuts: Seq<nat>, pub adm: Seq<nat>, pub win: Seq<nat> }
pub open spec fn count_in(win: Seq<nat>, i: nat) -> nat decreases win.len() {
    if win.len() == 0 { 0 } else { count_in(win.drop_last(), i) + if win.last() == i { 1nat } else { 0nat } }
}
/// what one try_acquire does to the abstract view, as its contract states it
pub open spec fn win_post(w0: Win, w1: Win, admitted: bool, now: nat) -> bool {
    let a = if admitted { 1nat } else { 0nat };
    &&& w1.limit == w0.limit && w1.period == w0.period
    &&& w0.start <= now && w1.used <= w1.limit
    &&& w1.start != w0.start ==> now >= w0.start + w0.period && w1.start == now && w1.used == a
    &&& w1.start == w0.start ==> w1.used == w0.used + a
}
/// C02: time is cut at `cuts` into consecutive windows, none shorter than the period, each holding at most `limit` admissions,
/// every admission lying inside the window it is counted in
pub open spec fn adm_ok(h: WinHist, j: int, now: nat) -> bool {
    let n = h.cuts.len() as int; let k = h.win[j] as int;
    k < n && h.cuts[k] <= h.adm[j] && h.adm[j] <= (if k + 1 < n { h.cuts[k + 1] } else { now })
}
pub open spec fn win_inv(w: Win, h: WinHist, now: nat) -> bool {
    let n = h.cuts.len() as int;
    &&& n >= 1 && h.adm.len() == h.win.len()
    &&& h.cuts[n - 1] == w.start && w.start <= now
    &&& forall|i: int| 0 <= i && i + 1 < n ==> #[trigger] h.cuts[i + 1] - h.cuts[i] >= w.period
    &&& forall|i: nat| i < n ==> #[trigger] count_in(h.win, i) <= w.limit
    &&& count_in(h.win, (n - 1) as nat) == w.used
    &&& forall|j: int| 0 <= j < h.adm.len() ==> #[trigger] adm_ok(h, j, now)
}
pub open spec fn win_step(h: WinHist, w0: Win, w1: Win, admitted: bool, now: nat) -> WinHist {
    let h1 = if w1.start != w0.start { WinHist { cuts: h.cuts.push(w1.start), ..h } } else { h };
    if admitted { WinHist { adm: h1.adm.push(now), win: h1.win.push((h1.cuts.len() - 1) as nat), ..h1 } } else { h1 }
}
pub open spec fn win_init(w: Win) -> WinHist { WinHist { cuts: seq![w.start], adm: Seq::empty(), win: Seq::empty() } }
pub proof fn lemma_count_push(win: Seq<nat>, x: nat, i: nat)
    ensures count_in(win.push(x), i) == count_in(win, i) + if x == i { 1nat } else { 0nat },
{
    assert(win.push(x).drop_last() =~= win);
}
pub proof fn lemma_count_zero(win: Seq<nat>, i: nat)
    requires forall|j: int| 0 <= j < win.len() ==> (#[trigger] win[j]) < i,
    ensures count_in(win, i) == 0,
    decreases win.len(),
{
    if win.len() > 0 { lemma_count_zero(win.drop_last(), i); }
}
pub proof fn lemma_win_init(w: Win, now: nat)
    requires w.used == 0, w.start <= now,
    ensures win_inv(w, win_init(w), now),   // #a_new_limiter_starts_with_one_empty_window [C02]
{
    let h = win_init(w);
    assert forall|i: nat| i < 1 implies #[trigger] count_in(h.win, i) <= w.limit by {}
}
/// every try_acquire satisfying its contract keeps the window history within the limit
pub proof fn lemma_win_step(w0: Win, w1: Win, h: WinHist, admitted: bool, now0: nat, now: nat)
    requires win_inv(w0, h, now0), now0 <= now, win_post(w0, w1, admitted, now),
    ensures win_inv(w1, win_step(h, w0, w1, admitted, now), now),   // #windows_partition_time_each_at_least_the_period_and_within_the_limit [C02]
{
    let n0 = h.cuts.len() as int;
    let h1 = if w1.start != w0.start { WinHist { cuts: h.cuts.push(w1.start), ..h } } else { h };
    let n = h1.cuts.len() as int;
    // after the (possible) cut
    assert(win_inv(Win { used: if w1.start != w0.start { 0 } else { w0.used }, ..w1 }, h1, now)) by {
        if w1.start != w0.start {
            assert forall|j: int| 0 <= j < h.win.len() implies (#[trigger] h.win[j]) < n0 by { assert(adm_ok(h, j, now0)); }
            lemma_count_zero(h.win, n0 as nat);
            assert forall|i: int| 0 <= i && i + 1 < n implies #[trigger] h1.cuts[i + 1] - h1.cuts[i] >= w1.period by {
                if i + 1 < n0 { assert(h1.cuts[i + 1] == h.cuts[i + 1] && h1.cuts[i] == h.cuts[i]); }
            }
            assert forall|j: int| 0 <= j < h1.adm.len() implies #[trigger] adm_ok(h1, j, now) by {
                assert(adm_ok(h, j, now0));
            }
        } else {
            assert forall|j: int| 0 <= j < h1.adm.len() implies #[trigger] adm_ok(h1, j, now) by {
                assert(adm_ok(h, j, now0));
            }
        }
    }
    if admitted {
        let h2 = win_step(h, w0, w1, admitted, now);
        assert forall|i: nat| i < n implies #[trigger] count_in(h2.win, i) <= w1.limit by {
            lemma_count_push(h1.win, (n - 1) as nat, i);
        }
        lemma_count_push(h1.win, (n - 1) as nat, (n - 1) as nat);
        assert forall|j: int| 0 <= j < h2.adm.len() implies #[trigger] adm_ok(h2, j, now) by {
            if j < h1.adm.len() { assert(adm_ok(h1, j, now)); }
        }
    }
}

impl FixedWindowState {
    /// abstract view for the window-history lemma: permits handed out in the current window
    pub open spec fn win(&self) -> Win { Win { start: self.period_start.t as nat, used: (self.limit_for_period - self.available_permits) as nat, limit: self.limit_for_period as nat, period: self.refresh_period.nanos as nat } }
    pub open spec fn wf(&self, clk: Clock) -> bool {
        self.available_permits <= self.limit_for_period && self.period_start.t <= clk.now@ && self.limit_for_period >= 1 && self.refresh_period.nanos > 0
    }
    pub fn new(limit_for_period: usize, refresh_period: Duration, timeout_duration: Duration, clk: &mut Clock) -> (r: Self)
        requires limit_for_period >= 1, refresh_period.nanos > 0,
        ensures r.wf(*final(clk)),   // #starts_with_a_full_window [C02]
            r.win().used == 0 && r.win().start <= final(clk).now@,   // #window_history_starts_empty [C02]
            r.available_permits == limit_for_period && r.limit_for_period == limit_for_period && r.refresh_period == refresh_period && r.timeout_duration == timeout_duration,   // #keeps_configuration [C02,C15]
    //@body FixedWindowState::new

    pub fn refresh(&mut self, now: Instant)
        ensures *final(self) == (FixedWindowState { available_permits: old(self).limit_for_period, period_start: now, ..*old(self) }),   // #refresh_opens_a_new_full_window [C02,C15]
    //@body FixedWindowState::refresh

    pub fn try_acquire<Req, Res, E>(&mut self, clk: &mut Clock, Tracked(tr): Tracked<&mut Trace<Req, Res, E>>) -> (r: AcquireResult)
        requires old(self).wf(*old(clk)),
        ensures
            final(self).wf(*final(clk)),   // #never_more_than_limit_permits_per_window [C02]
            win_post(old(self).win(), final(self).win(), r == zero(), final(clk).now@),   // #each_acquisition_is_a_step_of_the_window_history [C02]
            final(self).limit_for_period == old(self).limit_for_period && final(self).refresh_period == old(self).refresh_period && final(self).timeout_duration == old(self).timeout_duration,   // #configuration_unchanged [C02]
            // a new window starts only when the current one is at least refresh_period old, and starts full
            final(self).period_start != old(self).period_start ==> final(clk).now@ - old(self).period_start.t >= old(self).refresh_period.nanos
                && final(self).period_start.t == final(clk).now@,   // #window_never_shorter_than_refresh_period [C02,C15]
            final(clk).now@ - old(self).period_start.t >= old(self).refresh_period.nanos ==> final(self).period_start.t == final(clk).now@
                && r == zero() && final(self).available_permits == old(self).limit_for_period - 1,   // #after_a_full_period_a_fresh_window_admits_at_once [C15]
            final(self).period_start == old(self).period_start ==> final(self).available_permits + (if r == zero() { 1int } else { 0int }) == old(self).available_permits,   // #permit_consumed_exactly_when_admitted [C02,C15]
            *final(tr) == (Trace { permits: old(tr).permits + if r == zero() { 1nat } else { 0nat }, ..*old(tr) }),   // #admission_recorded_iff_ok_zero [C02,C15]
            (final(self).period_start == old(self).period_start && old(self).available_permits > 0) ==> r == zero(),   // #admits_at_once_when_the_window_has_capacity [C15]
            r matches Ok(w) ==> w.nanos <= old(self).timeout_duration.nanos || w.nanos == 0,   // #wait_never_exceeds_timeout [C15]
            r matches Ok(w) ==> (w.nanos > 0 ==> w.nanos == old(self).refresh_period.nanos - (final(clk).now@ - final(self).period_start.t)),   // #wait_is_the_time_to_the_next_window [C15]
            r matches Err(d) ==> d == old(self).timeout_duration,   // #rejects_when_next_window_is_beyond_timeout [C15]
            final(clk).now@ >= old(clk).now@,   // #clock_monotone
    //@body FixedWindowState::try_acquire
}

impl SlidingLogState {
    pub open spec fn wf(&self, clk: Clock) -> bool {
        self.request_log@.len() <= self.limit_for_period && sorted_upto(self.request_log@, clk.now@) && self.window_duration.nanos > 0
    }
    /// the log is the not-yet-evicted suffix of the admission history, everything before it is older than the window, and the
    /// whole history is spaced: any limit+1 consecutive admissions span at least window_duration
    pub open spec fn wf_adm(&self, gh: AdmLog, clk: Clock) -> bool {
        let n = gh.adm.len() as int;
        let k = self.request_log@.len() as int;
        &&& k <= n
        &&& times(self.request_log@) =~= gh.adm.subrange(n - k, n)
        &&& forall|j: int| 0 <= j < n - k ==> clk.now@ >= #[trigger] gh.adm[j] && clk.now@ - gh.adm[j] >= self.window_duration.nanos
        &&& spaced(gh.adm, self.limit_for_period as nat, self.window_duration.nanos as nat)
    }
    pub fn new(limit_for_period: usize, window_duration: Duration, timeout_duration: Duration) -> (r: Self)
        requires window_duration.nanos > 0,   // a limit of ZERO is inside the domain of the log (C15: "all limits"): nothing is ever admitted
        ensures
            forall|clk: Clock| #![trigger r.wf(clk)] r.wf(clk) && r.wf_adm(AdmLog { adm: Seq::empty() }, clk),   // #starts_with_an_empty_log_and_history [C02]
            r.request_log@.len() == 0 && r.limit_for_period == limit_for_period && r.window_duration == window_duration && r.timeout_duration == timeout_duration,   // #keeps_configuration [C02,C15]
    //@body SlidingLogState::new

    pub fn try_acquire<Req, Res, E>(&mut self, clk: &mut Clock, Tracked(tr): Tracked<&mut Trace<Req, Res, E>>, Tracked(gh): Tracked<&mut AdmLog>) -> (r: AcquireResult)
        requires old(self).wf(*old(clk)), old(self).wf_adm(*old(gh), *old(clk)),   // (an expiry instant that is not representable is inside the domain: that slot never frees up)
        ensures
            final(self).wf_adm(*final(gh), *final(clk)),   // #any_limit_plus_one_consecutive_admissions_span_at_least_the_window [C02]
            final(gh).adm == (if r == zero() { old(gh).adm.push(final(clk).now@) } else { old(gh).adm }),   // #admission_history_grows_exactly_when_admitted [C02]
            final(self).wf(*final(clk)),   // #log_sorted_and_at_most_limit_entries [C02]
            final(self).limit_for_period == old(self).limit_for_period && final(self).window_duration == old(self).window_duration && final(self).timeout_duration == old(self).timeout_duration,   // #configuration_unchanged [C02]
            // exactly the entries at least window_duration old are evicted; then admitted iff fewer than limit remain, logging `now`
            ({ let kept = live_log(old(self).request_log@, final(clk).now@, old(self).window_duration.nanos as nat);
               if kept.len() < old(self).limit_for_period { r == zero() && final(self).request_log@ == kept.push(Instant { t: final(clk).now@ as u128 }) }
               else { r != zero() && final(self).request_log@ == kept } }),   // #evicts_only_expired_entries_and_admits_iff_fewer_than_limit_remain [C02,C15]
            *final(tr) == (Trace { permits: old(tr).permits + if r == zero() { 1nat } else { 0nat }, ..*old(tr) }),   // #admission_recorded_iff_ok_zero [C02,C15]
            r matches Ok(w) ==> w.nanos <= old(self).timeout_duration.nanos || w.nanos == 0,   // #wait_never_exceeds_timeout [C15]
            r matches Ok(w) ==> (w.nanos > 0 ==> final(self).request_log@.len() > 0 && (final(self).request_log@[0].t + old(self).window_duration.nanos <= u128::MAX ==> w.nanos == final(self).request_log@[0].t + old(self).window_duration.nanos - final(clk).now@)),   // #wait_is_the_time_until_the_oldest_entry_expires [C15]
            r matches Err(d) ==> d == old(self).timeout_duration,   // #rejects_when_the_next_slot_is_beyond_timeout [C15]
            final(clk).now@ >= old(clk).now@,   // #clock_monotone
    //@body SlidingLogState::try_acquire
}

impl SlidingCounterState {
    /// abstract view for the window-history lemma: admissions counted in the current bucket
    pub open spec fn win(&self) -> Win { Win { start: self.bucket_start.t as nat, used: self.current_count as nat, limit: self.limit_for_period as nat, period: self.bucket_duration.nanos as nat } }
    pub open spec fn wf(&self, clk: Clock) -> bool {
        self.current_count <= self.limit_for_period && self.bucket_start.t <= clk.now@ && self.limit_for_period >= 1 && self.bucket_duration.nanos > 0
    }
    pub fn new(limit_for_period: usize, bucket_duration: Duration, timeout_duration: Duration, clk: &mut Clock) -> (r: Self)
        requires limit_for_period >= 1, bucket_duration.nanos > 0,
        ensures r.wf(*final(clk)),   // #starts_with_empty_buckets [C02]
            r.win().used == 0 && r.win().start <= final(clk).now@,   // #window_history_starts_empty [C02]
            r.current_count == 0 && r.previous_count == 0 && r.limit_for_period == limit_for_period && r.bucket_duration == bucket_duration && r.timeout_duration == timeout_duration,   // #keeps_configuration [C02,C15]
    //@body SlidingCounterState::new

    pub fn maybe_rotate_bucket(&mut self, now: Instant)
        requires now.t >= old(self).bucket_start.t, old(self).bucket_duration.nanos > 0,
        ensures
            now.t - old(self).bucket_start.t < old(self).bucket_duration.nanos ==> *final(self) == *old(self),   // #bucket_never_shorter_than_refresh_period [C02]
            now.t - old(self).bucket_start.t >= old(self).bucket_duration.nanos ==> final(self).bucket_start == now && final(self).current_count == 0
                && (final(self).previous_count == old(self).current_count || final(self).previous_count == 0),   // #rotation_starts_an_empty_bucket [C02]
            now.t - old(self).bucket_start.t >= 2 * old(self).bucket_duration.nanos ==> final(self).previous_count == 0,   // #idle_two_periods_forgets_both_buckets [C15]
            final(self).limit_for_period == old(self).limit_for_period && final(self).bucket_duration == old(self).bucket_duration && final(self).timeout_duration == old(self).timeout_duration,   // #configuration_unchanged [C02]
    //@body SlidingCounterState::maybe_rotate_bucket

    pub fn try_acquire<Req, Res, E>(&mut self, clk: &mut Clock, Tracked(tr): Tracked<&mut Trace<Req, Res, E>>) -> (r: AcquireResult)
        requires old(self).wf(*old(clk)),
        ensures
            final(self).wf(*final(clk)),   // #never_more_than_limit_per_bucket [C02]
            win_post(old(self).win(), final(self).win(), r == zero(), final(clk).now@),   // #each_acquisition_is_a_step_of_the_window_history [C02]
            final(self).limit_for_period == old(self).limit_for_period && final(self).bucket_duration == old(self).bucket_duration && final(self).timeout_duration == old(self).timeout_duration,   // #configuration_unchanged [C02]
            final(self).bucket_start != old(self).bucket_start ==> final(clk).now@ - old(self).bucket_start.t >= old(self).bucket_duration.nanos && final(self).bucket_start.t == final(clk).now@,   // #bucket_never_shorter_than_refresh_period [C02]
            final(self).bucket_start == old(self).bucket_start ==> final(self).previous_count == old(self).previous_count
                && final(self).current_count == old(self).current_count + (if r == zero() { 1int } else { 0int }),   // #count_incremented_exactly_when_admitted [C02,C15]
            final(self).bucket_start != old(self).bucket_start ==> final(self).current_count == (if r == zero() { 1int } else { 0int }),   // #fresh_bucket_counts_from_zero [C02]
            *final(tr) == (Trace { permits: old(tr).permits + if r == zero() { 1nat } else { 0nat }, ..*old(tr) }),   // #admission_recorded_iff_ok_zero [C02,C15]
            r == zero() <==> weighted_lt_limit(final(self).previous_count, (final(self).current_count - (if r == zero() { 1int } else { 0int })) as usize,
                                               Duration { nanos: (final(clk).now@ - final(self).bucket_start.t) as u128 }, old(self).bucket_duration, old(self).limit_for_period),   // #admits_at_once_iff_weighted_count_below_limit [C15]
            r matches Ok(w) ==> w.nanos <= old(self).timeout_duration.nanos || w.nanos == 0,   // #wait_never_exceeds_timeout [C15]
            r matches Err(d) ==> d == old(self).timeout_duration,   // #rejects_when_the_estimate_is_beyond_timeout [C15]
            final(clk).now@ >= old(clk).now@,   // #clock_monotone
    //@body SlidingCounterState::try_acquire
}

impl RateLimiterStateInner {
    pub open spec fn wf(&self, clk: Clock) -> bool {
        match self {
            RateLimiterStateInner::Fixed(s) => s.wf(clk),
            RateLimiterStateInner::SlidingLog(s) => s.wf(clk) && forall|i: int| 0 <= i < s.request_log@.len() ==> (#[trigger] s.request_log@[i]).t + s.window_duration.nanos <= u128::MAX,
            RateLimiterStateInner::SlidingCounter(s) => s.wf(clk),
        }
    }
    pub open spec fn wf_adm(&self, gh: AdmLog, clk: Clock) -> bool {
        match self { RateLimiterStateInner::SlidingLog(s) => s.wf_adm(gh, clk), _ => true }
    }
    pub open spec fn timeout(&self) -> Duration {
        match self { RateLimiterStateInner::Fixed(s) => s.timeout_duration, RateLimiterStateInner::SlidingLog(s) => s.timeout_duration, RateLimiterStateInner::SlidingCounter(s) => s.timeout_duration }
    }
    pub open spec fn kind(&self) -> WindowType {
        match self { RateLimiterStateInner::Fixed(s) => WindowType::Fixed, RateLimiterStateInner::SlidingLog(s) => WindowType::SlidingLog, RateLimiterStateInner::SlidingCounter(s) => WindowType::SlidingCounter }
    }
    pub open spec fn limit(&self) -> usize {
        match self { RateLimiterStateInner::Fixed(s) => s.limit_for_period, RateLimiterStateInner::SlidingLog(s) => s.limit_for_period, RateLimiterStateInner::SlidingCounter(s) => s.limit_for_period }
    }
    pub open spec fn period(&self) -> Duration {
        match self { RateLimiterStateInner::Fixed(s) => s.refresh_period, RateLimiterStateInner::SlidingLog(s) => s.window_duration, RateLimiterStateInner::SlidingCounter(s) => s.bucket_duration }
    }
    pub fn new(window_type: WindowType, limit_for_period: usize, refresh_period: Duration, timeout_duration: Duration, clk: &mut Clock) -> (r: Self)
        requires limit_for_period >= 1, refresh_period.nanos > 0,
        ensures
            r.wf(*final(clk)) && r.wf_adm(AdmLog { adm: Seq::empty() }, *final(clk)),   // #starts_well_formed_with_no_admissions [C02]
            r.kind() == window_type && r.limit() == limit_for_period && r.period() == refresh_period && r.timeout() == timeout_duration,   // #window_state_takes_exactly_the_configured_algorithm_limit_period_and_timeout [C02,C15]
    //@body RateLimiterStateInner::new

    pub fn try_acquire<Req, Res, E>(&mut self, clk: &mut Clock, Tracked(tr): Tracked<&mut Trace<Req, Res, E>>, Tracked(gh): Tracked<&mut AdmLog>) -> (r: AcquireResult)
        requires old(self).wf(*old(clk)), old(self).wf_adm(*old(gh), *old(clk)),
        ensures
            final(self).wf_adm(*final(gh), *final(clk)),   // #sliding_log_spacing_kept_by_every_acquisition [C02]
            *final(tr) == (Trace { permits: old(tr).permits + if r == zero() { 1nat } else { 0nat }, ..*old(tr) }),   // #admission_recorded_iff_ok_zero [C02,C15]
            r matches Ok(w) ==> w.nanos <= old(self).timeout().nanos || w.nanos == 0,   // #wait_never_exceeds_timeout [C15]
            final(self).timeout() == old(self).timeout(),   // #configuration_unchanged [C02]
            final(clk).now@ >= old(clk).now@,   // #clock_monotone
    //@body RateLimiterStateInner::try_acquire
}

impl SharedRateLimiter {
    pub fn clone(&self) -> (r: Self)
        ensures r.state == self.state,   // #clones_share_the_window_state [C02]
    //@derive_clone SharedRateLimiter

    pub fn new(window_type: WindowType, limit_for_period: usize, refresh_period: Duration, timeout_duration: Duration, clk: &mut Clock) -> (r: Self)
        requires limit_for_period >= 1, refresh_period.nanos > 0,
        ensures
            r.state.init@.wf(*final(clk)) && r.state.init@.wf_adm(AdmLog { adm: Seq::empty() }, *final(clk)),   // #starts_well_formed_with_no_admissions [C02]
            r.state.init@.kind() == window_type && r.state.init@.limit() == limit_for_period && r.state.init@.period() == refresh_period && r.state.timeout@ == timeout_duration,   // #shared_state_is_built_from_exactly_the_given_parameters [C02,C15]
    //@body SharedRateLimiter::new

    pub fn acquire<Req, Res, E>(&self, clk: &mut Clock, Tracked(tr): Tracked<&mut Trace<Req, Res, E>>, Tracked(gh): Tracked<&mut AdmLog>) -> (r: Result<Duration, ()>)
        requires old(tr).permits == 0 && old(tr).unguarded == 0 && old(tr).slept == 0,
        ensures
            r is Ok <==> final(tr).permits == 1,   // #admitted_iff_this_task_took_exactly_one_permit [C02,C15]
            r is Err ==> final(tr).permits == 0,   // #rejected_without_a_permit [C02,C15]
            final(tr).same_inner(*old(tr)),   // #acquire_touches_nothing_but_permits_and_sleep [C15,C20]
            final(tr).slept <= self.state.timeout@.nanos,   // #waits_at_most_timeout_duration_in_total [C15]
            r is Ok && final(tr).slept == 0 ==> r == Ok::<Duration, ()>(Duration { nanos: 0 }),   // #admitted_without_waiting_reports_zero_wait [C15]
    //@body SharedRateLimiter::acquire
}

impl<Req, Res, E> RateLimiter<Req, Res, E> {
    pub fn new(inner: Inner<Req, Res, E>, config: Arc<RateLimiterConfig>, clk: &mut Clock) -> (r: Self)
        requires config.limit_for_period >= 1, config.refresh_period.nanos > 0,
        ensures
            r.limiter.state.init@.kind() == config.window_type && r.limiter.state.init@.limit() == config.limit_for_period
                && r.limiter.state.init@.period() == config.refresh_period && r.limiter.state.timeout@ == config.timeout_duration,   // #limiter_is_built_from_exactly_the_configuration [C02,C15]
            r.config == config && r.inner == inner,   // #keeps_inner_and_configuration [C20]
    //@body RateLimiter::new file=lib

    pub fn clone(&self) -> (r: Self)
        ensures r.limiter.state == self.limiter.state && r.config == self.config,   // #clones_share_the_limiter [C02]
    //@body RateLimiter::clone@Clone file=lib

    pub fn poll_ready(&mut self, cx: &mut Context) -> (r: Poll<Result<(), RateLimiterServiceError<E>>>)
        ensures
            r matches Poll::Ready(Ok(_)) ==> final(self).inner.ready@,   // #ready_only_when_inner_ready [C20]
            r matches Poll::Ready(Err(e)) ==> e is Inner,   // #readiness_errors_surface_as_inner [C20]
            final(self).limiter == old(self).limiter && final(self).config == old(self).config,   // #shared_state_handles_and_configuration_are_left_untouched [C02,C15]
    //@body RateLimiter::poll_ready@Service file=lib

    pub fn call(&mut self, req: Req, clk: &mut Clock, Tracked(tr): Tracked<&mut Trace<Req, Res, E>>, Tracked(gh): Tracked<&mut AdmLog>) -> (result: Result<Res, RateLimiterServiceError<E>>)
        requires old(tr).fresh(), old(self).inner.ready@,
        ensures
            final(tr).calls <= 1 && final(tr).calls == final(tr).permits,   // #reaches_inner_exactly_once_iff_a_permit_was_taken [C02,C15,C20]
            final(tr).blocked == 0,   // #no_wait_between_taking_the_permit_and_the_inner_call [C02]
            result matches Err(RateLimiterServiceError::RateLimited) <==> final(tr).permits == 0,   // #rate_limited_error_iff_no_permit [C15]
            final(tr).calls == 1 ==> final(tr).done == 1 && final(tr).last_req == Some(req),   // #request_forwarded_unchanged [C20]
            result matches Ok(v) ==> final(tr).last_done == Some(Ok::<Res, E>(v)),   // #response_returned_unchanged [C20]
            result matches Err(RateLimiterServiceError::Inner(e)) ==> final(tr).last_done == Some(Err::<Res, E>(e)),   // #inner_error_returned_unchanged [C20]
            final(self).limiter == old(self).limiter && final(self).config == old(self).config,   // #shared_state_handles_and_configuration_are_left_untouched [C02,C15]
    //@body RateLimiter::call@Service file=lib
}
fn main() {}
}
