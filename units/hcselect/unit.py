HC = "crates/tower-resilience-healthcheck/src/"
UNIT = dict(
    serves=["C18"],
    files={"context": HC + "context.rs", "wrapper": HC + "wrapper.rs", "lib": HC + "lib.rs", "selector": HC + "selector.rs", "config": HC + "config.rs"},
    default_file="wrapper",
    rules=[],
    extra_params=[],
    fns={
        "HealthStatus::is_usable": dict(file="lib"),
        "HealthCheckedContext::status": dict(file="context", rules=[("sub", "R8-lock", r"self\.state\.read\(\)\.unwrap\(\)", "self.state", 1)]),
        "SelectionStrategy::select": dict(file="selector", rules=[
            ("R1", ("random",)),
            ("sub", "R10-iter", r"let statuses: Vec<HealthStatus> = contexts\.iter\(\)\.map\(\|ctx\| ctx\.status\(\)\)\.collect\(\);", "let statuses: Vec<HealthStatus> = vx_statuses(contexts);", 1),
            ("sub", "R10-iter", r"statuses\s*\.iter\(\)\s*\.position\(\|s\| \*s == HealthStatus::Healthy\)\s*\.or_else\(\|\| statuses\.iter\(\)\.position\(\|s\| s\.is_usable\(\)\)\)",
             "(match vx_position_healthy(&statuses) { Some(vx_i) => Some(vx_i), None => vx_position_usable(&statuses) })", 1),
            ("sub", "R10-iter", r"statuses\.iter\(\)\.position\(\|s\| s\.is_usable\(\)\)", "vx_position_usable(&statuses)", 1),
            ("sub", "R10-iter", r"let usable: Vec<usize> = statuses\s*\.iter\(\)\s*\.enumerate\(\)\s*\.filter\(\|\(_, s\)\| s\.is_(usable|healthy)\(\)\)\s*\.map\(\|\(i, _\)\| i\)\s*\.collect\(\);", r"let usable: Vec<usize> = vx_\1_indices(&statuses);", 1),
            ("sub", "R6-closure-call", r"selector\(&statuses\)", "selector.vx_call(&statuses)", 1),
        ]),
        "HealthCheckWrapper::get_healthy": dict(file="wrapper", rules=[
            ("sub", "R3", r"\.await", "", 1),
            ("sub", "R10-closure-contract", r"\|s\| s == HealthStatus::Healthy", "|s: HealthStatus| -> (vx_b: bool) ensures vx_b == (s == HealthStatus::Healthy) { s == HealthStatus::Healthy }", 1),
        ]),
        "HealthCheckWrapper::get_usable": dict(file="wrapper", rules=[
            ("sub", "R3", r"\.await", "", 1),
            ("sub", "R10-closure-contract", r"\|s\| s\.is_usable\(\)", "|s: HealthStatus| -> (vx_b: bool) ensures vx_b == usable(s) { s.is_usable() }", 1),
        ]),
        "HealthCheckWrapper::get_with_filter": dict(file="wrapper", rules=[
            ("sub", "R8-lock", r"self\.contexts\.read\(\)\.await", "vx_read(&self.contexts)", 1),
            ("sub", "R10-iter", r"let available: Vec<_> = contexts\s*\.iter\(\)\s*\.filter\(\|ctx\| filter\(ctx\.status\(\)\)\)\s*\.cloned\(\)\s*\.collect\(\);", "let available: Vec<HealthCheckedContext<T>> = vx_filter_contexts(contexts, &filter);", 1),
            ("sub", "R10-option-map", r"(\w+)\.get\(selected_idx\)\.map\(\|ctx\| ctx\.context\.clone\(\)\)", r"(if selected_idx < \1.len() { Some(\1[selected_idx].context.clone()) } else { None })", 1),
        ]),
    },
    # R3/R10: `.await` on the internal async fn erased; the filter closures get their (obvious) contract written out
    types=[
        ("enum", "HealthStatus", "lib"),
        ("struct", "ContextState", "context"),
        ("enum", "SelectionStrategy", "selector", {"drop": ["Random"]}),
    ],
)
