#![feature(allocator_api)]
#![allow(unused)]
use vstd::prelude::*;
use std::sync::Arc;
verus! {
// ---- unit prelude (ASSUMED). R10-iter: std iterator-adapter chains are replaced by contracted helpers stating what the
// chain computes (the adapters' semantics are std's); the code AROUND them — which list is indexed, emptiness checks,
// the modulo, the strategy dispatch — is the real text. ----
pub trait VClone: Sized { fn clone(&self) -> (r: Self) ensures r == *self; }
pub enum Ordering { Release, Acquire, Relaxed, SeqCst, AcqRel }
/// shared round-robin counter: fetch_add returns the previous value and increments (atomically; value itself arbitrary here)
pub struct AtomicUsize { pub id: Ghost<int> }
impl AtomicUsize {
    #[verifier::external_body] pub fn fetch_add(&self, v: usize, o: Ordering) -> (r: usize) { unimplemented!() }
}
pub open spec fn usable(s: HealthStatus) -> bool { s == HealthStatus::Healthy || s == HealthStatus::Degraded }
pub open spec fn statuses_of<T>(c: Seq<HealthCheckedContext<T>>) -> Seq<HealthStatus> { Seq::new(c.len(), |i: int| c[i].state.status) }
/// contexts.iter().map(|ctx| ctx.status()).collect()
#[verifier::external_body]
pub fn vx_statuses<T>(contexts: &[HealthCheckedContext<T>]) -> (r: Vec<HealthStatus>)
    ensures r@ == statuses_of(contexts@), r@.len() == contexts@.len(),
        forall|j: int| 0 <= j < contexts@.len() ==> (#[trigger] contexts@[j]).state.status == r@[j],
        forall|j: int| 0 <= j < contexts@.len() ==> (#[trigger] r@[j]) == contexts@[j].state.status,
{ unimplemented!() }
/// statuses.iter().position(|s| s.is_usable())
#[verifier::external_body]
pub fn vx_position_usable(statuses: &Vec<HealthStatus>) -> (r: Option<usize>)
    ensures r matches Some(i) ==> i < statuses@.len() && usable(statuses@[i as int]) && forall|j: int| 0 <= j < i ==> !usable(#[trigger] statuses@[j]),
            r is None ==> forall|j: int| 0 <= j < statuses@.len() ==> !usable(#[trigger] statuses@[j]),
{ unimplemented!() }
/// statuses.iter().position(|s| *s == HealthStatus::Healthy)
#[verifier::external_body]
pub fn vx_position_healthy(statuses: &Vec<HealthStatus>) -> (r: Option<usize>)
    ensures r matches Some(i) ==> i < statuses@.len() && statuses@[i as int] == HealthStatus::Healthy,
            r is None ==> forall|j: int| 0 <= j < statuses@.len() ==> #[trigger] statuses@[j] != HealthStatus::Healthy,
{ unimplemented!() }
/// statuses.iter().enumerate().filter(|(_, s)| s.is_usable()).map(|(i, _)| i).collect(): the indices of the usable entries, ascending
#[verifier::external_body]
pub fn vx_usable_indices(statuses: &Vec<HealthStatus>) -> (r: Vec<usize>)
    ensures
        forall|k: int| 0 <= k < r@.len() ==> (#[trigger] r@[k]) < statuses@.len() && usable(statuses@[r@[k] as int]),
        forall|j: int| 0 <= j < statuses@.len() && usable(#[trigger] statuses@[j]) ==> r@.contains(j as usize),
        forall|a: int, b: int| 0 <= a < b < r@.len() ==> r@[a] < r@[b],
{ unimplemented!() }
/// the same with `is_healthy` as the predicate: the indices of the Healthy entries, ascending
#[verifier::external_body]
pub fn vx_healthy_indices(statuses: &Vec<HealthStatus>) -> (r: Vec<usize>)
    ensures
        forall|k: int| 0 <= k < r@.len() ==> (#[trigger] r@[k]) < statuses@.len() && statuses@[r@[k] as int] == HealthStatus::Healthy,
        forall|j: int| 0 <= j < statuses@.len() && (#[trigger] statuses@[j]) == HealthStatus::Healthy ==> r@.contains(j as usize),
        forall|a: int, b: int| 0 <= a < b < r@.len() ==> r@[a] < r@[b],
{ unimplemented!() }
/// contexts.iter().filter(|ctx| filter(ctx.status())).cloned().collect(): the contexts whose published status passes the filter, in order
#[verifier::external_body]
pub fn vx_filter_contexts<T, F: Fn(HealthStatus) -> bool>(contexts: &Vec<HealthCheckedContext<T>>, filter: &F) -> (r: Vec<HealthCheckedContext<T>>)
    ensures
        forall|k: int| 0 <= k < r@.len() ==> call_ensures(*filter, ((#[trigger] r@[k]).state.status,), true) && contexts@.contains(r@[k]),
        (r@.len() == 0) ==> forall|j: int| 0 <= j < contexts@.len() ==> !call_ensures(*filter, ((#[trigger] contexts@[j]).state.status,), true),
{ unimplemented!() }
pub struct CustomSelectorFn { pub id: Ghost<int> }
impl CustomSelectorFn {
    #[verifier::external_body] pub fn vx_call(&self, statuses: &Vec<HealthStatus>) -> (r: Option<usize>) { unimplemented!() }
}
/// tokio RwLock<Vec<..>> read guard (R8)
pub struct RwLock<T> { pub id: Ghost<int>, pub p: core::marker::PhantomData<T> }
#[verifier::external_body]
pub fn vx_read<'a, T>(l: &'a Arc<RwLock<Vec<HealthCheckedContext<T>>>>) -> (r: &'a Vec<HealthCheckedContext<T>>) { unimplemented!() }

// ---- types of /repo (shape-checked) ----
#[derive(Debug, Clone, Copy, PartialEq, Eq, Structural)]
pub enum HealthStatus { Healthy, Degraded, Unhealthy, Unknown }
pub struct ContextState { pub status: HealthStatus, pub last_check_millis: u64, pub consecutive_failures: u64, pub consecutive_successes: u64 }
pub struct HealthCheckedContext<T> { pub context: T, pub state: ContextState }
pub enum SelectionStrategy { FirstAvailable, RoundRobin, PreferHealthy, Custom(CustomSelectorFn) }
pub struct HealthCheckConfig { pub selection_strategy: SelectionStrategy }
pub struct HealthCheckWrapper<T> { pub contexts: Arc<RwLock<Vec<HealthCheckedContext<T>>>>, pub config: HealthCheckConfig, pub round_robin_counter: Arc<AtomicUsize> }

impl HealthStatus {
    pub fn is_usable(&self) -> (r: bool)
        ensures r == usable(*self),   // #usable_means_healthy_or_degraded [C18]
    //@body HealthStatus::is_usable file=lib
}
impl<T> HealthCheckedContext<T> {
    pub fn status(&self) -> (r: HealthStatus)
        ensures r == self.state.status,   // #published_status_is_the_stored_status [C18]
    //@body HealthCheckedContext::status file=context
}
impl SelectionStrategy {
    pub fn select<T>(&self, contexts: &[HealthCheckedContext<T>], round_robin_counter: &AtomicUsize) -> (r: Option<usize>)
        ensures
            r matches Some(i) ==> (self is Custom || (i < contexts@.len() && usable(contexts@[i as int].state.status))),   // #built_in_strategies_pick_a_usable_resource [C18]
            (!(self is Custom) && r is None) ==> forall|j: int| 0 <= j < contexts@.len() ==> !usable((#[trigger] contexts@[j]).state.status),   // #built_in_strategies_find_a_usable_resource_if_there_is_one [C18]
            (self is PreferHealthy && r is Some && exists|j: int| 0 <= j < contexts@.len() && (#[trigger] contexts@[j]).state.status == HealthStatus::Healthy)
                ==> contexts@[r->0 as int].state.status == HealthStatus::Healthy,   // #prefer_healthy_prefers_healthy [C18]
    //@body SelectionStrategy::select file=selector
}
impl<T: VClone> HealthCheckWrapper<T> {
    pub fn get_with_filter<F: Fn(HealthStatus) -> bool>(&self, filter: F) -> (r: Option<T>)
        requires forall|s: HealthStatus| call_requires(filter, (s,)),
        ensures
            // the returned resource is one of the monitored resources whose currently published status passes the filter
            r matches Some(t) ==> exists|c: HealthCheckedContext<T>| #![trigger c.context] c.context == t && call_ensures(filter, (c.state.status,), true),   // #returns_only_a_resource_whose_published_status_passes_the_filter [C18]
    //@body HealthCheckWrapper::get_with_filter file=wrapper

    pub fn get_healthy(&self) -> (r: Option<T>)
        ensures r matches Some(t) ==> exists|c: HealthCheckedContext<T>| #![trigger c.context] c.context == t && c.state.status == HealthStatus::Healthy,   // #get_healthy_returns_only_a_resource_published_healthy [C18]
    //@body HealthCheckWrapper::get_healthy file=wrapper

    pub fn get_usable(&self) -> (r: Option<T>)
        ensures r matches Some(t) ==> exists|c: HealthCheckedContext<T>| #![trigger c.context] c.context == t && usable(c.state.status),   // #get_usable_returns_only_a_healthy_or_degraded_resource [C18]
    //@body HealthCheckWrapper::get_usable file=wrapper
}
fn main() {}
}
