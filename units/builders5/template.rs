#![feature(allocator_api)]
#![allow(unused)]
use vstd::prelude::*;
use vstd::std_specs::cmp::*;
use core::cmp::Ordering as CmpOrdering;
use std::sync::Arc;
verus! {
// ---- unit prelude (ASSUMED): opaque values for everything a builder merely stores ----
//@include time.rs
pub struct Name { pub id: Ghost<int> }
pub struct EventListeners { pub n: Ghost<nat> }
impl EventListeners {
    #[verifier::external_body] pub fn new() -> (r: Self) ensures r.n@ == 0 { unimplemented!() }
    #[verifier::external_body] pub fn add<L>(&mut self, l: L) ensures final(self).n@ == old(self).n@ + 1 { unimplemented!() }
}
pub struct Listener { pub id: Ghost<int> }
#[verifier::external_body] pub fn vx_wrap<T>() -> (r: T) { unimplemented!() }
/// `Arc::new(x)` of a user closure / object handed to a setter: the stored value is a function of x alone (so "the first one wins" or
/// "ignored" is visible), nothing else is known about it
pub uninterp spec fn wrapped<A, T>(a: A) -> T;
#[verifier::external_body] pub fn vx_wrap_of<A, T>(a: A) -> (r: T) ensures r == wrapped::<A, T>(a) { unimplemented!() }

// ===== health check (C18) =====
#[derive(Clone, Copy, PartialEq, Eq, Structural)]
pub struct SelectionStrategy { pub id: u8 }
impl SelectionStrategy { #[verifier::external_body] pub fn default() -> (r: Self) { unimplemented!() } }
pub struct HealthCheckConfig { pub interval: Duration, pub initial_delay: Duration, pub timeout: Duration, pub success_threshold: u32, pub failure_threshold: u32, pub selection_strategy: SelectionStrategy }
impl HealthCheckConfig {
    pub fn default() -> (r: Self)
        ensures r.success_threshold >= 1 && r.failure_threshold >= 1 && r.timeout.nanos > 0 && r.interval.nanos > 0,   // #default_thresholds_and_periods_are_positive [C18]
    //@body HealthCheckConfig::default@Default
    pub fn success_threshold(&self) -> (r: u32)
        ensures r == self.success_threshold,   // #reports_the_configured_threshold [C18]
    //@body HealthCheckConfig::success_threshold
    pub fn failure_threshold(&self) -> (r: u32)
        ensures r == self.failure_threshold,   // #reports_the_configured_threshold [C18]
    //@body HealthCheckConfig::failure_threshold
    pub fn timeout(&self) -> (r: Duration)
        ensures r == self.timeout,   // #reports_the_configured_timeout [C18]
    //@body HealthCheckConfig::timeout
}
pub struct HealthCheckConfigBuilder { pub interval: Option<Duration>, pub initial_delay: Option<Duration>, pub timeout: Option<Duration>, pub success_threshold: Option<u32>, pub failure_threshold: Option<u32>, pub selection_strategy: Option<SelectionStrategy> }
impl HealthCheckConfigBuilder {
    pub fn default() -> (r: Self)
        ensures r.interval is None && r.initial_delay is None && r.timeout is None && r.success_threshold is None && r.failure_threshold is None && r.selection_strategy is None,   // #starts_with_nothing_set [C18]
    //@body HealthCheckConfigBuilder::default@Default
    pub fn interval(self, interval: Duration) -> (r: Self)
        ensures r.interval == Some(interval),   // #sets_interval [C18]
            r.initial_delay == self.initial_delay && r.timeout == self.timeout && r.success_threshold == self.success_threshold && r.failure_threshold == self.failure_threshold && r.selection_strategy == self.selection_strategy,   // #keeps_every_other_setting [C18]
    //@body HealthCheckConfigBuilder::interval
    pub fn initial_delay(self, delay: Duration) -> (r: Self)
        ensures r.initial_delay == Some(delay),   // #sets_initial_delay [C18]
            r.interval == self.interval && r.timeout == self.timeout && r.success_threshold == self.success_threshold && r.failure_threshold == self.failure_threshold && r.selection_strategy == self.selection_strategy,   // #keeps_every_other_setting [C18]
    //@body HealthCheckConfigBuilder::initial_delay
    pub fn timeout(self, timeout: Duration) -> (r: Self)
        ensures r.timeout == Some(timeout),   // #sets_timeout [C18]
            r.interval == self.interval && r.initial_delay == self.initial_delay && r.success_threshold == self.success_threshold && r.failure_threshold == self.failure_threshold && r.selection_strategy == self.selection_strategy,   // #keeps_every_other_setting [C18]
    //@body HealthCheckConfigBuilder::timeout
    pub fn success_threshold(self, threshold: u32) -> (r: Self)
        ensures r.success_threshold == Some(threshold),   // #sets_success_threshold [C18]
            r.interval == self.interval && r.initial_delay == self.initial_delay && r.timeout == self.timeout && r.failure_threshold == self.failure_threshold && r.selection_strategy == self.selection_strategy,   // #keeps_every_other_setting [C18]
    //@body HealthCheckConfigBuilder::success_threshold
    pub fn failure_threshold(self, threshold: u32) -> (r: Self)
        ensures r.failure_threshold == Some(threshold),   // #sets_failure_threshold [C18]
            r.interval == self.interval && r.initial_delay == self.initial_delay && r.timeout == self.timeout && r.success_threshold == self.success_threshold && r.selection_strategy == self.selection_strategy,   // #keeps_every_other_setting [C18]
    //@body HealthCheckConfigBuilder::failure_threshold
    pub fn selection_strategy(self, strategy: SelectionStrategy) -> (r: Self)
        ensures r.selection_strategy == Some(strategy),   // #sets_selection_strategy [C18]
            r.interval == self.interval && r.initial_delay == self.initial_delay && r.timeout == self.timeout && r.success_threshold == self.success_threshold && r.failure_threshold == self.failure_threshold,   // #keeps_every_other_setting [C18]
    //@body HealthCheckConfigBuilder::selection_strategy
    pub fn build(self) -> (r: HealthCheckConfig)
        ensures
            self.success_threshold is Some ==> r.success_threshold == self.success_threshold->0,   // #success_threshold_is_exactly_what_was_set [C18]
            self.failure_threshold is Some ==> r.failure_threshold == self.failure_threshold->0,   // #failure_threshold_is_exactly_what_was_set [C18]
            self.timeout is Some ==> r.timeout == self.timeout->0,   // #check_timeout_is_exactly_what_was_set [C18]
            self.interval is Some ==> r.interval == self.interval->0,   // #interval_is_exactly_what_was_set [C18]
            self.initial_delay is Some ==> r.initial_delay == self.initial_delay->0,   // #initial_delay_is_exactly_what_was_set [C18]
            self.selection_strategy is Some ==> r.selection_strategy == self.selection_strategy->0,   // #strategy_is_exactly_what_was_set [C18]
            self.success_threshold is None ==> r.success_threshold >= 1,   // #unset_thresholds_fall_back_to_positive_defaults [C18]
            self.failure_threshold is None ==> r.failure_threshold >= 1,   // #unset_thresholds_fall_back_to_positive_defaults [C18]
    //@body HealthCheckConfigBuilder::build
}

// ===== cache (C10) =====
#[derive(Clone, Copy, PartialEq, Eq, Structural)]
pub enum EvictionPolicy { Lru, Lfu, Fifo }
impl EvictionPolicy {
    /// #[derive(Default)] with #[default] on Lru (the variant list is shape-checked against /repo)
    #[verifier::external_body] pub fn default() -> (r: Self) { unimplemented!() }
}
pub struct KeyExtractor { pub id: Ghost<int> }
pub struct CacheConfig { pub max_size: usize, pub ttl: Option<Duration>, pub eviction_policy: EvictionPolicy, pub key_extractor: KeyExtractor, pub event_listeners: EventListeners, pub name: Name }
pub struct CacheLayer { pub config: Arc<CacheConfig> }
impl CacheLayer {
    pub fn new(config: CacheConfig) -> (r: Self)
        ensures *r.config == config,   // #layer_keeps_the_configuration [C10]
    //@body CacheLayer::new file=calayer
}
pub struct CacheConfigBuilder { pub max_size: usize, pub ttl: Option<Duration>, pub eviction_policy: EvictionPolicy, pub key_extractor: Option<KeyExtractor>, pub event_listeners: EventListeners, pub name: Name }
impl CacheConfigBuilder {
    pub fn new() -> (r: Self)
        ensures r.max_size >= 1 && r.ttl is None && r.key_extractor is None && r.event_listeners.n@ == 0,   // #defaults_bounded_without_ttl [C10]
    //@body CacheConfigBuilder::new
    pub fn default() -> (r: Self)
        ensures r.max_size >= 1 && r.ttl is None && r.key_extractor is None && r.event_listeners.n@ == 0,   // #defaults_bounded_without_ttl [C10]
    //@body CacheConfigBuilder::default@Default
    pub fn max_size(self, size: usize) -> (r: Self)
        ensures r.max_size == size,   // #sets_max_size [C10]
            r.ttl == self.ttl && r.eviction_policy == self.eviction_policy && r.key_extractor == self.key_extractor && r.event_listeners == self.event_listeners && r.name == self.name,   // #keeps_every_other_setting [C10]
    //@body CacheConfigBuilder::max_size
    pub fn ttl(self, ttl: Duration) -> (r: Self)
        ensures r.ttl == Some(ttl),   // #sets_ttl [C10]
            r.max_size == self.max_size && r.eviction_policy == self.eviction_policy && r.key_extractor == self.key_extractor && r.event_listeners == self.event_listeners && r.name == self.name,   // #keeps_every_other_setting [C10]
    //@body CacheConfigBuilder::ttl
    pub fn eviction_policy(self, policy: EvictionPolicy) -> (r: Self)
        ensures r.eviction_policy == policy,   // #sets_eviction_policy [C10]
            r.max_size == self.max_size && r.ttl == self.ttl && r.key_extractor == self.key_extractor && r.event_listeners == self.event_listeners && r.name == self.name,   // #keeps_every_other_setting [C10]
    //@body CacheConfigBuilder::eviction_policy
    pub fn key_extractor<F>(self, f: F) -> (r: Self)
        ensures r.key_extractor == Some(wrapped::<F, KeyExtractor>(f)),   // #the_key_extractor_in_force_is_the_one_given_last [C10]
            r.max_size == self.max_size && r.ttl == self.ttl && r.eviction_policy == self.eviction_policy && r.event_listeners == self.event_listeners && r.name == self.name,   // #keeps_every_other_setting [C10]
    //@body CacheConfigBuilder::key_extractor
    pub fn name(self, name: Name) -> (r: Self)
        ensures r.max_size == self.max_size && r.ttl == self.ttl && r.eviction_policy == self.eviction_policy && r.key_extractor == self.key_extractor && r.event_listeners == self.event_listeners,   // #keeps_every_other_setting [C10]
    //@body CacheConfigBuilder::name
    pub fn on_hit<F>(self, f: F) -> (r: Self)
        ensures r.max_size == self.max_size && r.ttl == self.ttl && r.eviction_policy == self.eviction_policy && r.key_extractor == self.key_extractor && r.name == self.name,   // #listener_registration_keeps_every_setting [C10]
    //@body CacheConfigBuilder::on_hit
    pub fn on_miss<F>(self, f: F) -> (r: Self)
        ensures r.max_size == self.max_size && r.ttl == self.ttl && r.eviction_policy == self.eviction_policy && r.key_extractor == self.key_extractor && r.name == self.name,   // #listener_registration_keeps_every_setting [C10]
    //@body CacheConfigBuilder::on_miss
    pub fn on_eviction<F>(self, f: F) -> (r: Self)
        ensures r.max_size == self.max_size && r.ttl == self.ttl && r.eviction_policy == self.eviction_policy && r.key_extractor == self.key_extractor && r.name == self.name,   // #listener_registration_keeps_every_setting [C10]
    //@body CacheConfigBuilder::on_eviction
    pub fn build(self) -> (r: CacheLayer)
        requires self.key_extractor is Some,   // build() panics otherwise ("key_extractor must be set before building")
        ensures r.config.max_size == self.max_size && r.config.ttl == self.ttl && r.config.eviction_policy == self.eviction_policy,   // #bound_ttl_and_policy_are_exactly_what_was_set [C10]
            r.config.key_extractor == self.key_extractor->0 && r.config.event_listeners == self.event_listeners && r.config.name == self.name,   // #extractor_listeners_and_name_are_exactly_what_was_set [C10]
    //@body CacheConfigBuilder::build
}

// ===== shared cache layer builder (C10) =====
pub struct SharedCacheLayer { pub config: CacheConfig }
impl SharedCacheLayer {
    /// contract of the real constructor, proved in unit `cache` (the shared store is built from exactly this configuration)
    #[verifier::external_body] pub fn new(config: CacheConfig) -> (r: Self) ensures r.config == config { unimplemented!() }
}
pub struct SharedCacheConfigBuilder { pub max_size: usize, pub ttl: Option<Duration>, pub eviction_policy: EvictionPolicy, pub key_extractor: Option<KeyExtractor>, pub event_listeners: EventListeners, pub name: Name }
impl SharedCacheConfigBuilder {
    pub fn new() -> (r: Self)
        ensures r.max_size >= 1 && r.ttl is None && r.key_extractor is None && r.event_listeners.n@ == 0,   // #defaults_bounded_without_ttl [C10]
    //@body SharedCacheConfigBuilder::new file=cashared
    pub fn default() -> (r: Self)
        ensures r.max_size >= 1 && r.ttl is None && r.key_extractor is None && r.event_listeners.n@ == 0,   // #defaults_bounded_without_ttl [C10]
    //@body SharedCacheConfigBuilder::default@Default file=cashared
    pub fn max_size(self, size: usize) -> (r: Self)
        ensures r.max_size == size,   // #sets_max_size [C10]
            r.ttl == self.ttl && r.eviction_policy == self.eviction_policy && r.key_extractor == self.key_extractor && r.event_listeners == self.event_listeners && r.name == self.name,   // #keeps_every_other_setting [C10]
    //@body SharedCacheConfigBuilder::max_size file=cashared
    pub fn ttl(self, ttl: Duration) -> (r: Self)
        ensures r.ttl == Some(ttl),   // #sets_ttl [C10]
            r.max_size == self.max_size && r.eviction_policy == self.eviction_policy && r.key_extractor == self.key_extractor && r.event_listeners == self.event_listeners && r.name == self.name,   // #keeps_every_other_setting [C10]
    //@body SharedCacheConfigBuilder::ttl file=cashared
    pub fn eviction_policy(self, policy: EvictionPolicy) -> (r: Self)
        ensures r.eviction_policy == policy,   // #sets_eviction_policy [C10]
            r.max_size == self.max_size && r.ttl == self.ttl && r.key_extractor == self.key_extractor && r.event_listeners == self.event_listeners && r.name == self.name,   // #keeps_every_other_setting [C10]
    //@body SharedCacheConfigBuilder::eviction_policy file=cashared
    pub fn key_extractor<F>(self, f: F) -> (r: Self)
        ensures r.key_extractor == Some(wrapped::<F, KeyExtractor>(f)),   // #the_key_extractor_in_force_is_the_one_given_last [C10]
            r.max_size == self.max_size && r.ttl == self.ttl && r.eviction_policy == self.eviction_policy && r.event_listeners == self.event_listeners && r.name == self.name,   // #keeps_every_other_setting [C10]
    //@body SharedCacheConfigBuilder::key_extractor file=cashared
    pub fn name(self, name: Name) -> (r: Self)
        ensures r.max_size == self.max_size && r.ttl == self.ttl && r.eviction_policy == self.eviction_policy && r.key_extractor == self.key_extractor && r.event_listeners == self.event_listeners,   // #keeps_every_other_setting [C10]
    //@body SharedCacheConfigBuilder::name file=cashared
    pub fn on_hit<F>(self, f: F) -> (r: Self)
        ensures r.max_size == self.max_size && r.ttl == self.ttl && r.eviction_policy == self.eviction_policy && r.key_extractor == self.key_extractor && r.name == self.name,   // #listener_registration_keeps_every_setting [C10]
    //@body SharedCacheConfigBuilder::on_hit file=cashared
    pub fn on_miss<F>(self, f: F) -> (r: Self)
        ensures r.max_size == self.max_size && r.ttl == self.ttl && r.eviction_policy == self.eviction_policy && r.key_extractor == self.key_extractor && r.name == self.name,   // #listener_registration_keeps_every_setting [C10]
    //@body SharedCacheConfigBuilder::on_miss file=cashared
    pub fn on_eviction<F>(self, f: F) -> (r: Self)
        ensures r.max_size == self.max_size && r.ttl == self.ttl && r.eviction_policy == self.eviction_policy && r.key_extractor == self.key_extractor && r.name == self.name,   // #listener_registration_keeps_every_setting [C10]
    //@body SharedCacheConfigBuilder::on_eviction file=cashared
    pub fn build(self) -> (r: SharedCacheLayer)
        requires self.key_extractor is Some,   // build() panics otherwise
        ensures r.config.max_size == self.max_size && r.config.ttl == self.ttl && r.config.eviction_policy == self.eviction_policy,   // #bound_ttl_and_policy_are_exactly_what_was_set [C10]
            r.config.key_extractor == self.key_extractor->0 && r.config.event_listeners == self.event_listeners && r.config.name == self.name,   // #extractor_listeners_and_name_are_exactly_what_was_set [C10]
    //@body SharedCacheConfigBuilder::build file=cashared
}
fn main() {}
}
