HC = "crates/tower-resilience-healthcheck/src/"
CA = "crates/tower-resilience-cache/src/"
MUT = [("sub", "R16-mut-self", r"\bself\b", "self_", -1), ("inject", None, "start", "let mut self_ = self;")]
LISTEN = ("wrapcalls", "R6-closure-wrap", r"FnListener::new", "vx_wrap::<Listener>()", 1)
WRAP = ("wrapcalls", "R6-closure-wrap", r"Arc::new", "vx_wrap()", 1)
WRAPID = ("wrapcalls", "R6-closure-wrap", r"Arc::new", "vx_wrap_of({args})", 1)
def setter(file, *extra):
    return dict(file=file, rules=MUT + list(extra))
UNIT = dict(
    serves=["C18", "C10"],
    files={"hcconfig": HC + "config.rs", "caconfig": CA + "config.rs", "calayer": CA + "layer.rs", "evict": CA + "eviction.rs", "cashared": CA + "shared_layer.rs"},
    default_file="hcconfig",
    rules=[("R1", ["triggers"])],
    extra_params=[],
    fns={
        "HealthCheckConfig::default@Default": dict(),
        "HealthCheckConfig::success_threshold": dict(),
        "HealthCheckConfig::failure_threshold": dict(),
        "HealthCheckConfig::timeout": dict(),
        "HealthCheckConfigBuilder::default@Default": dict(),
        "HealthCheckConfigBuilder::interval": setter("hcconfig"),
        "HealthCheckConfigBuilder::initial_delay": setter("hcconfig"),
        "HealthCheckConfigBuilder::timeout": setter("hcconfig"),
        "HealthCheckConfigBuilder::success_threshold": setter("hcconfig"),
        "HealthCheckConfigBuilder::failure_threshold": setter("hcconfig"),
        "HealthCheckConfigBuilder::selection_strategy": setter("hcconfig"),
        "HealthCheckConfigBuilder::build": dict(),
        "CacheLayer::new": dict(file="calayer"),
        "CacheConfigBuilder::new": dict(file="caconfig", rules=[("sub", "R6-name", r"String::from\(\"[^\"]*\"\)", "vx_wrap()", 1)]),
        "CacheConfigBuilder::default@Default": dict(file="caconfig"),
        "CacheConfigBuilder::max_size": setter("caconfig"),
        "CacheConfigBuilder::ttl": setter("caconfig"),
        "CacheConfigBuilder::eviction_policy": setter("caconfig"),
        "CacheConfigBuilder::key_extractor": setter("caconfig", WRAPID),
        "CacheConfigBuilder::name": setter("caconfig", ("sub", "R6-into", r"\bname\.into\(\)", "name", 1)),
        "CacheConfigBuilder::on_hit": setter("caconfig", LISTEN),
        "CacheConfigBuilder::on_miss": setter("caconfig", LISTEN),
        "CacheConfigBuilder::on_eviction": setter("caconfig", LISTEN),
        "SharedCacheConfigBuilder::new": dict(file="cashared", rules=[("sub", "R6-name", r"String::from\(\"[^\"]*\"\)", "vx_wrap()", 1), ("sub", "R16-phantom", r"_resp: std::marker::PhantomData,", "", 1)]),
        "SharedCacheConfigBuilder::default@Default": dict(file="cashared"),
        "SharedCacheConfigBuilder::max_size": setter("cashared"),
        "SharedCacheConfigBuilder::ttl": setter("cashared"),
        "SharedCacheConfigBuilder::eviction_policy": setter("cashared"),
        "SharedCacheConfigBuilder::key_extractor": setter("cashared", WRAPID),
        "SharedCacheConfigBuilder::name": setter("cashared", ("sub", "R6-into", r"\bname\.into\(\)", "name", 1)),
        "SharedCacheConfigBuilder::on_hit": setter("cashared", LISTEN),
        "SharedCacheConfigBuilder::on_miss": setter("cashared", LISTEN),
        "SharedCacheConfigBuilder::on_eviction": setter("cashared", LISTEN),
        "SharedCacheConfigBuilder::build": dict(file="cashared", rules=[("sub", "expect", r"\.expect\(\"[^\"]*\"\)", ".unwrap()", 1)]),
        "CacheConfigBuilder::build": dict(file="caconfig", rules=[
            ("sub", "expect", r"\.expect\(\"[^\"]*\"\)", ".unwrap()", 1),
            ("sub", "R9-paths", r"crate::CacheLayer", "CacheLayer", -1),
        ]),
    },
    types=[
        ("struct", "HealthCheckConfig", "hcconfig", {"drop": ["on_health_change", "on_check_failed", "triggers"]}),
        ("struct", "HealthCheckConfigBuilder", "hcconfig", {"drop": ["on_health_change", "on_check_failed", "triggers"]}),
        ("struct", "CacheConfig", "caconfig"), ("struct", "CacheConfigBuilder", "caconfig"), ("enum", "EvictionPolicy", "evict"), ("struct", "CacheLayer", "calayer"), ("struct", "SharedCacheConfigBuilder", "cashared", {"drop": ["_resp"]}),
    ],
)
