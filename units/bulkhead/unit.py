BH = "crates/tower-resilience-bulkhead/src/"
TR = "Tracked(tr)"
UNIT = dict(
    serves=["C01", "C07", "C20"],
    files={"service": BH + "service.rs", "error": BH + "error.rs", "config": BH + "config.rs"},
    default_file="service",
    verus_flags=["--no-erasure-check"],
    rules=[("R1",), ("R2",)],
    extra_params=["clk", "tr"],
    fns={
        "BulkheadServiceError::from@From": dict(file="error"),
        "Bulkhead::new": dict(),
        "Bulkhead::poll_ready@Service": dict(rules=[("R10p", "BulkheadServiceError::Inner")]),
        # C07 quantifies over ALL max_wait settings: a possible panic / overflow on the admission path (e.g. `Instant::now() + max_wait`)
        # means some caller is neither admitted nor rejected by the timeout
        "Bulkhead::call@Service": dict(safety_tags=["C07"], rules=[
            ("sub", "R9-paths", r"tokio::time::Instant\b", "Instant", -1),
            ("R4",), ("R3",), ("R5",),
            ("sub", "R9-paths", r"tokio::time::(timeout(?:_at)?)\b", r"\1", -1),
            ("addarg", ["timeout_at"], "&*clk", -1),
            ("addarg", ["call"], TR, 1),
            ("addarg", ["drop"], TR, 1),
            ("R10e", 1),
        ]),
    },
    derive_clone={"Bulkhead": "service"},
    types=[
        ("enum", "BulkheadError", "error"),
        ("enum", "BulkheadServiceError", "error"),
        ("struct", "BulkheadConfig", "config", {"drop": ["name", "event_listeners"]}),
        ("struct", "Bulkhead", "service"),
    ],
    frame=[
        # a breach contradicts the mechanism directly (the semaphore no longer has exactly max_concurrent_calls permits): reported as a violation
        dict(name="semaphore_never_closed_or_resized", tags=["C01", "C07"], pattern=r"\.\s*(close|add_permits|forget_permits|forget)\s*\(",
             glob=BH + "**/*.rs", only_in=[], min_hits=0, violation=True),
    ],
)
