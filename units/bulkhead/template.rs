#![feature(allocator_api)]
#![allow(unused)]
use vstd::prelude::*;
use vstd::std_specs::cmp::*;
use core::cmp::Ordering as CmpOrdering;
use std::sync::Arc;
verus! {
//@include time.rs
//@include trace.rs LEDGER_TAGS=[C07]
/// C01: the inner call is made, and the inner future runs, only while this task holds a permit
pub open spec fn call_gate<Req, Res, E>(tr: Trace<Req, Res, E>) -> bool { tr.held.len() > 0 && tr.created }
pub open spec fn await_gate<Req, Res, E>(tr: Trace<Req, Res, E>) -> bool { tr.held.len() > 0 }
//@include inner.rs GATE_TAGS=[C01] LEDGER_TAGS=[C07]
//@include tokio_sem.rs LEDGER_TAGS=[C07] SEM_TAGS=[C07]

// ---- types of /repo (shape-checked) ----
pub enum BulkheadError { BulkheadFull { max_concurrent_calls: usize }, Timeout }
pub enum BulkheadServiceError<E> { Bulkhead(BulkheadError), Inner(E) }
impl<E> vstd::std_specs::convert::FromSpecImpl<BulkheadError> for BulkheadServiceError<E> {
    open spec fn obeys_from_spec() -> bool { true }
    open spec fn from_spec(e: BulkheadError) -> Self { BulkheadServiceError::Bulkhead(e) }
}
impl<E> From<BulkheadError> for BulkheadServiceError<E> {
    //@notwin
    fn from(err: BulkheadError) -> (r: Self)
        ensures r == BulkheadServiceError::<E>::Bulkhead(err),   // #from_wraps_bulkhead_error [C07]
    //@body BulkheadServiceError::from@From file=error
}
pub struct BulkheadConfig { pub max_concurrent_calls: usize, pub max_wait_duration: Option<Duration> }
pub struct Bulkhead<Req, Res, E> { pub inner: Inner<Req, Res, E>, pub semaphore: Arc<Semaphore>, pub config: Arc<BulkheadConfig> }

pub open spec fn has_timed_out<Req, Res, E>(ev: Seq<Ev<Req, Res, E>>) -> bool { exists|i: int| 0 <= i < ev.len() && (#[trigger] ev[i]) is TimedOut }

impl<Req, Res, E> Bulkhead<Req, Res, E> {
    /// the semaphore all clones share is sized by the configured maximum
    pub open spec fn wf(&self) -> bool { self.semaphore.n == self.config.max_concurrent_calls }

    pub fn new(inner: Inner<Req, Res, E>, config: BulkheadConfig) -> (r: Self)
        ensures
            r.wf(),   // #semaphore_sized_by_max_concurrent_calls [C01,C07]
            *r.config == config && r.inner == inner,   // #keeps_config_and_inner [C01,C20]
    //@body Bulkhead::new

    pub fn clone(&self) -> (r: Self)
        ensures
            r.semaphore.id == self.semaphore.id && r.semaphore.n == self.semaphore.n,   // #clones_share_the_semaphore [C01,C07]
            r.config == self.config,   // #clones_share_the_config [C01]
    //@derive_clone Bulkhead

    pub fn poll_ready(&mut self, cx: &mut Context) -> (r: Poll<Result<(), BulkheadServiceError<E>>>)
        ensures
            (r matches Poll::Ready(Ok(_))) ==> final(self).inner.ready@,   // #ready_only_when_inner_ready [C20]
            r matches Poll::Ready(Err(e)) ==> e is Inner,   // #readiness_errors_surface_as_inner [C20]
            final(self).semaphore == old(self).semaphore && final(self).config == old(self).config,   // #readiness_never_replaces_the_semaphore_or_the_configuration [C01,C07]
    //@body Bulkhead::poll_ready@Service

    pub fn call(&mut self, request: Req, clk: &mut Clock, Tracked(tr): Tracked<&mut Trace<Req, Res, E>>) -> (result: Result<Res, BulkheadServiceError<E>>)
        requires
            old(tr).fresh(), old(self).wf(),
            old(self).inner.ready@,   // Tower contract: the caller observed readiness
        ensures
            final(tr).calls <= 1,   // #at_most_one_inner_call [C20]
            (result matches Err(BulkheadServiceError::Bulkhead(_))) ==> final(tr).calls == 0,   // #rejected_never_reaches_inner [C07]
            forall|i: int| 0 <= i < final(tr).ev.len() ==> ((#[trigger] final(tr).ev[i]) matches Ev::TimedOut(d) ==> old(self).config.max_wait_duration == Some(d)),   // #timer_gets_max_wait_duration [C07]
            (result matches Err(BulkheadServiceError::Bulkhead(BulkheadError::Timeout))) <==> has_timed_out(final(tr).ev),   // #timeout_error_iff_timer_fired [C07]
            (result matches Err(BulkheadServiceError::Bulkhead(BulkheadError::BulkheadFull { .. }))) ==> final(tr).ev.last() is AcquireClosed,   // #full_only_when_semaphore_closed [C07]
            old(self).config.max_wait_duration matches Some(d) ==> final(tr).timer == Some(d),   // #with_a_wait_limit_the_permit_is_always_awaited_under_a_timer_of_that_duration [C07]
            old(self).config.max_wait_duration is None ==> final(tr).timer is None,   // #without_a_wait_limit_no_timer_is_armed [C07]
            final(tr).slept == 0,   // #nothing_but_the_semaphore_gates_admission [C07]
            final(tr).calls == 1 ==> final(tr).last_req == Some(request),   // #request_forwarded_unchanged [C20]
            result matches Ok(v) ==> final(tr).calls == 1 && final(tr).done == 1 && final(tr).last_done == Some(Ok::<Res, E>(v)),   // #response_returned_unchanged [C20]
            result matches Err(BulkheadServiceError::Inner(e)) ==> final(tr).calls == 1 && final(tr).done == 1 && final(tr).last_done == Some(Err::<Res, E>(e)),   // #inner_error_returned_unchanged [C20]
            final(self).semaphore == old(self).semaphore && final(self).config == old(self).config,   // #keeps_semaphore_and_config [C01,C07]
    //@body Bulkhead::call@Service
}
fn main() {}
}
