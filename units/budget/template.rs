#![feature(allocator_api)]
#![allow(unused)]
use vstd::prelude::*;
use std::sync::Arc;
use vstd::atomic_ghost::*;
verus! {
// ---- unit prelude ----
// R7: std atomics become vstd atomic_ghost atomics carrying ghost accounting; Ordering arguments are
// dropped (Verus atomics are sequentially consistent; every invariant below is single-location).
pub struct GB { pub granted: nat, pub deposited: nat }
pub uninterp spec fn f64_unit(x: f64) -> bool;   // 0.0 <= x <= 1.0
/// float leaf (R14): `(current as f64 * decrease_factor) as usize`; contract proved by Kani leaf `aimd_scale`
#[verifier::external_body]
fn vx_leaf_decreased(current: usize, decrease_factor: f64) -> (r: usize)
    ensures f64_unit(decrease_factor) && current <= 0x20_0000_0000_0000 ==> r <= current,
{ unimplemented!() }

// ---- types of /repo (shape-checked); ghost fields added ----
pub struct AimdConfig { pub initial_limit: usize, pub min_limit: usize, pub max_limit: usize, pub increase_by: usize, pub decrease_factor: f64 }
impl AimdConfig {
    /// #[derive(Clone)]
    #[verifier::external_body] pub fn clone(&self) -> (r: Self) ensures r == *self { unimplemented!() }
    pub fn default() -> (r: Self)
        ensures r.min_limit <= r.max_limit && r.min_limit >= 1,   // #default_bounds_are_ordered [C13]
    //@body AimdConfig::default@Default file=aimd
    pub fn new() -> (r: Self)
        ensures r.min_limit <= r.max_limit && r.min_limit >= 1,   // #default_bounds_are_ordered [C13]
    //@body AimdConfig::new file=aimd
    pub fn with_initial_limit(self, limit: usize) -> (r: Self)
        ensures r.initial_limit == limit,   // #sets_initial_limit [C13,C08]
            r.min_limit == self.min_limit && r.max_limit == self.max_limit && r.increase_by == self.increase_by && r.decrease_factor == self.decrease_factor,   // #keeps_every_other_setting [C13,C08]
    //@body AimdConfig::with_initial_limit file=aimd
    pub fn with_min_limit(self, limit: usize) -> (r: Self)
        ensures r.min_limit == limit,   // #sets_min_limit [C13,C08]
            r.initial_limit == self.initial_limit && r.max_limit == self.max_limit && r.increase_by == self.increase_by && r.decrease_factor == self.decrease_factor,   // #keeps_every_other_setting [C13,C08]
    //@body AimdConfig::with_min_limit file=aimd
    pub fn with_max_limit(self, limit: usize) -> (r: Self)
        ensures r.max_limit == limit,   // #sets_max_limit [C13,C08]
            r.initial_limit == self.initial_limit && r.min_limit == self.min_limit && r.increase_by == self.increase_by && r.decrease_factor == self.decrease_factor,   // #keeps_every_other_setting [C13,C08]
    //@body AimdConfig::with_max_limit file=aimd
    pub fn with_increase_by(self, amount: usize) -> (r: Self)
        ensures r.increase_by == amount,   // #sets_increase_by [C13,C08]
            r.initial_limit == self.initial_limit && r.min_limit == self.min_limit && r.max_limit == self.max_limit && r.decrease_factor == self.decrease_factor,   // #keeps_every_other_setting [C13,C08]
    //@body AimdConfig::with_increase_by file=aimd
    pub fn with_decrease_factor(self, factor: f64) -> (r: Self)
        ensures r.decrease_factor == factor,   // #sets_decrease_factor [C13,C08]
            r.initial_limit == self.initial_limit && r.min_limit == self.min_limit && r.max_limit == self.max_limit && r.increase_by == self.increase_by,   // #keeps_every_other_setting [C13,C08]
    //@body AimdConfig::with_decrease_factor file=aimd
}
struct_with_invariants!{
    pub struct AimdController {
        pub limit: AtomicUsize<_, (), _>,
        pub config: AimdConfig,
    }
    /// C13/C08: the limit stays within [min_limit, max_limit] at every atomic step
    pub open spec fn wf(&self) -> bool {
        predicate { self.config.min_limit <= self.config.max_limit && self.config.max_limit <= 0x20_0000_0000_0000 && f64_unit(self.config.decrease_factor) }
        invariant on limit with (config) is (v: usize, g: ()) {
            config.min_limit <= v && v <= config.max_limit
        }
    }
}
struct_with_invariants!{
    pub struct TokenBucketBudget {
        pub tokens: AtomicU64<_, GB, _>,
        pub max_tokens: u64,
        pub initial: Ghost<nat>,
    }
    /// C08: granted x cost + balance <= initial + deposits x amount, balance <= max, at every atomic step
    pub open spec fn wf(&self) -> bool {
        predicate { self.max_tokens <= u64::MAX - 1000 }
        invariant on tokens with (max_tokens, initial) is (v: u64, g: GB) {
            v as nat + g.granted * 1000 <= initial@ + g.deposited * 1000 && v <= max_tokens
        }
    }
}
struct_with_invariants!{
    pub struct AimdBudget {
        pub tokens: AtomicU64<_, GB, _>,
        pub limit_controller: AimdController,
        pub deposit_amount: u64,
        pub withdraw_amount: u64,
        pub initial: Ghost<nat>,
    }
    pub open spec fn wf(&self) -> bool {
        predicate { self.limit_controller.wf() }
        invariant on tokens with (limit_controller, deposit_amount, withdraw_amount, initial) is (v: u64, g: GB) {
            v as nat + g.granted * withdraw_amount as nat <= initial@ + g.deposited * deposit_amount as nat && v <= limit_controller.config.max_limit
        }
    }
}

pub struct Duration { pub nanos: u128 }
/// float leaves of Vegas (R14): any value is acceptable, the clamp that follows is what keeps the bounds
#[verifier::external_body]
fn vx_leaf_queue_estimate(smoothed_rtt: u64, min_rtt: u64, current_limit: usize) -> (r: usize) { unimplemented!() }
struct_with_invariants!{
    pub struct Vegas {
        pub limit: AtomicUsize<_, (), _>,
        pub min_limit: usize,
        pub max_limit: usize,
        pub min_rtt_nanos: AtomicU64<_, (), _>,
        pub alpha: usize,
        pub beta: usize,
        pub smoothing: f64,
        pub smoothed_rtt_nanos: AtomicU64<_, (), _>,
        pub sample_count: AtomicUsize<_, (), _>,
        pub min_samples: usize,
    }
    /// C13: the Vegas limit stays within [min_limit, max_limit] at every atomic step
    pub open spec fn wf(&self) -> bool {
        predicate { self.min_limit <= self.max_limit && self.max_limit < usize::MAX }
        invariant on limit with (min_limit, max_limit) is (v: usize, g: ()) { min_limit <= v && v <= max_limit }
        invariant on min_rtt_nanos is (v: u64, g: ()) { true }
        invariant on smoothed_rtt_nanos is (v: u64, g: ()) { true }
        invariant on sample_count is (v: usize, g: ()) { true }
    }
}
pub struct Aimd { pub controller: AimdController, pub latency_threshold: Duration }

impl Vegas {
    pub fn new(initial_limit: usize, min_limit: usize, max_limit: usize, alpha: usize, beta: usize) -> (r: Self)
        requires min_limit <= max_limit, max_limit < usize::MAX,
        ensures r.wf(),   // #starts_within_bounds_whatever_initial_limit_is_given [C13]
            r.min_limit == min_limit && r.max_limit == max_limit && r.alpha == alpha && r.beta == beta,   // #keeps_the_given_bounds_and_thresholds [C13]
    //@body Vegas::new file=alg

    pub fn adjust_limit(&self)
        requires self.wf(),
    //@body Vegas::adjust_limit file=alg

    pub fn record_failure(&self)
        requires self.wf(),
    //@body Vegas::record_failure@ConcurrencyAlgorithm file=alg

    pub fn limit(&self) -> (r: usize)
        requires self.wf(),
        ensures self.min_limit <= r <= self.max_limit,   // #reported_limit_within_bounds [C13]
    //@body Vegas::limit@ConcurrencyAlgorithm file=alg
}
impl Aimd {
    pub fn new(config: AimdConfig, latency_threshold: Duration) -> (r: Self)
        requires config.min_limit <= config.max_limit, config.max_limit <= 0x20_0000_0000_0000, f64_unit(config.decrease_factor),
        ensures r.controller.wf() && r.controller.config == config && r.latency_threshold == latency_threshold,   // #starts_within_bounds_with_exactly_the_given_configuration [C13]
    //@body Aimd::new file=alg
    pub fn record_success(&self, latency: Duration)
        requires self.controller.wf(),
    //@body Aimd::record_success@ConcurrencyAlgorithm file=alg
    pub fn record_failure(&self)
        requires self.controller.wf(),
    //@body Aimd::record_failure@ConcurrencyAlgorithm file=alg
    pub fn limit(&self) -> (r: usize)
        requires self.controller.wf(),
        ensures self.controller.config.min_limit <= r <= self.controller.config.max_limit,   // #reported_limit_within_bounds [C13]
    //@body Aimd::limit@ConcurrencyAlgorithm file=alg
}

impl AimdController {
    pub fn new(config: AimdConfig) -> (r: Self)
        requires config.min_limit <= config.max_limit, config.max_limit <= 0x20_0000_0000_0000, f64_unit(config.decrease_factor),
        ensures r.wf(),   // #starts_within_bounds [C13,C08]
            r.config == config,   // #keeps_config [C13]
    //@body AimdController::new file=aimd

    pub fn clone(&self) -> (r: Self)
        requires self.wf(),
        ensures r.wf() && r.config == self.config,   // #a_cloned_controller_starts_within_the_same_bounds [C13,C08]
    //@body AimdController::clone@Clone file=aimd

    pub fn limit(&self) -> (r: usize)
        requires self.wf(),
        ensures self.config.min_limit <= r <= self.config.max_limit,   // #reported_limit_within_bounds [C13,C08]
    //@body AimdController::limit file=aimd

    pub fn record_success(&self)
        requires self.wf(),   // every atomic step re-establishes min <= limit <= max: #atomic-invariant obligations below
    //@body AimdController::record_success file=aimd

    pub fn record_failure(&self)
        requires self.wf(),
    //@body AimdController::record_failure file=aimd

    pub fn record_successes(&self, count: usize)
        requires self.wf(),
    //@body AimdController::record_successes file=aimd

    pub fn reset(&self)
        requires self.wf(),
    //@body AimdController::reset file=aimd
}

impl TokenBucketBudget {
    pub fn new(_tokens_per_second: f64, max_tokens: usize, initial_tokens: usize) -> (r: Self)
        requires initial_tokens <= max_tokens, max_tokens <= 0xFFFF_FFFF_FFFF,   // domain: max_tokens x 1000 representable
        ensures r.wf(),   // #starts_funded_with_initial_and_within_max [C08]
            r.initial@ == initial_tokens * 1000,   // #ghost_initial
            r.max_tokens == max_tokens * 1000,   // #capacity_is_exactly_max_tokens [C08]
    //@body TokenBucketBudget::new

    #[verifier::exec_allows_no_decreases_clause]
    pub fn try_withdraw(&self) -> (r: bool)
        requires self.wf(),
    //@body TokenBucketBudget::try_withdraw@RetryBudget

    #[verifier::exec_allows_no_decreases_clause]
    pub fn deposit(&self)
        requires self.wf(),
    //@body TokenBucketBudget::deposit@RetryBudget

    pub fn balance(&self) -> (r: usize)
        requires self.wf(),
        ensures r <= self.max_tokens / 1000,   // #reported_balance_within_max [C08]
    //@body TokenBucketBudget::balance@RetryBudget
}

impl AimdBudget {
    pub fn new(min_budget: usize, max_budget: usize, deposit_amount: usize, withdraw_amount: usize, decrease_factor: f64) -> (r: Self)
        requires min_budget <= max_budget, max_budget <= 0x20_0000_0000_0000, f64_unit(decrease_factor),
        ensures r.wf(),   // #starts_full_and_within_bounds [C08]
            r.limit_controller.config.min_limit == min_budget && r.limit_controller.config.max_limit == max_budget && r.deposit_amount == deposit_amount && r.withdraw_amount == withdraw_amount,   // #keeps_the_given_bounds_and_amounts [C08]
    //@body AimdBudget::new
    #[verifier::exec_allows_no_decreases_clause]
    pub fn try_withdraw(&self) -> (r: bool)
        requires self.wf(),
    //@body AimdBudget::try_withdraw@RetryBudget

    #[verifier::exec_allows_no_decreases_clause]
    pub fn deposit(&self)
        requires self.wf(),
    //@body AimdBudget::deposit@RetryBudget

    pub fn balance(&self) -> (r: usize)
        requires self.wf(),
        ensures r <= self.limit_controller.config.max_limit,   // #reported_balance_within_max [C08]
    //@body AimdBudget::balance@RetryBudget
}

// ===== budget builders (C08) =====
pub struct RetryBudgetBuilder { pub p: u8 }
pub struct TokenBucketBuilder { pub tokens_per_second: f64, pub max_tokens: usize, pub initial_tokens: Option<usize> }
pub struct AimdBudgetBuilder { pub min_budget: usize, pub max_budget: usize, pub deposit_amount: usize, pub withdraw_amount: usize, pub decrease_factor: f64 }
impl RetryBudgetBuilder {
    pub fn token_bucket(self) -> (r: TokenBucketBuilder)
        ensures r.initial_tokens is None && r.max_tokens >= 1,   // #token_bucket_defaults_start_full [C08]
    //@body RetryBudgetBuilder::token_bucket
    pub fn aimd(self) -> (r: AimdBudgetBuilder)
        ensures r.min_budget <= r.max_budget && r.deposit_amount >= 1 && r.withdraw_amount >= 1,   // #aimd_defaults_are_ordered_and_positive [C08]
    //@body RetryBudgetBuilder::aimd
}
impl TokenBucketBuilder {
    pub fn tokens_per_second(self, rate: f64) -> (r: Self)
        ensures r.max_tokens == self.max_tokens && r.initial_tokens == self.initial_tokens,   // #keeps_every_other_setting [C08]
    //@body TokenBucketBuilder::tokens_per_second
    pub fn max_tokens(self, max: usize) -> (r: Self)
        ensures r.max_tokens == max,   // #sets_max_tokens [C08]
            r.tokens_per_second == self.tokens_per_second && r.initial_tokens == self.initial_tokens,   // #keeps_every_other_setting [C08]
    //@body TokenBucketBuilder::max_tokens
    pub fn initial_tokens(self, initial: usize) -> (r: Self)
        ensures r.initial_tokens == Some(initial),   // #sets_initial_tokens [C08]
            r.tokens_per_second == self.tokens_per_second && r.max_tokens == self.max_tokens,   // #keeps_every_other_setting [C08]
    //@body TokenBucketBuilder::initial_tokens
    pub fn build(self) -> (r: Arc<TokenBucketBudget>)
        requires self.max_tokens <= 0xFFFF_FFFF_FFFF, self.initial_tokens is Some ==> self.initial_tokens->0 <= self.max_tokens,
        ensures r.wf(),   // #built_budget_is_well_formed [C08]
            r.max_tokens == self.max_tokens * 1000,   // #capacity_is_exactly_max_tokens [C08]
            r.initial@ == (if self.initial_tokens is Some { self.initial_tokens->0 } else { self.max_tokens }) * 1000,   // #starts_with_initial_tokens_or_full [C08]
    //@body TokenBucketBuilder::build
}
impl AimdBudgetBuilder {
    pub fn min_budget(self, min: usize) -> (r: Self)
        ensures r.min_budget == min,   // #sets_min_budget [C08]
            r.max_budget == self.max_budget && r.deposit_amount == self.deposit_amount && r.withdraw_amount == self.withdraw_amount && r.decrease_factor == self.decrease_factor,   // #keeps_every_other_setting [C08]
    //@body AimdBudgetBuilder::min_budget
    pub fn max_budget(self, max: usize) -> (r: Self)
        ensures r.max_budget == max,   // #sets_max_budget [C08]
            r.min_budget == self.min_budget && r.deposit_amount == self.deposit_amount && r.withdraw_amount == self.withdraw_amount && r.decrease_factor == self.decrease_factor,   // #keeps_every_other_setting [C08]
    //@body AimdBudgetBuilder::max_budget
    pub fn deposit_amount(self, amount: usize) -> (r: Self)
        ensures r.deposit_amount == amount,   // #sets_deposit_amount [C08]
            r.min_budget == self.min_budget && r.max_budget == self.max_budget && r.withdraw_amount == self.withdraw_amount && r.decrease_factor == self.decrease_factor,   // #keeps_every_other_setting [C08]
    //@body AimdBudgetBuilder::deposit_amount
    pub fn withdraw_amount(self, amount: usize) -> (r: Self)
        ensures r.withdraw_amount == amount,   // #sets_withdraw_amount [C08]
            r.min_budget == self.min_budget && r.max_budget == self.max_budget && r.deposit_amount == self.deposit_amount && r.decrease_factor == self.decrease_factor,   // #keeps_every_other_setting [C08]
    //@body AimdBudgetBuilder::withdraw_amount
    pub fn decrease_factor(self, factor: f64) -> (r: Self)
        ensures r.decrease_factor == factor,   // #sets_decrease_factor [C08]
            r.min_budget == self.min_budget && r.max_budget == self.max_budget && r.deposit_amount == self.deposit_amount && r.withdraw_amount == self.withdraw_amount,   // #keeps_every_other_setting [C08]
    //@body AimdBudgetBuilder::decrease_factor
    pub fn build(self) -> (r: Arc<AimdBudget>)
        requires self.min_budget <= self.max_budget, self.max_budget <= 0x20_0000_0000_0000, f64_unit(self.decrease_factor),
        ensures r.wf(),   // #built_budget_is_well_formed [C08]
            r.deposit_amount == self.deposit_amount && r.withdraw_amount == self.withdraw_amount,   // #cost_and_refund_are_exactly_what_was_set [C08]
            r.limit_controller.config.min_limit == self.min_budget && r.limit_controller.config.max_limit == self.max_budget,   // #bounds_are_exactly_what_was_set [C08]
    //@body AimdBudgetBuilder::build
}

// ===== adaptive algorithm builders (C13) =====
impl Duration {
    pub fn from_millis(ms: u64) -> (r: Duration) ensures r.nanos == ms as u128 * 1_000_000 { Duration { nanos: ms as u128 * 1_000_000 } }
}
pub struct AimdBuilder { pub initial_limit: usize, pub min_limit: usize, pub max_limit: usize, pub increase_by: usize, pub decrease_factor: f64, pub latency_threshold: Duration }
pub struct VegasBuilder { pub initial_limit: usize, pub min_limit: usize, pub max_limit: usize, pub alpha: usize, pub beta: usize }
impl AimdBuilder {
    pub fn default() -> (r: Self)
        ensures 1 <= r.min_limit <= r.max_limit,   // #default_bounds_are_ordered [C13]
    //@body AimdBuilder::default@Default file=alg
    pub fn initial_limit(self, limit: usize) -> (r: Self)
        ensures r.initial_limit == limit,   // #sets_initial_limit [C13]
            r.min_limit == self.min_limit && r.max_limit == self.max_limit && r.increase_by == self.increase_by && r.decrease_factor == self.decrease_factor && r.latency_threshold == self.latency_threshold,   // #keeps_every_other_setting [C13]
    //@body AimdBuilder::initial_limit file=alg
    pub fn min_limit(self, limit: usize) -> (r: Self)
        ensures r.min_limit == limit,   // #sets_min_limit [C13]
            r.initial_limit == self.initial_limit && r.max_limit == self.max_limit && r.increase_by == self.increase_by && r.decrease_factor == self.decrease_factor && r.latency_threshold == self.latency_threshold,   // #keeps_every_other_setting [C13]
    //@body AimdBuilder::min_limit file=alg
    pub fn max_limit(self, limit: usize) -> (r: Self)
        ensures r.max_limit == limit,   // #sets_max_limit [C13]
            r.initial_limit == self.initial_limit && r.min_limit == self.min_limit && r.increase_by == self.increase_by && r.decrease_factor == self.decrease_factor && r.latency_threshold == self.latency_threshold,   // #keeps_every_other_setting [C13]
    //@body AimdBuilder::max_limit file=alg
    pub fn increase_by(self, amount: usize) -> (r: Self)
        ensures r.increase_by == amount,   // #sets_increase_by [C13]
            r.initial_limit == self.initial_limit && r.min_limit == self.min_limit && r.max_limit == self.max_limit && r.decrease_factor == self.decrease_factor && r.latency_threshold == self.latency_threshold,   // #keeps_every_other_setting [C13]
    //@body AimdBuilder::increase_by file=alg
    pub fn decrease_factor(self, factor: f64) -> (r: Self)
        ensures r.decrease_factor == factor,   // #sets_decrease_factor [C13]
            r.initial_limit == self.initial_limit && r.min_limit == self.min_limit && r.max_limit == self.max_limit && r.increase_by == self.increase_by && r.latency_threshold == self.latency_threshold,   // #keeps_every_other_setting [C13]
    //@body AimdBuilder::decrease_factor file=alg
    pub fn latency_threshold(self, threshold: Duration) -> (r: Self)
        ensures r.latency_threshold == threshold,   // #sets_latency_threshold [C13]
            r.initial_limit == self.initial_limit && r.min_limit == self.min_limit && r.max_limit == self.max_limit && r.increase_by == self.increase_by && r.decrease_factor == self.decrease_factor,   // #keeps_every_other_setting [C13]
    //@body AimdBuilder::latency_threshold file=alg
    pub fn build(self) -> (r: Aimd)
        requires self.min_limit <= self.max_limit, self.max_limit <= 0x20_0000_0000_0000, f64_unit(self.decrease_factor),
        ensures r.controller.wf(),   // #built_algorithm_starts_within_bounds [C13]
            r.controller.config.min_limit == self.min_limit && r.controller.config.max_limit == self.max_limit,   // #bounds_are_exactly_what_was_set [C13]
            r.controller.config.initial_limit == self.initial_limit && r.controller.config.increase_by == self.increase_by && r.controller.config.decrease_factor == self.decrease_factor
                && r.latency_threshold == self.latency_threshold,   // #steps_and_threshold_are_exactly_what_was_set [C13]
    //@body AimdBuilder::build file=alg
}
impl VegasBuilder {
    pub fn default() -> (r: Self)
        ensures 1 <= r.min_limit <= r.max_limit,   // #default_bounds_are_ordered [C13]
    //@body VegasBuilder::default@Default file=alg
    pub fn initial_limit(self, limit: usize) -> (r: Self)
        ensures r.initial_limit == limit,   // #sets_initial_limit [C13]
            r.min_limit == self.min_limit && r.max_limit == self.max_limit && r.alpha == self.alpha && r.beta == self.beta,   // #keeps_every_other_setting [C13]
    //@body VegasBuilder::initial_limit file=alg
    pub fn min_limit(self, limit: usize) -> (r: Self)
        ensures r.min_limit == limit,   // #sets_min_limit [C13]
            r.initial_limit == self.initial_limit && r.max_limit == self.max_limit && r.alpha == self.alpha && r.beta == self.beta,   // #keeps_every_other_setting [C13]
    //@body VegasBuilder::min_limit file=alg
    pub fn max_limit(self, limit: usize) -> (r: Self)
        ensures r.max_limit == limit,   // #sets_max_limit [C13]
            r.initial_limit == self.initial_limit && r.min_limit == self.min_limit && r.alpha == self.alpha && r.beta == self.beta,   // #keeps_every_other_setting [C13]
    //@body VegasBuilder::max_limit file=alg
    pub fn alpha(self, alpha: usize) -> (r: Self)
        ensures r.alpha == alpha,   // #sets_alpha [C13]
            r.initial_limit == self.initial_limit && r.min_limit == self.min_limit && r.max_limit == self.max_limit && r.beta == self.beta,   // #keeps_every_other_setting [C13]
    //@body VegasBuilder::alpha file=alg
    pub fn beta(self, beta: usize) -> (r: Self)
        ensures r.beta == beta,   // #sets_beta [C13]
            r.initial_limit == self.initial_limit && r.min_limit == self.min_limit && r.max_limit == self.max_limit && r.alpha == self.alpha,   // #keeps_every_other_setting [C13]
    //@body VegasBuilder::beta file=alg
    pub fn build(self) -> (r: Vegas)
        requires self.min_limit <= self.max_limit, self.max_limit < usize::MAX,
        ensures r.wf(),   // #built_algorithm_starts_within_bounds [C13]
            r.min_limit == self.min_limit && r.max_limit == self.max_limit && r.alpha == self.alpha && r.beta == self.beta,   // #bounds_and_thresholds_are_exactly_what_was_set [C13]
    //@body VegasBuilder::build file=alg
}
fn main() {}
}
