RT = "crates/tower-resilience-retry/src/"
AD = "crates/tower-resilience-adaptive/src/"
CORE = "crates/tower-resilience-core/src/"
NOOP = ""
# every atomic step on the limit (whatever the operation) must re-establish min <= limit <= max
LIMIT_ANY = "  // #limit_stays_within_bounds [C13,C08]"
WITHDRAW_CAS = "if ret.is_ok() { g = GB { granted: g.granted + 1, deposited: g.deposited }; vx_grants = vx_grants + 1; }   // #withdrawal_accounted_exactly_when_the_cas_succeeds [C08]"
DEPOSIT_STORE = "g = GB { granted: g.granted, deposited: g.deposited + 1 };   // #deposit_is_one_atomic_step_within_max [C08]"
DEPOSIT_CAS = "if ret.is_ok() { g = GB { granted: g.granted, deposited: g.deposited + 1 }; }   // #deposit_is_one_atomic_step_within_max [C08]"
WITHDRAW_CAS_A = "if ret.is_ok() { assert((g.granted + 1) * (self.withdraw_amount as nat) == g.granted * (self.withdraw_amount as nat) + self.withdraw_amount as nat) by(nonlinear_arith); g = GB { granted: g.granted + 1, deposited: g.deposited }; vx_grants = vx_grants + 1; }   // #withdrawal_accounted_exactly_when_the_cas_succeeds [C08]"
DEPOSIT_CAS_A = "if ret.is_ok() { assert((g.deposited + 1) * (self.deposit_amount as nat) == g.deposited * (self.deposit_amount as nat) + self.deposit_amount as nat) by(nonlinear_arith); g = GB { granted: g.granted, deposited: g.deposited + 1 }; }   // #deposit_is_one_atomic_step_within_max [C08]"
WITNESS = [
    ("inject", None, "start", "let ghost mut vx_grants: nat = 0;"),
    # every `return true` / `return false` (statement or match arm) is wrapped with the local ghost witness check
    ("sub", "ghost-inject", r"\breturn\s+true\b", "{ proof { assert(vx_grants == 1); }   // #returns_true_only_after_its_own_successful_withdrawal [C08]\n return true }", None),
    ("sub", "ghost-inject", r"\breturn\s+false\b", "{ proof { assert(vx_grants == 0); }   // #returns_false_without_withdrawing [C08]\n return false }", None),
]
MUT = [("sub", "R16-mut-self", r"\bself\b", "self_", -1), ("inject", None, "start", "let mut self_ = self;")]
UNIT = dict(
    serves=["C08", "C13"],
    files={"budget": RT + "budget.rs", "aimd": CORE + "aimd.rs", "alg": AD + "algorithm.rs"},
    default_file="budget",
    rules=[("R1",)],
    extra_params=[],
    fns={
        "RetryBudgetBuilder::token_bucket": dict(),
        "RetryBudgetBuilder::aimd": dict(),
        "TokenBucketBuilder::tokens_per_second": dict(rules=MUT),
        "TokenBucketBuilder::max_tokens": dict(rules=MUT),
        "TokenBucketBuilder::initial_tokens": dict(rules=MUT),
        "TokenBucketBuilder::build": dict(rules=[("sub", "R10-unwrap-or", r"self\.initial_tokens\.unwrap_or\(self\.max_tokens\)", "(match self.initial_tokens { Some(vx_i) => vx_i, None => self.max_tokens })", 1)]),
        "AimdBudgetBuilder::min_budget": dict(rules=MUT),
        "AimdBudgetBuilder::max_budget": dict(rules=MUT),
        "AimdBudgetBuilder::deposit_amount": dict(rules=MUT),
        "AimdBudgetBuilder::withdraw_amount": dict(rules=MUT),
        "AimdBudgetBuilder::decrease_factor": dict(rules=MUT),
        "AimdBudgetBuilder::build": dict(),
        "AimdBuilder::default@Default": dict(file="alg"),
        "AimdBuilder::build": dict(file="alg"),
        "VegasBuilder::default@Default": dict(file="alg"),
        "VegasBuilder::build": dict(file="alg"),
        "AimdBuilder::initial_limit": dict(file="alg", rules=MUT),
        "AimdBuilder::min_limit": dict(file="alg", rules=MUT),
        "AimdBuilder::max_limit": dict(file="alg", rules=MUT),
        "AimdBuilder::increase_by": dict(file="alg", rules=MUT),
        "AimdBuilder::decrease_factor": dict(file="alg", rules=MUT),
        "AimdBuilder::latency_threshold": dict(file="alg", rules=MUT),
        "VegasBuilder::initial_limit": dict(file="alg", rules=MUT),
        "VegasBuilder::min_limit": dict(file="alg", rules=MUT),
        "VegasBuilder::max_limit": dict(file="alg", rules=MUT),
        "VegasBuilder::alpha": dict(file="alg", rules=MUT),
        "VegasBuilder::beta": dict(file="alg", rules=MUT),
        "AimdConfig::default@Default": dict(file="aimd"),
        "AimdConfig::new": dict(file="aimd"),
        "AimdConfig::with_initial_limit": dict(file="aimd", rules=MUT),
        "AimdConfig::with_min_limit": dict(file="aimd", rules=MUT),
        "AimdConfig::with_max_limit": dict(file="aimd", rules=MUT),
        "AimdConfig::with_increase_by": dict(file="aimd", rules=MUT),
        "AimdConfig::with_decrease_factor": dict(file="aimd", rules=MUT),
        "Aimd::new": dict(file="alg"),
        "Aimd::record_success@ConcurrencyAlgorithm": dict(file="alg", rules=[("sub", "R10-cmp", r"latency > self\.latency_threshold", "latency.nanos > self.latency_threshold.nanos", 1)]),
        "AimdBudget::new": dict(rules=[
            ("sub", "R7-new", r"AtomicU64::new\(max_budget as u64\)", "AtomicU64::new(Ghost((vx_ctl, deposit_amount as u64, withdraw_amount as u64, Ghost(max_budget as nat))), max_budget as u64, Tracked(GB { granted: 0, deposited: 0 }))", 1),
            ("sub", "ghost-field", r"limit_controller: AimdController::new\(config\),", "limit_controller: vx_ctl,", 1),
            ("inject", r"Self \{", "before", "let vx_ctl = AimdController::new(config);", 1),
            ("sub", "ghost-field", r"withdraw_amount: withdraw_amount as u64,", "withdraw_amount: withdraw_amount as u64, initial: Ghost(max_budget as nat),", 1),
        ]),
        "Vegas::new": dict(file="alg", rules=[
            ("sub", "R7-new", r"AtomicUsize::new\(initial_limit\.clamp\(min_limit, max_limit\)\)", "AtomicUsize::new(Ghost((min_limit, max_limit)), initial_limit.clamp(min_limit, max_limit), Tracked(()))", 1),
            ("sub", "R7-new", r"AtomicU64::new\(u64::MAX\)", "AtomicU64::new(Ghost(()), u64::MAX, Tracked(()))", 1),
            ("sub", "R7-new", r"AtomicU64::new\(0\)", "AtomicU64::new(Ghost(()), 0, Tracked(()))", 1),
            ("sub", "R7-new", r"AtomicUsize::new\(0\)", "AtomicUsize::new(Ghost(()), 0, Tracked(()))", 1),
        ]),
        "Vegas::adjust_limit": dict(file="alg", rules=[
            ("R14", "queue_estimate", ["smoothed_rtt", "min_rtt", "current_limit"]),
            ("R7", [NOOP, NOOP, NOOP, NOOP, "  // #limit_stays_within_bounds [C13]"])]),
        "Vegas::record_failure@ConcurrencyAlgorithm": dict(file="alg", rules=[("R7", "  // #limit_stays_within_bounds [C13]")]),
        "Vegas::limit@ConcurrencyAlgorithm": dict(file="alg", rules=[("R7", [NOOP])]),
        "Aimd::record_failure@ConcurrencyAlgorithm": dict(file="alg"),
        "Aimd::limit@ConcurrencyAlgorithm": dict(file="alg"),
        "AimdController::new": dict(file="aimd", rules=[
            ("wrapcalls", "R7-new", r"AtomicUsize::new", "AtomicUsize::new(Ghost(config), {args}, Tracked(()))", 1),
        ]),
        "AimdController::clone@Clone": dict(file="aimd", rules=[
            # the fresh atomic starts at whatever expression the code reads the current limit with (a Relaxed load or the limit() accessor)
            ("wrapcalls", "R7-new", r"AtomicUsize::new", "AtomicUsize::new(Ghost(self.config), {args}, Tracked(()))", 1),
            ("R7", NOOP),
        ]),
        "AimdController::limit": dict(file="aimd", rules=[("R7", [NOOP])]),
        "AimdController::record_success": dict(file="aimd", rules=[("R7", LIMIT_ANY)]),
        "AimdController::record_failure": dict(file="aimd", rules=[
            ("R14", "decreased", ["current", "self.config.decrease_factor"]),
            ("R7", LIMIT_ANY)]),
        "AimdController::record_successes": dict(file="aimd", rules=[("R7", LIMIT_ANY)]),
        "AimdController::reset": dict(file="aimd", rules=[("R7", LIMIT_ANY)]),
        "TokenBucketBudget::new": dict(rules=[
            ("sub", "R7-new", r"AtomicU64::new\(\(initial_tokens as u64\) \* SCALE\)",
             "AtomicU64::new(Ghost((((max_tokens as u64) * SCALE) as u64, Ghost((initial_tokens * 1000) as nat))), (initial_tokens as u64) * SCALE, Tracked(GB { granted: 0, deposited: 0 }))", 1),
            ("sub", "ghost-field", r"max_tokens: \(max_tokens as u64\) \* SCALE,", "max_tokens: (max_tokens as u64) * SCALE, initial: Ghost((initial_tokens * 1000) as nat),", 1),
        ]),
        "TokenBucketBudget::try_withdraw@RetryBudget": dict(rules=[
            ("R7", [NOOP, WITHDRAW_CAS]),
            ("loops", {0: "invariant self.wf(), vx_grants == 0,"}, True),
        ] + WITNESS),
        "TokenBucketBudget::deposit@RetryBudget": dict(rules=[
            ("R7", [NOOP, {"default": DEPOSIT_CAS, "store": DEPOSIT_STORE}]),
            ("loops", {0: "invariant self.wf(),"}, True),
        ]),
        "TokenBucketBudget::balance@RetryBudget": dict(rules=[("R7", [NOOP])]),
        "AimdBudget::try_withdraw@RetryBudget": dict(rules=[
            ("R7", [NOOP, WITHDRAW_CAS_A]),
            ("loops", {0: "invariant self.wf(), vx_grants == 0,"}, True),
        ] + WITNESS),
        "AimdBudget::deposit@RetryBudget": dict(rules=[
            ("R7", [NOOP, {"default": DEPOSIT_CAS_A, "store": DEPOSIT_STORE}]),
            ("loops", {0: "invariant self.wf(), current_max <= self.limit_controller.config.max_limit,"}, True),
        ]),
        "AimdBudget::balance@RetryBudget": dict(rules=[("R7", [NOOP])]),
    },
    frame=[
        dict(name="vegas_limit_written_only_in_contracted_functions", tags=["C13"],
             pattern=r"self\s*\.\s*limit\s*\.\s*(store|swap|fetch_\w+|compare_exchange\w*)",
             glob=AD + "algorithm.rs", only_in=["alg:Vegas::adjust_limit", "alg:Vegas::record_failure@ConcurrencyAlgorithm"]),
        dict(name="aimd_limit_written_only_in_contracted_functions", tags=["C13", "C08"],
             pattern=r"self\s*\.\s*limit\s*\.\s*(store|swap|fetch_\w+|compare_exchange\w*)",
             glob=CORE + "aimd.rs", only_in=["aimd:AimdController::record_success", "aimd:AimdController::record_failure", "aimd:AimdController::record_successes", "aimd:AimdController::reset"]),
    ],
    types=[
        ("struct", "Vegas", "alg"),
        ("struct", "Aimd", "alg"),
        ("struct", "AimdConfig", "aimd"),
        ("struct", "AimdController", "aimd"),
        ("struct", "TokenBucketBudget", "budget", {"extra": ["initial"]}),
        ("struct", "AimdBudget", "budget", {"extra": ["initial"]}),
        ("struct", "AimdBuilder", "alg"), ("struct", "VegasBuilder", "alg"),
        ("struct", "TokenBucketBuilder", "budget"), ("struct", "AimdBudgetBuilder", "budget"),
    ],
)
