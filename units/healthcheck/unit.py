HC = "crates/tower-resilience-healthcheck/src/"
W = ("sub", "R8-lock", r"self\.state\.write\(\)\.unwrap\(\)", "self.state", None)
WL = ("sub", "R8-lock", r"let mut state = self\.state\.write\(\)\.unwrap\(\);", "let state = &mut self.state;", 1)
R = ("sub", "R8-lock", r"self\.state\.read\(\)\.unwrap\(\)", "self.state", 1)
UNIT = dict(
    serves=["C18"],
    files={"context": HC + "context.rs", "wrapper": HC + "wrapper.rs", "lib": HC + "lib.rs", "config": HC + "config.rs"},
    default_file="context",
    rules=[("R1", ("triggers",))],
    extra_params=[],
    fns={
        "HealthCheckedContext::new": dict(rules=[
            ("sub", "R16-dropped-fields", r"\bcontext,\s*name: name\.into\(\),", "", 1),
            ("sub", "R16-dropped-fields", r"extensions: Arc::new\(RwLock::new\(HashMap::new\(\)\)\),", "", 1),
            ("sub", "R8-lock", r"state: Arc::new\(RwLock::new\((ContextState \{[^}]*\})\)\),", r"state: \1,", 1),
        ]),
        "HealthCheckedContext::status": dict(rules=[R]),
        "HealthCheckedContext::set_status": dict(rules=[W]),
        "HealthCheckedContext::set_last_check": dict(rules=[W]),
        "HealthCheckedContext::consecutive_failures": dict(rules=[R]),
        "HealthCheckedContext::consecutive_successes": dict(rules=[R]),
        "HealthCheckedContext::record_failure": dict(rules=[WL]),
        "HealthCheckedContext::record_success": dict(rules=[WL]),
        "update_after_check": dict(file="wrapper", src="HealthCheckWrapper::start",
            fragment=(r"let status = match check_result \{", r"\n\s*match status\s*\{"),
            rules=[
                ("sub", "wallclock", r"let now = SystemTime::now\(\)\s*\.duration_since\(UNIX_EPOCH\)\s*\.unwrap\(\)\s*\.as_millis\(\) as u64;", "let now: u64 = vx_now_millis();", 1),
                ("sub", "cfg-attr", r"#\[cfg_attr\(not\(feature = \"[^\"]*\"\), allow\(unused_variables\)\)\]", "", 1),
            ]),
    },
    types=[
        ("enum", "HealthStatus", "lib"),
        ("struct", "ContextState", "context"),
        ("struct", "HealthCheckedContext", "context", {"drop": ["context", "name", "extensions"]}),
    ],
    frame=[
        dict(name="context_state_written_only_through_its_methods", tags=["C18"], pattern=r"\.state\s*\.\s*write\s*\(",
             glob=HC + "**/*.rs", only_in=["context:HealthCheckedContext::set_status", "context:HealthCheckedContext::set_last_check",
                                            "context:HealthCheckedContext::record_failure", "context:HealthCheckedContext::record_success"]),
    ],
)
