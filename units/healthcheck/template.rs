#![feature(allocator_api)]
#![allow(unused)]
use vstd::prelude::*;
verus! {
// ---- unit prelude (ASSUMED) ----
/// tokio::time::timeout's error
pub struct Elapsed {}
/// wall-clock stamp of the check (not part of C18)
#[verifier::external_body]
pub fn vx_now_millis() -> u64 { unimplemented!() }

// ---- types of /repo (shape-checked). R8: the RwLock around ContextState is erased — all access goes through the
// methods below, each of which is one critical section ----
#[derive(Debug, Clone, Copy, PartialEq, Eq, Structural)]
pub enum HealthStatus { Healthy, Degraded, Unhealthy, Unknown }
pub struct ContextState { pub status: HealthStatus, pub last_check_millis: u64, pub consecutive_failures: u64, pub consecutive_successes: u64 }
pub struct HealthCheckedContext { pub state: ContextState }

impl HealthCheckedContext {
    pub fn new<T, N>(context: T, name: N) -> (r: Self)
        ensures r.state.status == HealthStatus::Unknown,   // #a_new_resource_is_unknown_until_its_first_check [C18]
            runs_inv(r.state, Seq::empty()),   // #a_new_resource_starts_with_empty_runs [C18]
    //@body HealthCheckedContext::new
    pub fn status(&self) -> (r: HealthStatus)
        ensures r == self.state.status,   // #published_status_is_the_stored_status [C18]
    //@body HealthCheckedContext::status
    pub fn set_status(&mut self, status: HealthStatus)
        ensures final(self).state == (ContextState { status: status, ..old(self).state }),   // #set_status_changes_only_the_status [C18]
    //@body HealthCheckedContext::set_status
    pub fn set_last_check(&mut self, timestamp: u64)
        ensures final(self).state == (ContextState { last_check_millis: timestamp, ..old(self).state }),   // #set_last_check_changes_only_the_timestamp [C18]
    //@body HealthCheckedContext::set_last_check
    pub fn consecutive_failures(&self) -> (r: u64)
        ensures r == self.state.consecutive_failures,   // #reads_the_failure_run [C18]
    //@body HealthCheckedContext::consecutive_failures
    pub fn consecutive_successes(&self) -> (r: u64)
        ensures r == self.state.consecutive_successes,   // #reads_the_success_run [C18]
    //@body HealthCheckedContext::consecutive_successes
    pub fn record_failure(&mut self)
        requires old(self).state.consecutive_failures < u64::MAX,   // domain restriction
        ensures final(self).state == (ContextState { consecutive_failures: (old(self).state.consecutive_failures + 1) as u64, consecutive_successes: 0, ..old(self).state }),   // #failure_extends_the_failure_run_and_ends_the_success_run [C18]
    //@body HealthCheckedContext::record_failure
    pub fn record_success(&mut self)
        requires old(self).state.consecutive_successes < u64::MAX,   // domain restriction
        ensures final(self).state == (ContextState { consecutive_successes: (old(self).state.consecutive_successes + 1) as u64, consecutive_failures: 0, ..old(self).state }),   // #success_extends_the_success_run_and_ends_the_failure_run [C18]
    //@body HealthCheckedContext::record_success
}

/// the outcome of one check as the checker task sees it: a timed-out check counts as Unhealthy
pub open spec fn seen(check_result: Result<HealthStatus, Elapsed>) -> HealthStatus { match check_result { Ok(s) => s, Err(_) => HealthStatus::Unhealthy } }

// ---- C18: run-length lemma over the contract of the status-update block ----
/// length of the run of failed / timed-out checks at the end of the history of seen results (Unknown results are skipped)
pub open spec fn fail_run(h: Seq<HealthStatus>) -> nat decreases h.len() {
    if h.len() == 0 { 0 } else { match h.last() { HealthStatus::Unknown => fail_run(h.drop_last()), HealthStatus::Unhealthy => fail_run(h.drop_last()) + 1, _ => 0 } }
}
/// length of the run of non-failing (Healthy or Degraded) checks at the end of the history (Unknown results are skipped)
pub open spec fn succ_run(h: Seq<HealthStatus>) -> nat decreases h.len() {
    if h.len() == 0 { 0 } else { match h.last() { HealthStatus::Unknown => succ_run(h.drop_last()), HealthStatus::Unhealthy => 0, _ => succ_run(h.drop_last()) + 1 } }
}
/// what one status update does to the counters, as its contract states it
pub open spec fn upd_post(s0: ContextState, s1: ContextState, seen: HealthStatus) -> bool {
    match seen {
        HealthStatus::Unknown => s1.consecutive_failures == s0.consecutive_failures && s1.consecutive_successes == s0.consecutive_successes,
        HealthStatus::Unhealthy => s1.consecutive_failures == s0.consecutive_failures + 1 && s1.consecutive_successes == 0,
        _ => s1.consecutive_successes == s0.consecutive_successes + 1 && s1.consecutive_failures == 0,
    }
}
pub open spec fn runs_inv(s: ContextState, h: Seq<HealthStatus>) -> bool {
    s.consecutive_failures == fail_run(h) && s.consecutive_successes == succ_run(h)
}
pub proof fn lemma_runs_init(s: ContextState)
    requires s.consecutive_failures == 0 && s.consecutive_successes == 0,
    ensures runs_inv(s, Seq::empty()),   // #zero_counters_are_the_runs_of_the_empty_history [C18]
{}
/// the counters are the run lengths of the history of seen results, after every update of the checker task
pub proof fn lemma_runs_step(s0: ContextState, s1: ContextState, h: Seq<HealthStatus>, seen: HealthStatus)
    requires runs_inv(s0, h), upd_post(s0, s1, seen),
    ensures runs_inv(s1, h.push(seen)),   // #counters_are_the_run_lengths_of_the_seen_results [C18]
{
    assert(h.push(seen).drop_last() =~= h);
}

/// the status-update block of the checker task (fragment of HealthCheckWrapper::start, extracted by anchor)
pub fn update_after_check(ctx_clone: &mut HealthCheckedContext, check_result: Result<HealthStatus, Elapsed>, failure_threshold: u32, success_threshold: u32)
    requires old(ctx_clone).state.consecutive_failures < u64::MAX, old(ctx_clone).state.consecutive_successes < u64::MAX,
    ensures
        upd_post(old(ctx_clone).state, final(ctx_clone).state, seen(check_result)),   // #each_update_is_a_step_of_the_run_length_history [C18]
        seen(check_result) == HealthStatus::Unknown ==> final(ctx_clone).state.status == old(ctx_clone).state.status
            && final(ctx_clone).state.consecutive_failures == old(ctx_clone).state.consecutive_failures
            && final(ctx_clone).state.consecutive_successes == old(ctx_clone).state.consecutive_successes,   // #unknown_result_changes_nothing [C18]
        seen(check_result) == HealthStatus::Degraded ==> final(ctx_clone).state.status == HealthStatus::Degraded,   // #degraded_is_published_at_once [C18]
        final(ctx_clone).state.status == HealthStatus::Unhealthy && old(ctx_clone).state.status != HealthStatus::Unhealthy
            ==> seen(check_result) == HealthStatus::Unhealthy && final(ctx_clone).state.consecutive_failures >= failure_threshold,   // #unhealthy_only_after_failure_threshold_consecutive_failed_or_timed_out_checks [C18]
        final(ctx_clone).state.status == HealthStatus::Healthy && old(ctx_clone).state.status != HealthStatus::Healthy
            ==> seen(check_result) == HealthStatus::Healthy && final(ctx_clone).state.consecutive_successes >= success_threshold,   // #healthy_only_on_a_healthy_check_completing_success_threshold_non_failing_checks [C18]
        seen(check_result) == HealthStatus::Unhealthy ==> final(ctx_clone).state.consecutive_failures == old(ctx_clone).state.consecutive_failures + 1 && final(ctx_clone).state.consecutive_successes == 0
            && (final(ctx_clone).state.consecutive_failures >= failure_threshold ==> final(ctx_clone).state.status == HealthStatus::Unhealthy),   // #a_failed_or_timed_out_check_extends_the_failure_run_and_trips_at_the_threshold [C18]
        (seen(check_result) == HealthStatus::Healthy || seen(check_result) == HealthStatus::Degraded) ==> final(ctx_clone).state.consecutive_successes == old(ctx_clone).state.consecutive_successes + 1 && final(ctx_clone).state.consecutive_failures == 0,   // #a_non_failing_check_extends_the_success_run_and_ends_the_failure_run [C18]
        seen(check_result) == HealthStatus::Healthy && final(ctx_clone).state.consecutive_successes >= success_threshold ==> final(ctx_clone).state.status == HealthStatus::Healthy,   // #recovers_at_the_success_threshold [C18]
        (final(ctx_clone).state.status != old(ctx_clone).state.status) ==> (final(ctx_clone).state.status == HealthStatus::Degraded || final(ctx_clone).state.status == HealthStatus::Unhealthy || final(ctx_clone).state.status == HealthStatus::Healthy),   // #never_publishes_unknown [C18]
//@body update_after_check
fn main() {}
}
