HG = "crates/tower-resilience-hedge/src/"
TR = "Tracked(tr)"
UNIT = dict(
    serves=["C12", "C20"],
    files={"lib": HG + "lib.rs", "config": HG + "config.rs", "error": HG + "error.rs"},
    default_file="lib",
    verus_flags=["--no-erasure-check"],
    rules=[("R1",), ("R2",)],
    extra_params=["clk", "tr"],
    fns={
        "execute_with_hedging": dict(rules=[
            ("sub", "R9-paths", r"use tokio::sync::mpsc;", "", 1),
            ("sub", "R9-paths", r"mpsc::channel::<\(usize, Result<S::Response, S::Error>\)>\(max_attempts\)", "channel(max_attempts, Tracked(tr))", 1),
            ("sub", "R16-local-type", r"let mut primary_error: Option<S::Error> = None;", "let mut primary_error: Option<E> = None;", 1),
            ("R17-spawn", 3),
            ("R17-select", 1),
            ("sub", "R13-pin", r"std::pin::pin!\(tokio::time::sleep\(delay\)\)", "sleep(delay)", 1),
            ("sub", "R13-pin", r"delay_fut\.set\(tokio::time::sleep\(next_delay\)\)", "delay_fut = sleep(next_delay)", 1),
            ("sub", "R13-pin", r"\(&mut delay_fut\)\.vx_await\(", "delay_fut.vx_await_mut(", 1),
            ("sub", "R10-guard", r"match first_delay \{\s*Some\(delay\) if delay > Duration::ZERO => \{", "match vx_positive_delay(first_delay) { Some(delay) => {", 1),
            ("sub", "R10-closure", r"primary_error\.unwrap_or_else\(\|\| e\.clone\(\)\)", "(match primary_error { Some(vx_pe) => vx_pe, None => e.clone() })", 1),
            ("sub", "expect", r"\.expect\(\"[^\"]*\"\)", ".unwrap()", 1),
            ("sub", "R6-drop", r"\bdrop\(tx\);", "vx_drop_tx(tx, Tracked(tr));", 1),
            ("R3",), ("R5",),
            ("addarg", ["call"], TR, 3),
            ("R10e", None),
            ("sub", "literal-types", r"let mut hedges_spawned: usize = 0;", "let mut hedges_spawned: usize = 0;", 1),
            ("loops", {
                0: """invariant
                        tr.tx_alive && tr.unguarded == 0 && max_attempts == config.max_hedged_attempts && max_attempts > 1,
                        tr.spawned == hedges_spawned + 1 && tr.calls == tr.spawned && tr.done == tr.spawned && tr.reqs.len() == tr.calls,   // #one_inner_call_per_started_attempt [C12]
                        hedges_spawned + 1 <= max_attempts,   // #never_starts_more_than_max_hedged_attempts [C12]
                        tr.recv_ok == 0,   // #keeps_waiting_only_while_no_attempt_has_succeeded [C12]
                        tr.queue.len() + tr.recv_err == tr.spawned,   // #every_started_attempt_reports_exactly_once [C12]
                        forall|i: int| 0 <= i < tr.reqs.len() ==> tr.reqs[i] == req,   // #every_attempt_carries_the_request [C12,C20]
                        failures == tr.recv_err,   // #counts_every_reported_failure [C12]
                    ensures false,   // the loop is left only by returning: the channel cannot close while this function holds a sender
                    """,
                1: """invariant
                        tr.tx_alive && tr.unguarded == 0 && max_attempts == config.max_hedged_attempts && max_attempts > 1,
                        1 <= i <= max_attempts && hedges_spawned + 1 == i,
                        tr.spawned == hedges_spawned + 1 && tr.calls == tr.spawned && tr.done == tr.spawned && tr.reqs.len() == tr.calls,   // #one_inner_call_per_started_attempt [C12]
                        tr.recv_ok == 0 && tr.recv_err == 0 && tr.queue.len() == tr.spawned && tr.slept == 0,   // #parallel_mode_starts_all_attempts_at_once [C12]
                        forall|i: int| 0 <= i < tr.reqs.len() ==> tr.reqs[i] == req,   // #every_attempt_carries_the_request [C12,C20]
                        primary_error is None,
                    """,
                2: """invariant
                        !tr.tx_alive && tr.unguarded == 0,
                        tr.spawned == hedges_spawned + 1 && tr.calls == tr.spawned && 1 <= tr.calls <= cap(config.max_hedged_attempts),
                        tr.recv_ok == 0,   // #keeps_waiting_only_while_no_attempt_has_succeeded [C12]
                        tr.queue.len() + tr.recv_err == tr.spawned,   // #every_started_attempt_reports_exactly_once [C12]
                        tr.recv_err > 0 ==> primary_error is Some,
                        attempts_received == tr.recv_err && tr.recv_err <= tr.spawned,
                        forall|i: int| 0 <= i < tr.reqs.len() ==> tr.reqs[i] == req,
                    ensures tr.queue.len() == 0 && tr.recv_err == tr.spawned,   // #gives_up_only_after_every_started_attempt_has_reported_failure [C12]
                    """,
            }),
        ]),
        "Hedge::call@Service": dict(rules=[
            ("R4",),
            ("sub", "R3-call", r"execute_with_hedging\(inner, req, config\)\.await", "execute_with_hedging(inner, req, config, clk, Tracked(tr))", 1),
        ]),
        "Hedge::clone@Clone": dict(),
        "Hedge::poll_ready@Service": dict(rules=[("R10p", "HedgeError::Inner")]),
    },
    types=[
        ("enum", "HedgeError", "error"),
        ("struct", "HedgeConfig", "config"),
        ("struct", "Hedge", "lib"),
    ],
)
