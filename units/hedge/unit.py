HG = "crates/tower-resilience-hedge/src/"
TR = "Tracked(tr)"
UNIT = dict(
    serves=["C12", "C20"],
    files={"lib": HG + "lib.rs", "config": HG + "config.rs", "error": HG + "error.rs"},
    default_file="lib",
    verus_flags=["--no-erasure-check"],
    rules=[("R1",), ("R2",)],
    extra_params=["clk", "tr"],
    fns={
        "execute_with_hedging": dict(rules=[
            ("sub", "R9-paths", r"use tokio::sync::mpsc;", "", 1),
            ("sub", "R9-paths", r"use tower::ServiceExt;", "", -1),
            ("sub", "R9-paths", r"mpsc::channel::<\(usize, Result<S::Response, S::Error>\)>\(([^()]*)\)", r"channel(\1, Tracked(tr))", 1),
            ("inject", r"let \(tx, mut rx\) = channel\([^;]*;", "after", "let ghost vx_roomy = tr.chan_cap >= max_attempts;", 1),
            ("sub", "R16-local-type", r"let mut primary_error: Option<S::Error> = None;", "let mut primary_error: Option<E> = None;", 1),
            ("R17-spawn", 3),
            ("sub", "R17-spawn-instant", r"proof \{ tr\.spawned = tr\.spawned \+ 1; \}", "vx_tick(clk); proof { tr.spawned = tr.spawned + 1; tr.spawn_at = tr.spawn_at.push(clk.now@); }", 3),
            ("addarg", ["try_send"], TR, -1),
            ("R17-select", 1),
            ("sub", "R13-pin", r"std::pin::pin!\(tokio::time::sleep\(delay\)\)", "sleep(delay, clk)", 1),
            ("sub", "R13-pin", r"delay_fut\.set\(tokio::time::sleep\(([^()]*)\)\)", r"delay_fut = sleep(\1, clk)", -1),
            ("sub", "R13-pin", r"delay_fut\.as_mut\(\)\.", "delay_fut.", -1),
            ("sub", "R13-pin", r"\(&mut delay_fut\)\.vx_await\(", "delay_fut.vx_await_mut(clk, ", 1),
            ("sub", "R10-guard", r"match first_delay \{\s*Some\(delay\) if delay > Duration::ZERO => \{", "match vx_positive_delay(first_delay) { Some(delay) => {", 1),
            ("sub", "R10-closure", r"primary_error\.unwrap_or_else\(\|\| e\.clone\(\)\)", "(match primary_error { Some(vx_pe) => vx_pe, None => e.clone() })", -1),
            ("sub", "expect", r"\.expect\(\"[^\"]*\"\)", ".unwrap()", 1),
            ("sub", "R6-drop", r"\bdrop\(tx\);", "vx_drop_tx(tx, Tracked(tr));", 1),
            ("R3",), ("R5",),
            ("addarg", ["call"], TR, 3),   # call + 2 x oneshot
            ("R10e", None),
            ("sub", "literal-types", r"let mut hedges_spawned: usize = 0;", "let mut hedges_spawned: usize = 0;", 1),
            ("loops", {
                0: """invariant
                        tr.tx_alive && tr.unguarded == 0 && max_attempts == config.max_hedged_attempts && max_attempts > 1,
                        tr.spawned == hedges_spawned + 1 && 1 <= tr.calls <= tr.spawned && tr.done == tr.calls && tr.reqs.len() == tr.calls,   // #at_most_one_inner_call_per_started_attempt [C12]
                        hedges_spawned + 1 <= max_attempts,   // #never_starts_more_than_max_hedged_attempts [C12]
                        tr.recv_ok == 0,   // #keeps_waiting_only_while_no_attempt_has_succeeded [C12]
                        tr.queue.len() + tr.recv_err == tr.spawned,   // #every_started_attempt_reports_exactly_once [C12]
                        forall|i: int| 0 <= i < tr.reqs.len() ==> tr.reqs[i] == req,   // #every_attempt_carries_the_request [C12,C20]
                        failures == tr.recv_err,   // #counts_every_reported_failure [C12]
                        tr.spawn_at.len() == tr.spawned && clk.now@ >= tr.spawn_at[hedges_spawned as int], vx_roomy == (tr.chan_cap >= max_attempts),
                        spaced_starts(tr.spawn_at, config.delay),   // #each_hedge_starts_no_earlier_than_its_delay_after_the_previous_start [C12]
                        hedges_spawned + 1 < max_attempts && delay_spec(config.delay, (hedges_spawned + 1) as usize) is Some ==> delay_fut.deadline@ >= tr.spawn_at[hedges_spawned as int] + dl(config.delay, (hedges_spawned + 1) as usize),   // #timer_armed_for_the_full_delay_after_the_latest_start [C12]
                    ensures false,   // the loop is left only by returning: the channel cannot close while this function holds a sender
                    """,
                1: """invariant
                        tr.tx_alive && tr.unguarded == 0 && max_attempts == config.max_hedged_attempts && max_attempts > 1,
                        1 <= i <= max_attempts && hedges_spawned + 1 == i,
                        tr.spawned == hedges_spawned + 1 && 1 <= tr.calls <= tr.spawned && tr.done == tr.calls && tr.reqs.len() == tr.calls,   // #at_most_one_inner_call_per_started_attempt [C12]
                        tr.recv_ok == 0 && tr.recv_err == 0 && tr.queue.len() == tr.spawned && tr.slept == 0,   // #parallel_mode_starts_all_attempts_at_once [C12]
                        forall|i: int| 0 <= i < tr.reqs.len() ==> tr.reqs[i] == req,   // #every_attempt_carries_the_request [C12,C20]
                        primary_error is None,
                        tr.spawn_at.len() == tr.spawned && vx_positive_delay_spec(delay_spec(config.delay, 1)) is None, vx_roomy == (tr.chan_cap >= max_attempts),
                    """,
                2: """invariant
                        !tr.tx_alive && tr.unguarded == 0,
                        tr.spawned == hedges_spawned + 1 && 1 <= tr.calls <= tr.spawned && tr.spawned <= cap(config.max_hedged_attempts),
                        tr.recv_ok == 0,   // #keeps_waiting_only_while_no_attempt_has_succeeded [C12]
                        tr.queue.len() + tr.recv_err == tr.spawned,   // #every_started_attempt_reports_exactly_once [C12]
                        tr.recv_err > 0 ==> primary_error is Some,
                        attempts_received == tr.recv_err && tr.recv_err <= tr.spawned,
                        tr.spawn_at.len() == tr.spawned && (tr.spawned == 1 || vx_positive_delay_spec(delay_spec(config.delay, 1)) is None),
                        forall|i: int| 0 <= i < tr.reqs.len() ==> tr.reqs[i] == req,
                    ensures tr.queue.len() == 0 && tr.recv_err == tr.spawned,   // #gives_up_only_after_every_started_attempt_has_reported_failure [C12]
                    """,
            }),
        ]),
        "Hedge::call@Service": dict(rules=[
            ("R4",),
            ("sub", "R3-call", r"execute_with_hedging\((\w+), req, config\)\.await", r"execute_with_hedging(\1, req, config, clk, Tracked(tr))", 1),
        ]),
        "Hedge::clone@Clone": dict(),
        "HedgeDelay::get_delay": dict(file="config", rules=[("sub", "R10-fn-call", r"(?<![\w.:])([a-z_]\w*)\(attempt\)", r"\1.vx_call(attempt)", 1)]),
        "Hedge::poll_ready@Service": dict(rules=[("R10p", "HedgeError::Inner")]),
    },
    frame=[
        # the select! shim takes a result that has arrived; that rests on the result arm being examined before the hedge timer:
        # otherwise a poll that finds a successful response AND an expired delay may start another attempt instead of resolving
        dict(name="an_available_response_is_never_passed_over_for_an_expired_hedge_delay", tags=["C12", "C20"], select_timer_last=r"\bdelay_fut\b|\bsleep(_until)?\s*\(",
             glob="crates/tower-resilience-hedge/src/lib.rs", violation=True),
    ],
    types=[
        ("enum", "HedgeError", "error"),
        ("enum", "HedgeDelay", "config"),
        ("struct", "HedgeConfig", "config"),
        ("struct", "Hedge", "lib"),
    ],
)
