#![feature(allocator_api)]
#![allow(unused)]
use vstd::prelude::*;
use vstd::std_specs::cmp::*;
use core::cmp::Ordering as CmpOrdering;
use std::sync::Arc;
verus! {
//@include time.rs
//@include trace.rs
pub open spec fn call_gate<Req, Res, E>(tr: Trace<Req, Res, E>) -> bool { true }
pub open spec fn await_gate<Req, Res, E>(tr: Trace<Req, Res, E>) -> bool { true }
//@include inner.rs
//@include events.rs

// ---- unit prelude (ASSUMED). R17: every `tokio::spawn(async move { B })` runs B in line (a detached task runs to completion;
// its only interaction with the spawner is the one message it sends); `tokio::select!` becomes a nondeterministic choice among its
// enabled branches. Both are over-approximations: every real execution of the spawning function is one of the modelled ones. ----
pub trait VClone: Sized { fn clone(&self) -> (r: Self) ensures r == *self; }
/// tokio::sync::mpsc: the pending messages are ghost state of the trace; recv() may return ANY pending message
pub struct Sender<Res, E> { pub p: core::marker::PhantomData<(Res, E)> }
pub struct Receiver<Res, E> { pub p: core::marker::PhantomData<(Res, E)> }
pub struct SendFut<Res, E> { pub msg: (usize, Result<Res, E>) }
pub struct RecvFut {}
pub struct SendError {}
#[verifier::external_body]
pub fn channel<Req, Res, E>(capacity: usize, Tracked(tr): Tracked<&mut Trace<Req, Res, E>>) -> (r: (Sender<Res, E>, Receiver<Res, E>))
    requires capacity >= 1,   // tokio panics on a zero-capacity bounded channel
    ensures *final(tr) == (Trace { tx_alive: true, chan_cap: capacity as nat, ..*old(tr) }),
{ unimplemented!() }
impl<Res, E> Sender<Res, E> {
    #[verifier::external_body] pub fn clone(&self) -> (r: Self) { unimplemented!() }
    /// non-blocking send: the message is queued when the channel has room and DROPPED otherwise (pending messages of blocked
    /// senders count against the capacity here, which only makes a drop possible more often than in reality)
    #[verifier::external_body]
    pub fn try_send<Req>(&self, msg: (usize, Result<Res, E>), Tracked(tr): Tracked<&mut Trace<Req, Res, E>>) -> (r: Result<(), SendError>)
        ensures r is Ok ==> *final(tr) == (Trace { queue: old(tr).queue.push(msg), ..*old(tr) }),
            r is Err ==> *final(tr) == *old(tr),
            old(tr).queue.len() < old(tr).chan_cap ==> r is Ok,
    { unimplemented!() }
    #[verifier::external_body] pub fn send(&self, msg: (usize, Result<Res, E>)) -> (r: SendFut<Res, E>) ensures r.msg == msg { unimplemented!() }
}
impl<Res, E> SendFut<Res, E> {
    #[verifier::external_body]
    pub fn vx_await<Req>(self, Tracked(tr): Tracked<&mut Trace<Req, Res, E>>) -> (r: Result<(), SendError>)
        ensures *final(tr) == (Trace { queue: old(tr).queue.push(self.msg), ..*old(tr) }),
    { unimplemented!() }
}
impl<Res, E> Receiver<Res, E> {
    #[verifier::external_body] pub fn recv(&mut self) -> (r: RecvFut) { unimplemented!() }
}
pub open spec fn received<Req, Res, E>(pre: Trace<Req, Res, E>, post: Trace<Req, Res, E>, m: (usize, Result<Res, E>)) -> bool {
    exists|i: int| 0 <= i < pre.queue.len() && pre.queue[i] == m && post == (Trace { queue: pre.queue.remove(i), last_recv: Some(m),
        recv_ok: pre.recv_ok + if m.1 is Ok { 1nat } else { 0nat }, recv_err: pre.recv_err + if m.1 is Err { 1nat } else { 0nat }, ..pre })
}
impl RecvFut {
    /// returns some pending message; None only when every sender is gone and nothing is pending; with nothing pending and a
    /// sender alive it does not return (no safety claim is made about executions that wait forever)
    #[verifier::external_body]
    pub fn vx_await<Req, Res, E>(self, Tracked(tr): Tracked<&mut Trace<Req, Res, E>>) -> (r: Option<(usize, Result<Res, E>)>)
        ensures
            r matches Some(m) ==> received(*old(tr), *final(tr), m),
            r is None ==> !old(tr).tx_alive && old(tr).queue.len() == 0 && *final(tr) == *old(tr),
            old(tr).queue.len() > 0 ==> r is Some,
            old(tr).queue.len() == 0 ==> !old(tr).tx_alive,
    { unimplemented!() }
}
#[verifier::external_body]
pub fn vx_drop_tx<Req, Res, E>(tx: Sender<Res, E>, Tracked(tr): Tracked<&mut Trace<Req, Res, E>>)
    ensures *final(tr) == (Trace { tx_alive: false, ..*old(tr) }),
{ unimplemented!() }
/// select! over { recv, timer if c1, else }: 0 only if a message is pending, 1 only if its guard holds, 2 only if neither
#[verifier::external_body]
pub fn vx_select2<Req, Res, E>(c1: bool, Tracked(tr): Tracked<&mut Trace<Req, Res, E>>) -> (r: u8)
    ensures *final(tr) == *old(tr), r <= 2, r == 0 ==> old(tr).queue.len() > 0, r == 1 ==> c1, r == 2 ==> old(tr).queue.len() == 0 && !c1,
{ unimplemented!() }
pub fn vx_branch_disabled() requires false { }
/// a select! branch that cannot be taken
#[verifier::external_body]
pub fn vx_never<T>() -> (r: T) requires false { unimplemented!() }
/// tokio::time::Sleep with its deadline as ghost state. Time is the Clock's ghost instant: it moves forward by an arbitrary
/// amount at every vx_tick (placed where the task can be descheduled) and a timer completes at SOME instant at or after its deadline.
pub struct SleepFut { pub d: Duration, pub deadline: Ghost<nat> }
#[verifier::external_body]
pub fn vx_tick(clk: &mut Clock) ensures final(clk).now@ >= old(clk).now@ { unimplemented!() }
#[verifier::external_body]
pub fn sleep(d: Duration, clk: &mut Clock) -> (r: SleepFut)
    ensures final(clk).now@ >= old(clk).now@, r.d == d, r.deadline@ == final(clk).now@ + d.nanos,
{ unimplemented!() }
impl SleepFut {
    /// `&mut sleep` awaited in place
    #[verifier::external_body]
    pub fn vx_await_mut<Req, Res, E>(&mut self, clk: &mut Clock, Tracked(tr): Tracked<&mut Trace<Req, Res, E>>)
        ensures *final(self) == *old(self), final(clk).now@ >= old(clk).now@ && final(clk).now@ >= old(self).deadline@,
            *final(tr) == (Trace { ev: old(tr).ev.push(Ev::Sleep(old(self).d)), slept: old(tr).slept + old(self).d.nanos as nat, slept_since_done: old(tr).slept_since_done + old(self).d.nanos as nat, ..*old(tr) }),
    { unimplemented!() }
    #[verifier::external_body]
    pub fn deadline(&self) -> (r: Instant) ensures r.t == self.deadline@ { unimplemented!() }
    #[verifier::external_body]
    pub fn reset(&mut self, deadline: Instant) ensures final(self).deadline@ == deadline.t, final(self).d == old(self).d { unimplemented!() }
}
/// the configured delay before attempt k, in nanoseconds (0 when none is configured)
pub open spec fn dl(d: HedgeDelay, k: usize) -> nat { match delay_spec(d, k) { Some(x) => x.nanos as nat, None => 0 } }
/// each attempt after the first was started no earlier than its delay after the previous attempt was started
pub open spec fn spaced_starts(at: Seq<nat>, d: HedgeDelay) -> bool {
    forall|k: int| 1 <= k < at.len() ==> #[trigger] at[k] >= at[k - 1] + dl(d, k as usize)
}
pub open spec fn vx_positive_delay_spec(o: Option<Duration>) -> Option<Duration> { if o is Some && o->0.nanos > 0 { o } else { None::<Duration> } }
pub fn vx_positive_delay(o: Option<Duration>) -> (r: Option<Duration>)
    ensures r == vx_positive_delay_spec(o),
{ match o { Some(d) => if d.nanos > 0 { Some(d) } else { None }, None => None } }
/// the user's delay callback (Arc<dyn Fn(usize) -> Duration>): a pure function of the attempt number, by assumption
pub struct DelayFn { pub id: Ghost<int> }
pub uninterp spec fn delay_fn_spec(f: DelayFn, attempt: usize) -> Duration;
impl DelayFn {
    #[verifier::external_body]
    pub fn vx_call(&self, attempt: usize) -> (r: Duration) ensures r == delay_fn_spec(*self, attempt) { unimplemented!() }
}
pub open spec fn delay_spec(d: HedgeDelay, attempt: usize) -> Option<Duration> {
    match d {
        HedgeDelay::Fixed(x) => Some(x),
        HedgeDelay::Immediate => Some(Duration { nanos: 0 }),
        HedgeDelay::Dynamic(f) => Some(delay_fn_spec(*f, attempt)),
    }
}

// ---- types of /repo (shape-checked) ----
pub enum HedgeDelay { Fixed(Duration), Immediate, Dynamic(Arc<DelayFn>) }
impl HedgeDelay {
    pub fn get_delay(&self, attempt: usize) -> (r: Option<Duration>)
        ensures r == delay_spec(*self, attempt),   // #fixed_delay_for_every_attempt_zero_when_immediate_the_callbacks_value_otherwise [C12]
            r is Some,   // #every_attempt_has_a_delay [C12]
    //@body HedgeDelay::get_delay file=config
}
pub enum HedgeError<E> { AllAttemptsFailed(E), Inner(E) }
pub struct HedgeConfig { pub name: Option<Name>, pub max_hedged_attempts: usize, pub delay: HedgeDelay, pub listeners: EventListeners }
pub struct Hedge<Req, Res, E> { pub inner: Inner<Req, Res, E>, pub config: Arc<HedgeConfig> }

/// nothing hedging-related has happened yet in this trace
pub open spec fn hedge_start<Req, Res, E>(t: Trace<Req, Res, E>) -> bool {
    t.calls == 0 && t.done == 0 && t.reqs.len() == 0 && t.spawned == 0 && t.spawn_at.len() == 0 && t.queue.len() == 0 && !t.tx_alive && t.recv_ok == 0 && t.recv_err == 0 && t.unguarded == 0 && t.slept == 0 && t.last_recv is None
}
pub open spec fn cap(max_attempts: usize) -> nat { if max_attempts >= 1 { max_attempts as nat } else { 1 } }

#[verifier::exec_allows_no_decreases_clause]
#[verifier::loop_isolation(false)]
#[verifier::allow_complex_invariants]
pub fn execute_with_hedging<Req: VClone, Res, E: VClone>(service: Inner<Req, Res, E>, req: Req, config: Arc<HedgeConfig>, clk: &mut Clock, Tracked(tr): Tracked<&mut Trace<Req, Res, E>>) -> (result: Result<Res, HedgeError<E>>)
    requires old(tr).fresh() || *old(tr) == (Trace { created: true, ev: old(tr).ev, ..*old(tr) }) && hedge_start(*old(tr)), config.max_hedged_attempts >= 1,
        service.ready@,   // the instance handed over is the one poll_ready drove to readiness (Hedge::call, mem::replace)   // the builder clamps max_hedged_attempts to >= 1
    ensures
        1 <= final(tr).calls <= cap(config.max_hedged_attempts),   // #at_least_one_and_at_most_max_hedged_attempts_inner_calls [C12]
        vx_positive_delay_spec(delay_spec(config.delay, 1)) is Some ==> spaced_starts(final(tr).spawn_at, config.delay) && final(tr).spawn_at.len() == final(tr).spawned,   // #with_a_delay_each_attempt_starts_no_earlier_than_its_delay_after_the_previous_start [C12]
        forall|i: int| 0 <= i < final(tr).reqs.len() ==> final(tr).reqs[i] == req,   // #every_attempt_carries_the_request [C12,C20]
        result matches Ok(v) ==> (final(tr).last_recv matches Some(m) && m.1 == Ok::<Res, E>(v)),   // #resolves_with_a_successful_attempts_response [C12,C20]
        result is Ok <==> final(tr).recv_ok >= 1,   // #returns_at_the_first_successful_result [C12]
        final(tr).recv_ok <= 1,   // #stops_receiving_after_a_success [C12]
        result matches Err(HedgeError::AllAttemptsFailed(_)) ==> final(tr).spawned == cap(config.max_hedged_attempts) && final(tr).recv_err == final(tr).spawned,   // #all_attempts_failed_only_when_every_attempt_was_started_and_has_failed [C12]
        result matches Err(HedgeError::AllAttemptsFailed(_)) ==> final(tr).spawned == cap(config.max_hedged_attempts) && final(tr).recv_err >= 1 && final(tr).recv_ok == 0,   // #all_attempts_failed_only_after_every_attempt_was_started_and_none_has_succeeded [C12]
        !(result matches Err(HedgeError::Inner(_))),   // #never_reports_a_single_attempts_error_as_the_outcome [C12]
//@body execute_with_hedging

impl<Req: VClone, Res, E: VClone> Hedge<Req, Res, E> {
    pub fn clone(&self) -> (r: Self)
        ensures r.config == self.config,   // #clones_share_the_config [C12]
    //@body Hedge::clone@Clone
    pub fn call(&mut self, req: Req, clk: &mut Clock, Tracked(tr): Tracked<&mut Trace<Req, Res, E>>) -> (result: Result<Res, HedgeError<E>>)
        requires old(tr).fresh(), old(self).inner.ready@, old(self).config.max_hedged_attempts >= 1,
        ensures
            1 <= final(tr).calls <= cap(old(self).config.max_hedged_attempts),   // #at_least_one_and_at_most_max_hedged_attempts_inner_calls [C12]
            forall|i: int| 0 <= i < final(tr).reqs.len() ==> final(tr).reqs[i] == req,   // #every_attempt_carries_the_request [C12,C20]
            result matches Ok(v) ==> (final(tr).last_recv matches Some(m) && m.1 == Ok::<Res, E>(v)),   // #resolves_with_a_successful_attempts_response [C12,C20]
            result matches Err(HedgeError::AllAttemptsFailed(_)) ==> final(tr).spawned == cap(old(self).config.max_hedged_attempts) && final(tr).recv_err == final(tr).spawned,   // #all_attempts_failed_only_when_every_attempt_was_started_and_has_failed [C12]
            final(self).config == old(self).config,   // #shared_state_handles_and_configuration_are_left_untouched [C12]
    //@body Hedge::call@Service
    pub fn poll_ready(&mut self, cx: &mut Context) -> (r: Poll<Result<(), HedgeError<E>>>)
        ensures r matches Poll::Ready(Ok(_)) ==> final(self).inner.ready@,   // #ready_only_when_inner_ready [C20]
            r matches Poll::Ready(Err(e)) ==> e is Inner,   // #readiness_errors_surface_as_inner [C20]
            final(self).config == old(self).config,   // #shared_state_handles_and_configuration_are_left_untouched [C12]
    //@body Hedge::poll_ready@Service
}
fn main() {}
}
