#![feature(allocator_api)]
#![allow(unused)]
use vstd::prelude::*;
use vstd::std_specs::cmp::*;
use core::cmp::Ordering as CmpOrdering;
use std::sync::Arc;
verus! {
// ---- unit prelude (ASSUMED): opaque values for everything a builder merely stores ----
//@include time.rs
pub struct Name { pub id: Ghost<int> }
/// any expression that wraps a user closure (Arc::new(f)): its value is irrelevant here — the claims are about the OTHER fields
#[verifier::external_body] pub fn vx_wrap<T>() -> (r: T) { unimplemented!() }
/// `Arc::new(x)` of a user closure / object handed to a setter: the stored value is a function of x alone (so "the first one wins" or
/// "ignored" is visible), nothing else is known about it
pub uninterp spec fn wrapped<A, T>(a: A) -> T;
#[verifier::external_body] pub fn vx_wrap_of<A, T>(a: A) -> (r: T) ensures r == wrapped::<A, T>(a) { unimplemented!() }

// ===== reconnect (C16) =====
pub struct ReconnectPolicy { pub id: Ghost<int> }
impl ReconnectPolicy {
    #[verifier::external_body] pub fn default() -> (r: Self) { unimplemented!() }
    #[verifier::external_body] pub fn clone(&self) -> (r: Self) ensures r == *self { unimplemented!() }
}
pub struct ReconnectPredicate { pub id: Ghost<int> }
pub trait VClone: Sized { fn clone(&self) -> (r: Self) ensures r == *self; }
impl VClone for Option<ReconnectPredicate> {
    #[verifier::external_body] fn clone(&self) -> (r: Self) { unimplemented!() }
}
pub struct ReconnectConfig { pub policy: ReconnectPolicy, pub max_attempts: Option<u32>, pub retry_on_reconnect: bool, pub reconnect_predicate: Option<ReconnectPredicate> }
impl ReconnectConfig {
    pub fn clone(&self) -> (r: Self)
        ensures r == *self,   // #a_cloned_configuration_is_the_same_configuration [C16]
    //@body ReconnectConfig::clone@Clone
    pub fn default() -> (r: Self)
        ensures r.max_attempts is None && r.retry_on_reconnect && r.reconnect_predicate is None,   // #defaults_unlimited_retrying_every_error [C16]
    //@body ReconnectConfig::default@Default
    pub fn max_attempts(&self) -> (r: Option<u32>)
        ensures r == self.max_attempts,   // #reports_the_configured_bound [C16]
    //@body ReconnectConfig::max_attempts
    pub fn retry_on_reconnect(&self) -> (r: bool)
        ensures r == self.retry_on_reconnect,   // #reports_the_configured_flag [C16]
    //@body ReconnectConfig::retry_on_reconnect
}
pub struct ReconnectConfigBuilder { pub policy: ReconnectPolicy, pub max_attempts: Option<u32>, pub retry_on_reconnect: bool, pub reconnect_predicate: Option<ReconnectPredicate> }
impl ReconnectConfigBuilder {
    pub fn default() -> (r: Self)
        ensures r.max_attempts is None && r.retry_on_reconnect && r.reconnect_predicate is None,   // #defaults_unlimited_retrying_every_error [C16]
    //@body ReconnectConfigBuilder::default@Default
    pub fn policy(self, policy: ReconnectPolicy) -> (r: Self)
        ensures r.policy == policy,   // #sets_the_policy [C16]
            r.max_attempts == self.max_attempts && r.retry_on_reconnect == self.retry_on_reconnect && r.reconnect_predicate == self.reconnect_predicate,   // #keeps_every_other_setting [C16]
    //@body ReconnectConfigBuilder::policy
    pub fn max_attempts(self, max_attempts: u32) -> (r: Self)
        ensures r.max_attempts == Some(max_attempts),   // #sets_a_finite_bound_including_zero [C16]
            r.policy == self.policy && r.retry_on_reconnect == self.retry_on_reconnect && r.reconnect_predicate == self.reconnect_predicate,   // #keeps_every_other_setting [C16]
    //@body ReconnectConfigBuilder::max_attempts
    pub fn unlimited_attempts(self) -> (r: Self)
        ensures r.max_attempts is None,   // #unlimited_only_when_asked_for [C16]
            r.policy == self.policy && r.retry_on_reconnect == self.retry_on_reconnect && r.reconnect_predicate == self.reconnect_predicate,   // #keeps_every_other_setting [C16]
    //@body ReconnectConfigBuilder::unlimited_attempts
    pub fn retry_on_reconnect(self, retry: bool) -> (r: Self)
        ensures r.retry_on_reconnect == retry,   // #sets_retry_on_reconnect [C16]
            r.policy == self.policy && r.max_attempts == self.max_attempts && r.reconnect_predicate == self.reconnect_predicate,   // #keeps_every_other_setting [C16]
    //@body ReconnectConfigBuilder::retry_on_reconnect
    pub fn reconnect_predicate<F>(self, predicate: F) -> (r: Self)
        ensures r.reconnect_predicate == Some(wrapped::<F, ReconnectPredicate>(predicate)),   // #the_predicate_in_force_is_the_one_given_last [C16]
            r.policy == self.policy && r.max_attempts == self.max_attempts && r.retry_on_reconnect == self.retry_on_reconnect,   // #keeps_every_other_setting [C16]
    //@body ReconnectConfigBuilder::reconnect_predicate
    pub fn connection_errors_only(self) -> (r: Self)
        ensures r.reconnect_predicate is Some,   // #installs_a_predicate [C16]
            r.policy == self.policy && r.max_attempts == self.max_attempts && r.retry_on_reconnect == self.retry_on_reconnect,   // #keeps_every_other_setting [C16]
    //@body ReconnectConfigBuilder::connection_errors_only
    pub fn build(self) -> (r: ReconnectConfig)
        ensures r.policy == self.policy && r.max_attempts == self.max_attempts && r.retry_on_reconnect == self.retry_on_reconnect
            && r.reconnect_predicate == self.reconnect_predicate,   // #configuration_is_exactly_what_was_set [C16]
    //@body ReconnectConfigBuilder::build
}

// ===== retry (C05, C14) =====
pub struct EventListeners { pub n: Ghost<nat> }
impl EventListeners {
    #[verifier::external_body] pub fn new() -> (r: Self) ensures r.n@ == 0 { unimplemented!() }
    #[verifier::external_body] pub fn add<L>(&mut self, l: L) ensures final(self).n@ == old(self).n@ + 1 { unimplemented!() }
}
pub struct Listener { pub id: Ghost<int> }
pub struct MaxFn { pub id: Ghost<int> }
pub enum MaxAttemptsSource { Fixed(usize), Dynamic(Arc<MaxFn>) }
impl MaxAttemptsSource {
    pub fn default() -> (r: Self)
        ensures r == MaxAttemptsSource::Fixed(3),   // #three_attempts_by_default [C05]
    //@body MaxAttemptsSource::default@Default file=rtconfig
}
/// the backoff object behind `Arc<dyn IntervalFunction>`: which constructor built it, with which interval
pub enum IntervalFn { Fixed(Duration), Exponential(Duration), Custom(int) }
pub struct FixedInterval { pub p: u8 }
impl FixedInterval { #[verifier::external_body] pub fn new(d: Duration) -> (r: IntervalFn) ensures r == IntervalFn::Fixed(d) { unimplemented!() } }
pub struct ExponentialBackoff { pub p: u8 }
impl ExponentialBackoff { #[verifier::external_body] pub fn new(d: Duration) -> (r: IntervalFn) ensures r == IntervalFn::Exponential(d) { unimplemented!() } }
pub struct RetryPredicate { pub id: Ghost<int> }
pub struct Budget { pub id: Ghost<int> }
pub struct RetryPolicy { pub interval_fn: Arc<IntervalFn>, pub retry_predicate: Option<RetryPredicate> }
impl RetryPolicy {
    pub fn new(interval_fn: Arc<IntervalFn>) -> (r: Self)
        ensures r.interval_fn == interval_fn && r.retry_predicate is None,   // #a_new_policy_retries_every_error_with_the_given_backoff [C05]
    //@body RetryPolicy::new file=rtpolicy
}
pub struct RetryConfig { pub policy: RetryPolicy, pub max_attempts_source: MaxAttemptsSource, pub event_listeners: EventListeners, pub name: Name, pub budget: Option<Arc<Budget>> }
pub struct RetryLayer { pub config: Arc<RetryConfig> }
impl RetryLayer {
    pub fn new(config: RetryConfig) -> (r: Self)
        ensures *r.config == config,   // #layer_keeps_the_configuration [C05]
    //@body RetryLayer::new file=rtlayer
}
pub struct RetryConfigBuilder { pub max_attempts_source: MaxAttemptsSource, pub interval_fn: Option<Arc<IntervalFn>>, pub retry_predicate: Option<RetryPredicate>, pub event_listeners: EventListeners, pub name: Name, pub budget: Option<Arc<Budget>> }
impl RetryConfigBuilder {
    pub fn new() -> (r: Self)
        ensures r.max_attempts_source == MaxAttemptsSource::Fixed(3) && r.interval_fn is None && r.retry_predicate is None && r.budget is None && r.event_listeners.n@ == 0,   // #defaults_three_attempts_no_predicate_no_budget [C05]
    //@body RetryConfigBuilder::new file=rtconfig
    pub fn default() -> (r: Self)
        ensures r.max_attempts_source == MaxAttemptsSource::Fixed(3) && r.interval_fn is None && r.retry_predicate is None && r.budget is None && r.event_listeners.n@ == 0,   // #defaults_three_attempts_no_predicate_no_budget [C05]
    //@body RetryConfigBuilder::default@Default file=rtconfig
    pub fn max_attempts(self, max_attempts: usize) -> (r: Self)
        ensures r.max_attempts_source == MaxAttemptsSource::Fixed(max_attempts),   // #sets_a_fixed_number_of_attempts [C05]
            r.interval_fn == self.interval_fn && r.retry_predicate == self.retry_predicate && r.event_listeners == self.event_listeners && r.name == self.name && r.budget == self.budget,   // #keeps_every_other_setting [C05]
    //@body RetryConfigBuilder::max_attempts file=rtconfig
    pub fn max_attempts_fn<F>(self, f: F) -> (r: Self)
        ensures r.max_attempts_source == MaxAttemptsSource::Dynamic(wrapped(f)),   // #sets_per_request_attempts [C05]
            r.interval_fn == self.interval_fn && r.retry_predicate == self.retry_predicate && r.event_listeners == self.event_listeners && r.name == self.name && r.budget == self.budget,   // #keeps_every_other_setting [C05]
    //@body RetryConfigBuilder::max_attempts_fn file=rtconfig
    pub fn fixed_backoff(self, duration: Duration) -> (r: Self)
        ensures r.interval_fn is Some && *r.interval_fn->0 == IntervalFn::Fixed(duration),   // #sets_a_fixed_backoff_of_the_given_duration [C05]
            r.max_attempts_source == self.max_attempts_source && r.retry_predicate == self.retry_predicate && r.event_listeners == self.event_listeners && r.name == self.name && r.budget == self.budget,   // #keeps_every_other_setting [C05]
    //@body RetryConfigBuilder::fixed_backoff file=rtconfig
    pub fn exponential_backoff(self, initial_interval: Duration) -> (r: Self)
        ensures r.interval_fn is Some && *r.interval_fn->0 == IntervalFn::Exponential(initial_interval),   // #sets_an_exponential_backoff_starting_at_the_given_interval [C05,C14]
            r.max_attempts_source == self.max_attempts_source && r.retry_predicate == self.retry_predicate && r.event_listeners == self.event_listeners && r.name == self.name && r.budget == self.budget,   // #keeps_every_other_setting [C05]
    //@body RetryConfigBuilder::exponential_backoff file=rtconfig
    pub fn backoff<I>(self, interval_fn: I) -> (r: Self)
        ensures r.interval_fn == Some(wrapped::<I, Arc<IntervalFn>>(interval_fn)),   // #sets_the_given_backoff [C05]
            r.max_attempts_source == self.max_attempts_source && r.retry_predicate == self.retry_predicate && r.event_listeners == self.event_listeners && r.name == self.name && r.budget == self.budget,   // #keeps_every_other_setting [C05]
    //@body RetryConfigBuilder::backoff file=rtconfig
    pub fn retry_on<F>(self, predicate: F) -> (r: Self)
        ensures r.retry_predicate == Some(wrapped::<F, RetryPredicate>(predicate)),   // #the_predicate_in_force_is_the_one_given_last [C05]
            r.max_attempts_source == self.max_attempts_source && r.interval_fn == self.interval_fn && r.event_listeners == self.event_listeners && r.name == self.name && r.budget == self.budget,   // #keeps_every_other_setting [C05]
    //@body RetryConfigBuilder::retry_on file=rtconfig
    pub fn name<S>(self, name: S) -> (r: Self)
        ensures r.max_attempts_source == self.max_attempts_source && r.interval_fn == self.interval_fn && r.retry_predicate == self.retry_predicate && r.event_listeners == self.event_listeners && r.budget == self.budget,   // #keeps_every_other_setting [C05]
    //@body RetryConfigBuilder::name file=rtconfig
    pub fn budget(self, budget: Arc<Budget>) -> (r: Self)
        ensures r.budget == Some(budget),   // #installs_the_given_budget [C05,C08]
            r.max_attempts_source == self.max_attempts_source && r.interval_fn == self.interval_fn && r.retry_predicate == self.retry_predicate && r.event_listeners == self.event_listeners && r.name == self.name,   // #keeps_every_other_setting [C05]
    //@body RetryConfigBuilder::budget file=rtconfig
    pub fn on_budget_exhausted<F>(self, f: F) -> (r: Self)
        ensures r.max_attempts_source == self.max_attempts_source && r.interval_fn == self.interval_fn && r.retry_predicate == self.retry_predicate && r.name == self.name && r.budget == self.budget,   // #listener_registration_keeps_every_setting [C05]
    //@body RetryConfigBuilder::on_budget_exhausted file=rtconfig
    pub fn on_retry<F>(self, f: F) -> (r: Self)
        ensures r.max_attempts_source == self.max_attempts_source && r.interval_fn == self.interval_fn && r.retry_predicate == self.retry_predicate && r.name == self.name && r.budget == self.budget,   // #listener_registration_keeps_every_setting [C05]
    //@body RetryConfigBuilder::on_retry file=rtconfig
    pub fn on_success<F>(self, f: F) -> (r: Self)
        ensures r.max_attempts_source == self.max_attempts_source && r.interval_fn == self.interval_fn && r.retry_predicate == self.retry_predicate && r.name == self.name && r.budget == self.budget,   // #listener_registration_keeps_every_setting [C05]
    //@body RetryConfigBuilder::on_success file=rtconfig
    pub fn on_error<F>(self, f: F) -> (r: Self)
        ensures r.max_attempts_source == self.max_attempts_source && r.interval_fn == self.interval_fn && r.retry_predicate == self.retry_predicate && r.name == self.name && r.budget == self.budget,   // #listener_registration_keeps_every_setting [C05]
    //@body RetryConfigBuilder::on_error file=rtconfig
    pub fn on_ignored_error<F>(self, f: F) -> (r: Self)
        ensures r.max_attempts_source == self.max_attempts_source && r.interval_fn == self.interval_fn && r.retry_predicate == self.retry_predicate && r.name == self.name && r.budget == self.budget,   // #listener_registration_keeps_every_setting [C05]
    //@body RetryConfigBuilder::on_ignored_error file=rtconfig
    pub fn build(self) -> (r: RetryLayer)
        ensures
            r.config.max_attempts_source == self.max_attempts_source,   // #attempt_bound_is_exactly_what_was_set [C05]
            r.config.budget == self.budget,   // #budget_is_exactly_what_was_set [C05,C08]
            r.config.policy.retry_predicate == self.retry_predicate,   // #predicate_is_exactly_what_was_set [C05]
            self.interval_fn is Some ==> r.config.policy.interval_fn == self.interval_fn->0,   // #backoff_is_exactly_what_was_set [C05,C14]
            self.interval_fn is None ==> *r.config.policy.interval_fn == IntervalFn::Exponential(Duration { nanos: 100_000_000 }),   // #backoff_defaults_to_exponential_from_100ms [C05]
            r.config.event_listeners == self.event_listeners && r.config.name == self.name,   // #keeps_listeners_and_name [C05]
    //@body RetryConfigBuilder::build file=rtconfig
}
fn main() {}
}
