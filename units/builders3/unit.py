RC = "crates/tower-resilience-reconnect/src/"
RT = "crates/tower-resilience-retry/src/"
MUT = [("sub", "R16-mut-self", r"\bself\b", "self_", -1), ("inject", None, "start", "let mut self_ = self;")]
WRAP = ("wrapcalls", "R6-closure-wrap", r"Arc::new", "vx_wrap()", 1)
WRAPID = ("wrapcalls", "R6-closure-wrap", r"Arc::new", "vx_wrap_of({args})", 1)
LISTEN = ("wrapcalls", "R6-closure-wrap", r"FnListener::new", "vx_wrap::<Listener>()", 1)
def setter(file, *extra):
    return dict(file=file, rules=MUT + list(extra))
UNIT = dict(
    serves=["C16", "C05", "C14", "C08"],
    files={"rcconfig": RC + "config.rs", "rtconfig": RT + "config.rs", "rtpolicy": RT + "policy.rs", "rtlayer": RT + "layer.rs"},
    default_file="rcconfig",
    rules=[("R1",)],
    extra_params=[],
    fns={
        "ReconnectConfig::clone@Clone": dict(),
        "ReconnectConfig::default@Default": dict(),
        "ReconnectConfig::max_attempts": dict(),
        "ReconnectConfig::retry_on_reconnect": dict(),
        "ReconnectConfigBuilder::default@Default": dict(),
        "ReconnectConfigBuilder::policy": setter("rcconfig"),
        "ReconnectConfigBuilder::max_attempts": setter("rcconfig"),
        "ReconnectConfigBuilder::unlimited_attempts": setter("rcconfig"),
        "ReconnectConfigBuilder::retry_on_reconnect": setter("rcconfig"),
        "ReconnectConfigBuilder::reconnect_predicate": setter("rcconfig", WRAPID),
        "ReconnectConfigBuilder::connection_errors_only": setter("rcconfig", WRAP),
        "ReconnectConfigBuilder::build": dict(rules=[("R10f", -1)]),
        "MaxAttemptsSource::default@Default": dict(file="rtconfig"),
        "RetryPolicy::new": dict(file="rtpolicy"),
        "RetryLayer::new": dict(file="rtlayer"),
        "RetryConfigBuilder::new": dict(file="rtconfig", rules=[("sub", "R6-name", r"\"[^\"]*\"\.to_string\(\)", "vx_wrap()", 1), ("sub", "R16-phantom", r"_phantom: PhantomData,", "", 1)]),
        "RetryConfigBuilder::default@Default": dict(file="rtconfig"),
        "RetryConfigBuilder::max_attempts": setter("rtconfig"),
        "RetryConfigBuilder::max_attempts_fn": setter("rtconfig", WRAPID),
        "RetryConfigBuilder::fixed_backoff": setter("rtconfig"),
        "RetryConfigBuilder::exponential_backoff": setter("rtconfig"),
        "RetryConfigBuilder::backoff": setter("rtconfig", WRAPID),
        "RetryConfigBuilder::retry_on": setter("rtconfig", WRAPID),
        "RetryConfigBuilder::name": setter("rtconfig", ("sub", "R6-into", r"\bname\.into\(\)", "vx_wrap()", 1)),
        "RetryConfigBuilder::budget": setter("rtconfig"),
        "RetryConfigBuilder::on_budget_exhausted": setter("rtconfig", LISTEN),
        "RetryConfigBuilder::on_retry": setter("rtconfig", LISTEN),
        "RetryConfigBuilder::on_success": setter("rtconfig", LISTEN),
        "RetryConfigBuilder::on_error": setter("rtconfig", LISTEN),
        "RetryConfigBuilder::on_ignored_error": setter("rtconfig", LISTEN),
        "RetryConfigBuilder::build": dict(file="rtconfig", rules=[
            ("sub", "R10-closure", r"self\s*\.interval_fn\s*\.unwrap_or_else\(\|\|\s*(Arc::new\(ExponentialBackoff::new\(Duration::from_millis\(100\)\)\))\)",
             r"(match self.interval_fn { Some(vx_i) => vx_i, None => \1 })", 1),
            ("sub", "R9-paths", r"crate::RetryLayer", "RetryLayer", -1),
        ]),
    },
    types=[
        ("struct", "RetryConfigBuilder", "rtconfig", {"drop": ["_phantom"]}), ("struct", "RetryConfig", "rtconfig"), ("struct", "RetryPolicy", "rtpolicy"),
        ("enum", "MaxAttemptsSource", "rtconfig"), ("struct", "RetryLayer", "rtlayer"),
        ("struct", "ReconnectConfig", "rcconfig", {"drop": ["on_reconnect", "on_state_change"]}),
        ("struct", "ReconnectConfigBuilder", "rcconfig", {"drop": ["on_reconnect", "on_state_change"]}),
    ],
)
