CH = "crates/tower-resilience-chaos/src/"
MUT = [("sub", "R16-mut-self", r"\bself\b", "self_", -1), ("inject", None, "start", "let mut self_ = self;")]
LISTEN = ("wrapcalls", "R6-closure-wrap", r"FnListener::new", "vx_wrap::<Listener>()", 1)
CLAMP = ("sub", "R14-clamp", r"\b(_?rate)\.clamp\(0\.0, 1\.0\)", r"vx_clamp01(\1)", 1)
INTO = ("sub", "R6-into", r"\bname\.into\(\)", "name", 1)
def setter(*extra):
    return dict(rules=MUT + list(extra))
UNIT = dict(
    serves=["C19"],
    files={"chconfig": CH + "config.rs", "chlayer": CH + "layer.rs"},
    default_file="chconfig",
    rules=[("R1",)],
    extra_params=[],
    fns={
        "CustomErrorFn::new": dict(rules=[CLAMP]),
        "CustomErrorFn::clone@Clone": dict(),
        "ChaosConfig::clone@Clone": dict(),
        "ChaosConfig::create_rng": dict(),
        "ChaosLayer::new": dict(file="chlayer"),
        "ChaosConfigBuilder::new": dict(rules=[("sub", "R6-name", r"\"[^\"]*\"\.to_string\(\)", "vx_wrap()", 1)]),
        "ChaosConfigBuilder::default@Default": dict(),
        "ChaosConfigBuilder::error_rate#0": setter(CLAMP),
        "ChaosConfigBuilder::error_rate#1": dict(rules=[CLAMP]),
        "ChaosConfigBuilder::name": setter(INTO),
        "ChaosConfigBuilder::error_fn": dict(),
        "ChaosConfigBuilder::latency_rate": setter(CLAMP),
        "ChaosConfigBuilder::min_latency": setter(),
        "ChaosConfigBuilder::max_latency": setter(),
        "ChaosConfigBuilder::seed": setter(),
        "ChaosConfigBuilder::on_error_injected": setter(LISTEN),
        "ChaosConfigBuilder::on_latency_injected": setter(LISTEN),
        "ChaosConfigBuilder::on_passed_through": setter(LISTEN),
        "ChaosConfigBuilder::build": dict(rules=[("sub", "R9-paths", r"crate::layer::ChaosLayer", "ChaosLayer", -1)]),
        "ChaosConfigBuilderWithRate::error_fn": dict(),
        "ChaosConfigBuilderWithRate::name": setter(INTO),
        "ChaosConfigBuilderWithRate::latency_rate": setter(CLAMP),
        "ChaosConfigBuilderWithRate::min_latency": setter(),
        "ChaosConfigBuilderWithRate::max_latency": setter(),
        "ChaosConfigBuilderWithRate::seed": setter(),
        "ChaosConfigBuilderWithRate::on_error_injected": setter(LISTEN),
        "ChaosConfigBuilderWithRate::on_latency_injected": setter(LISTEN),
        "ChaosConfigBuilderWithRate::on_passed_through": setter(LISTEN),
    },
    types=[
        ("struct", "ChaosConfig", "chconfig"), ("struct", "ChaosConfigBuilder", "chconfig"), ("struct", "ChaosConfigBuilderWithRate", "chconfig"),
        ("struct", "CustomErrorFn", "chconfig"), ("struct", "ChaosLayer", "chlayer"),
    ],
)
