#![feature(allocator_api)]
#![allow(unused)]
use vstd::prelude::*;
use vstd::std_specs::cmp::*;
use core::cmp::Ordering as CmpOrdering;
use std::sync::Arc;
verus! {
// ---- unit prelude (ASSUMED): opaque values for everything a builder merely stores ----
//@include time.rs
pub struct Name { pub id: Ghost<int> }
impl Name { #[verifier::external_body] pub fn clone(&self) -> (r: Self) ensures r == *self { unimplemented!() } }
pub struct EventListeners { pub n: Ghost<nat> }
impl EventListeners {
    #[verifier::external_body] pub fn new() -> (r: Self) ensures r.n@ == 0 { unimplemented!() }
    #[verifier::external_body] pub fn add<L>(&mut self, l: L) ensures final(self).n@ == old(self).n@ + 1 { unimplemented!() }
    #[verifier::external_body] pub fn clone(&self) -> (r: Self) ensures r == *self { unimplemented!() }
}
pub struct Listener { pub id: Ghost<int> }
#[verifier::external_body] pub fn vx_wrap<T>() -> (r: T) { unimplemented!() }
/// f64::clamp(0.0, 1.0): an uninterpreted function of its argument (the IEEE facts about it are the Kani leaf chaos_float_facts)
pub uninterp spec fn clamp01(x: f64) -> f64;
#[verifier::external_body] pub fn vx_clamp01(x: f64) -> (r: f64) ensures r == clamp01(x) { unimplemented!() }
pub trait VClone: Sized { fn clone(&self) -> (r: Self) ensures r == *self; }

// ===== chaos (C19) =====
pub struct NoErrorInjection;
pub struct CustomErrorFn<F> { pub f: Arc<F>, pub rate: f64 }
impl<F> CustomErrorFn<F> {
    pub fn new(f: F, rate: f64) -> (r: Self)
        ensures *r.f == f && r.rate == clamp01(rate),   // #wraps_the_function_with_the_clamped_rate [C19]
    //@body CustomErrorFn::new
    pub fn clone(&self) -> (r: Self)
        ensures r.f == self.f && r.rate == self.rate,   // #a_cloned_injector_is_the_same_injector [C19]
    //@body CustomErrorFn::clone@Clone
}
pub struct ChaosConfig<E> { pub name: Name, pub error_injector: E, pub latency_rate: f64, pub min_latency: Duration, pub max_latency: Duration, pub seed: Option<u64>, pub event_listeners: EventListeners }
/// rand::rngs::StdRng (ASSUMED): a generator is determined by how it was seeded — from a given u64 (reproducible) or from OS entropy
pub struct StdRng { pub seeded: Ghost<Option<u64>> }
impl StdRng {
    #[verifier::external_body] pub fn seed_from_u64(seed: u64) -> (r: Self) ensures r.seeded@ == Some(seed) { unimplemented!() }
    #[verifier::external_body] pub fn from_os_rng() -> (r: Self) ensures r.seeded@ is None { unimplemented!() }
}
impl<E> ChaosConfig<E> {
    pub fn create_rng(&self) -> (r: StdRng)
        ensures r.seeded@ == self.seed,   // #a_seeded_configuration_gets_the_generator_of_exactly_that_seed_an_unseeded_one_os_entropy [C19]
    //@body ChaosConfig::create_rng
}
impl<E: VClone> ChaosConfig<E> {
    pub fn clone(&self) -> (r: Self)
        ensures r.seed == self.seed,   // #a_cloned_configuration_keeps_the_seed [C19]
            r.name == self.name && r.error_injector == self.error_injector && r.latency_rate == self.latency_rate && r.min_latency == self.min_latency && r.max_latency == self.max_latency && r.event_listeners == self.event_listeners,   // #a_cloned_configuration_is_the_same_configuration [C19]
    //@body ChaosConfig::clone@Clone
}
pub struct ChaosLayer<E> { pub config: ChaosConfig<E> }
impl<E> ChaosLayer<E> {
    pub fn new(config: ChaosConfig<E>) -> (r: Self)
        ensures r.config == config,   // #layer_keeps_the_configuration [C19]
    //@body ChaosLayer::new file=chlayer
}
pub struct ChaosConfigBuilder<E> { pub name: Name, pub error_injector: E, pub latency_rate: f64, pub min_latency: Duration, pub max_latency: Duration, pub seed: Option<u64>, pub event_listeners: EventListeners }
pub struct ChaosConfigBuilderWithRate { pub name: Name, pub error_rate: f64, pub latency_rate: f64, pub min_latency: Duration, pub max_latency: Duration, pub seed: Option<u64>, pub event_listeners: EventListeners }
impl ChaosConfigBuilder<NoErrorInjection> {
    pub fn new() -> (r: Self)
        ensures r.seed is None && r.event_listeners.n@ == 0,   // #starts_unseeded_without_listeners [C19]
    //@body ChaosConfigBuilder::new
    pub fn default() -> (r: Self)
        ensures r.seed is None && r.event_listeners.n@ == 0,   // #starts_unseeded_without_listeners [C19]
    //@body ChaosConfigBuilder::default@Default
    pub fn error_rate(self, _rate: f64) -> (r: ChaosConfigBuilderWithRate)
        ensures r.error_rate == clamp01(_rate),   // #remembers_the_clamped_error_rate [C19]
            r.seed == self.seed,   // #keeps_the_seed [C19]
            r.name == self.name && r.latency_rate == self.latency_rate && r.min_latency == self.min_latency && r.max_latency == self.max_latency && r.event_listeners == self.event_listeners,   // #keeps_every_other_setting [C19]
    //@body ChaosConfigBuilder::error_rate#1
}
impl<F> ChaosConfigBuilder<CustomErrorFn<F>> {
    pub fn error_rate(self, rate: f64) -> (r: Self)
        ensures r.error_injector.rate == clamp01(rate) && r.error_injector.f == self.error_injector.f,   // #sets_the_clamped_error_rate_on_the_installed_injector [C19]
            r.seed == self.seed,   // #keeps_the_seed [C19]
            r.name == self.name && r.latency_rate == self.latency_rate && r.min_latency == self.min_latency && r.max_latency == self.max_latency && r.event_listeners == self.event_listeners,   // #keeps_every_other_setting [C19]
    //@body ChaosConfigBuilder::error_rate#0
}
impl<E> ChaosConfigBuilder<E> {
    pub fn name(self, name: Name) -> (r: Self)
        ensures r.seed == self.seed,   // #keeps_the_seed [C19]
            r.error_injector == self.error_injector && r.latency_rate == self.latency_rate && r.min_latency == self.min_latency && r.max_latency == self.max_latency && r.event_listeners == self.event_listeners,   // #keeps_every_other_setting [C19]
    //@body ChaosConfigBuilder::name
    pub fn error_fn<Req, Err, F>(self, f: F) -> (r: ChaosConfigBuilder<CustomErrorFn<F>>)
        ensures *r.error_injector.f == f,   // #installs_the_given_error_function [C19]
            r.seed == self.seed,   // #keeps_the_seed [C19]
            r.name == self.name && r.latency_rate == self.latency_rate && r.min_latency == self.min_latency && r.max_latency == self.max_latency && r.event_listeners == self.event_listeners,   // #keeps_every_other_setting [C19]
    //@body ChaosConfigBuilder::error_fn
    pub fn latency_rate(self, rate: f64) -> (r: Self)
        ensures r.latency_rate == clamp01(rate),   // #sets_the_clamped_latency_rate [C19]
            r.seed == self.seed,   // #keeps_the_seed [C19]
            r.name == self.name && r.error_injector == self.error_injector && r.min_latency == self.min_latency && r.max_latency == self.max_latency && r.event_listeners == self.event_listeners,   // #keeps_every_other_setting [C19]
    //@body ChaosConfigBuilder::latency_rate
    pub fn min_latency(self, duration: Duration) -> (r: Self)
        ensures r.min_latency == duration,   // #sets_min_latency [C19]
            r.seed == self.seed,   // #keeps_the_seed [C19]
            r.name == self.name && r.error_injector == self.error_injector && r.latency_rate == self.latency_rate && r.max_latency == self.max_latency && r.event_listeners == self.event_listeners,   // #keeps_every_other_setting [C19]
    //@body ChaosConfigBuilder::min_latency
    pub fn max_latency(self, duration: Duration) -> (r: Self)
        ensures r.max_latency == duration,   // #sets_max_latency [C19]
            r.seed == self.seed,   // #keeps_the_seed [C19]
            r.name == self.name && r.error_injector == self.error_injector && r.latency_rate == self.latency_rate && r.min_latency == self.min_latency && r.event_listeners == self.event_listeners,   // #keeps_every_other_setting [C19]
    //@body ChaosConfigBuilder::max_latency
    pub fn seed(self, seed: u64) -> (r: Self)
        ensures r.seed == Some(seed),   // #sets_the_seed [C19]
            r.name == self.name && r.error_injector == self.error_injector && r.latency_rate == self.latency_rate && r.min_latency == self.min_latency && r.max_latency == self.max_latency && r.event_listeners == self.event_listeners,   // #keeps_every_other_setting [C19]
    //@body ChaosConfigBuilder::seed
    pub fn on_error_injected<F>(self, f: F) -> (r: Self)
        ensures r.seed == self.seed,   // #keeps_the_seed [C19]
            r.name == self.name && r.error_injector == self.error_injector && r.latency_rate == self.latency_rate && r.min_latency == self.min_latency && r.max_latency == self.max_latency,   // #keeps_every_other_setting [C19]
    //@body ChaosConfigBuilder::on_error_injected
    pub fn on_latency_injected<F>(self, f: F) -> (r: Self)
        ensures r.seed == self.seed,   // #keeps_the_seed [C19]
            r.name == self.name && r.error_injector == self.error_injector && r.latency_rate == self.latency_rate && r.min_latency == self.min_latency && r.max_latency == self.max_latency,   // #keeps_every_other_setting [C19]
    //@body ChaosConfigBuilder::on_latency_injected
    pub fn on_passed_through<F>(self, f: F) -> (r: Self)
        ensures r.seed == self.seed,   // #keeps_the_seed [C19]
            r.name == self.name && r.error_injector == self.error_injector && r.latency_rate == self.latency_rate && r.min_latency == self.min_latency && r.max_latency == self.max_latency,   // #keeps_every_other_setting [C19]
    //@body ChaosConfigBuilder::on_passed_through
    pub fn build(self) -> (r: ChaosLayer<E>)
        ensures r.config.seed == self.seed,   // #seed_is_exactly_what_was_set [C19]
            r.config.name == self.name && r.config.error_injector == self.error_injector && r.config.latency_rate == self.latency_rate && r.config.min_latency == self.min_latency && r.config.max_latency == self.max_latency && r.config.event_listeners == self.event_listeners,   // #configuration_is_exactly_what_was_set [C19]
    //@body ChaosConfigBuilder::build
}
impl ChaosConfigBuilderWithRate {
    pub fn error_fn<Req, Err, F>(self, f: F) -> (r: ChaosConfigBuilder<CustomErrorFn<F>>)
        ensures *r.error_injector.f == f && r.error_injector.rate == clamp01(self.error_rate),   // #installs_the_function_with_the_remembered_rate [C19]
            r.seed == self.seed,   // #keeps_the_seed [C19]
            r.name == self.name && r.latency_rate == self.latency_rate && r.min_latency == self.min_latency && r.max_latency == self.max_latency && r.event_listeners == self.event_listeners,   // #keeps_every_other_setting [C19]
    //@body ChaosConfigBuilderWithRate::error_fn
    pub fn name(self, name: Name) -> (r: Self)
        ensures r.seed == self.seed,   // #keeps_the_seed [C19]
            r.error_rate == self.error_rate && r.latency_rate == self.latency_rate && r.min_latency == self.min_latency && r.max_latency == self.max_latency && r.event_listeners == self.event_listeners,   // #keeps_every_other_setting [C19]
    //@body ChaosConfigBuilderWithRate::name
    pub fn latency_rate(self, rate: f64) -> (r: Self)
        ensures r.latency_rate == clamp01(rate),   // #sets_the_clamped_latency_rate [C19]
            r.seed == self.seed,   // #keeps_the_seed [C19]
            r.name == self.name && r.error_rate == self.error_rate && r.min_latency == self.min_latency && r.max_latency == self.max_latency && r.event_listeners == self.event_listeners,   // #keeps_every_other_setting [C19]
    //@body ChaosConfigBuilderWithRate::latency_rate
    pub fn min_latency(self, duration: Duration) -> (r: Self)
        ensures r.min_latency == duration,   // #sets_min_latency [C19]
            r.seed == self.seed,   // #keeps_the_seed [C19]
            r.name == self.name && r.error_rate == self.error_rate && r.latency_rate == self.latency_rate && r.max_latency == self.max_latency && r.event_listeners == self.event_listeners,   // #keeps_every_other_setting [C19]
    //@body ChaosConfigBuilderWithRate::min_latency
    pub fn max_latency(self, duration: Duration) -> (r: Self)
        ensures r.max_latency == duration,   // #sets_max_latency [C19]
            r.seed == self.seed,   // #keeps_the_seed [C19]
            r.name == self.name && r.error_rate == self.error_rate && r.latency_rate == self.latency_rate && r.min_latency == self.min_latency && r.event_listeners == self.event_listeners,   // #keeps_every_other_setting [C19]
    //@body ChaosConfigBuilderWithRate::max_latency
    pub fn seed(self, seed: u64) -> (r: Self)
        ensures r.seed == Some(seed),   // #sets_the_seed [C19]
            r.name == self.name && r.error_rate == self.error_rate && r.latency_rate == self.latency_rate && r.min_latency == self.min_latency && r.max_latency == self.max_latency && r.event_listeners == self.event_listeners,   // #keeps_every_other_setting [C19]
    //@body ChaosConfigBuilderWithRate::seed
    pub fn on_error_injected<F>(self, f: F) -> (r: Self)
        ensures r.seed == self.seed,   // #keeps_the_seed [C19]
            r.name == self.name && r.error_rate == self.error_rate && r.latency_rate == self.latency_rate && r.min_latency == self.min_latency && r.max_latency == self.max_latency,   // #keeps_every_other_setting [C19]
    //@body ChaosConfigBuilderWithRate::on_error_injected
    pub fn on_latency_injected<F>(self, f: F) -> (r: Self)
        ensures r.seed == self.seed,   // #keeps_the_seed [C19]
            r.name == self.name && r.error_rate == self.error_rate && r.latency_rate == self.latency_rate && r.min_latency == self.min_latency && r.max_latency == self.max_latency,   // #keeps_every_other_setting [C19]
    //@body ChaosConfigBuilderWithRate::on_latency_injected
    pub fn on_passed_through<F>(self, f: F) -> (r: Self)
        ensures r.seed == self.seed,   // #keeps_the_seed [C19]
            r.name == self.name && r.error_rate == self.error_rate && r.latency_rate == self.latency_rate && r.min_latency == self.min_latency && r.max_latency == self.max_latency,   // #keeps_every_other_setting [C19]
    //@body ChaosConfigBuilderWithRate::on_passed_through
}
fn main() {}
}
