#![feature(allocator_api)]
#![allow(unused)]
use vstd::prelude::*;
use vstd::std_specs::hash::*;
use std::collections::{HashMap, VecDeque};
use std::hash::Hash;
verus! {
//@include vecdeque.rs

// ---- unit prelude (ASSUMED) ----
pub trait VClone: Sized { fn clone(&self) -> (r: Self) ensures r == *self; }
/// VecDeque::retain(|k| k != key): keeps exactly the elements different from key, in order
#[verifier::external_body]
pub fn vx_retain_ne<K>(q: &mut VecDeque<K>, key: &K)
    ensures final(q)@ == without(old(q)@, *key),
{ unimplemented!() }

/// `*freq.entry(k).or_insert(0) += 1` (entry API outside the dialect): bumps the counter of k, creating it at 0 first
#[verifier::external_body]
pub fn vx_bump<K: Hash + Eq>(freq: &mut HashMap<K, usize>, k: K)
    ensures final(freq)@ == old(freq)@.insert(k, if old(freq)@.contains_key(k) { (old(freq)@[k] + 1) as usize } else { 1usize }),
{ unimplemented!() }

// ---- types of /repo (shape-checked) ----
pub struct FifoStore<K, V> { pub data: HashMap<K, V>, pub order: VecDeque<K>, pub capacity: usize }
pub struct LfuStore<K, V> { pub data: HashMap<K, V>, pub frequencies: HashMap<K, usize>, pub capacity: usize }

pub open spec fn no_dup<K>(s: Seq<K>) -> bool { forall|i: int, j: int| 0 <= i < j < s.len() ==> s[i] != s[j] }

pub proof fn lemma_drop_first<K>(s: Seq<K>)
    requires no_dup(s), s.len() > 0,
    ensures no_dup(s.drop_first()), !s.drop_first().contains(s[0]),
        forall|k: K| #![trigger s.drop_first().contains(k)] s.drop_first().contains(k) <==> (s.contains(k) && k != s[0]),
{
    let t = s.drop_first();
    assert forall|i: int, j: int| 0 <= i < j < t.len() implies t[i] != t[j] by { assert(t[i] == s[i + 1] && t[j] == s[j + 1]); }
    assert forall|k: K| #![trigger t.contains(k)] t.contains(k) <==> (s.contains(k) && k != s[0]) by {
        if t.contains(k) { let i = choose|i: int| 0 <= i < t.len() && t[i] == k; assert(s[i + 1] == k); assert(s.contains(k)); }
        if s.contains(k) && k != s[0] { let i = choose|i: int| 0 <= i < s.len() && s[i] == k; assert(i > 0); assert(t[i - 1] == k); }
    }
}
pub proof fn lemma_push<K>(s: Seq<K>, x: K)
    requires no_dup(s), !s.contains(x),
    ensures no_dup(s.push(x)),
        forall|k: K| #![trigger s.push(x).contains(k)] s.push(x).contains(k) <==> (s.contains(k) || k == x),
{
    let t = s.push(x);
    assert forall|i: int, j: int| 0 <= i < j < t.len() implies t[i] != t[j] by {
        if j == s.len() { assert(t[i] == s[i]); assert(s.contains(s[i])); } else { assert(t[i] == s[i] && t[j] == s[j]); }
    }
    assert forall|k: K| #![trigger t.contains(k)] t.contains(k) <==> (s.contains(k) || k == x) by {
        if t.contains(k) { let i = choose|i: int| 0 <= i < t.len() && t[i] == k; if i < s.len() { assert(s[i] == k); } }
        if s.contains(k) { let i = choose|i: int| 0 <= i < s.len() && s[i] == k; assert(t[i] == k); }
        if k == x { assert(t[s.len() as int] == k); }
    }
}
pub open spec fn without<K>(s: Seq<K>, key: K) -> Seq<K> { s.filter(|k: K| k != key) }
/// filtering out one value from a duplicate-free sequence
pub proof fn lemma_without<K>(s: Seq<K>, key: K)
    requires no_dup(s),
    ensures
        no_dup(without(s, key)),
        forall|k: K| #![trigger without(s, key).contains(k)] without(s, key).contains(k) <==> (s.contains(k) && k != key),
        without(s, key).len() == s.len() - (if s.contains(key) { 1int } else { 0int }),
    decreases s.len(),
{
    reveal(Seq::filter);
    let f = |k: K| k != key;
    if s.len() == 0 {
    } else {
        let p = s.drop_last();
        assert forall|i: int, j: int| 0 <= i < j < p.len() implies p[i] != p[j] by { assert(p[i] == s[i] && p[j] == s[j]); }
        lemma_without(p, key);
        let pf = without(p, key);
        let l = s.last();
        assert(s =~= p.push(l));
        assert(!p.contains(l)) by { if p.contains(l) { let i = choose|i: int| 0 <= i < p.len() && p[i] == l; assert(s[i] == s[s.len() - 1]); } }
        assert forall|k: K| #![trigger s.contains(k)] s.contains(k) <==> (p.contains(k) || k == l) by {
            if s.contains(k) { let i = choose|i: int| 0 <= i < s.len() && s[i] == k; if i < p.len() { assert(p[i] == k); } }
            if p.contains(k) { let i = choose|i: int| 0 <= i < p.len() && p[i] == k; assert(s[i] == k); }
            if k == l { assert(s[s.len() - 1] == k); }
        }
        if l != key {
            assert(without(s, key) =~= pf.push(l));
            assert(!pf.contains(l));
            lemma_push(pf, l);
        } else {
            assert(without(s, key) =~= pf);
        }
    }
}

impl<K: Hash + Eq + VClone, V> FifoStore<K, V> {
    /// representation invariant: the queue lists exactly the stored keys, once each, oldest first; size bounded
    pub open spec fn wf(&self) -> bool {
        &&& obeys_key_model::<K>()
        &&& self.capacity >= 1
        &&& self.data@.len() <= self.capacity
        &&& self.data@.dom().finite()
        &&& no_dup(self.order@)
        &&& self.order@.len() == self.data@.len()
        &&& forall|i: int| 0 <= i < self.order@.len() ==> self.data@.contains_key(#[trigger] self.order@[i])
        &&& forall|k: K| self.data@.contains_key(k) ==> self.order@.contains(k)
    }
    pub open spec fn view(&self) -> Map<K, V> { self.data@ }
    pub open spec fn cap(&self) -> nat { self.capacity as nat }

    pub fn new(capacity: usize) -> (r: Self)
        requires obeys_key_model::<K>(),
        ensures r.wf(),   // #starts_empty_and_well_formed [C10]
            r.view() == Map::<K, V>::empty() && (capacity >= 1 ==> r.cap() == capacity) && r.cap() >= 1,   // #capacity_is_max_size_at_least_one [C10]
    //@body FifoStore::new

    pub fn get(&mut self, key: &K) -> (r: Option<&V>)
        requires old(self).wf(),
        ensures final(self).wf() && final(self).view() == old(self).view() && final(self).cap() == old(self).cap() && final(self).order@ == old(self).order@,   // #lookup_changes_nothing [C10]
            old(self).view().contains_key(*key) ==> r == Some(&old(self).view()[*key]),   // #hit_returns_the_value_stored_under_that_key [C10]
            !old(self).view().contains_key(*key) ==> r is None,   // #unknown_key_misses [C10]
    //@body FifoStore::get@EvictionStore

    pub fn insert(&mut self, key: K, value: V) -> (r: Option<(K, V)>)
        requires old(self).wf(),
        ensures
            final(self).wf(),   // #size_never_exceeds_capacity [C10]
            final(self).cap() == old(self).cap(),   // #capacity_unchanged
            final(self).view().contains_key(key) && final(self).view()[key] == value,   // #insert_stores_the_latest_value_under_its_key [C10]
            forall|k: K| #![trigger final(self).view().contains_key(k)] k != key && final(self).view().contains_key(k) ==> old(self).view().contains_key(k) && final(self).view()[k] == old(self).view()[k],   // #insert_never_changes_another_keys_value [C10]
            // the victim, if any, is the first-inserted key, and only when the store was full and the key is new
            (!old(self).view().contains_key(key) && old(self).view().len() >= old(self).cap()) ==> (r matches Some(kv) && kv.0 == old(self).order@[0] && !final(self).view().contains_key(kv.0)
                && final(self).view().dom() == old(self).view().dom().remove(kv.0).insert(key)),   // #victim_is_the_first_inserted_key [C10]
            (!old(self).view().contains_key(key) && old(self).view().len() < old(self).cap()) ==> r is None && final(self).view().dom() == old(self).view().dom().insert(key),   // #no_eviction_below_capacity [C10]
            old(self).view().contains_key(key) ==> final(self).view().dom() == old(self).view().dom() && final(self).order@ == old(self).order@,   // #updating_a_key_keeps_its_place_in_the_queue [C10]
    //@body FifoStore::insert@EvictionStore

    pub fn remove(&mut self, key: &K) -> (r: Option<V>)
        requires old(self).wf(),
        ensures final(self).wf(),   // #removal_keeps_queue_and_map_in_step [C10]
            final(self).view() == old(self).view().remove(*key) && final(self).cap() == old(self).cap(),   // #removes_exactly_that_key [C10]
    //@body FifoStore::remove@EvictionStore

    pub fn len(&self) -> (r: usize)
        requires self.wf(),
        ensures r == self.view().len(),   // #len_is_the_number_of_entries [C10]
    //@body FifoStore::len@EvictionStore
}
impl<K: Hash + Eq + VClone, V> LfuStore<K, V> {
    /// representation invariant: a use counter for exactly the stored keys; size bounded
    pub open spec fn wf(&self) -> bool {
        &&& obeys_key_model::<K>()
        &&& self.capacity >= 1
        &&& self.data@.len() <= self.capacity
        &&& self.data@.dom().finite()
        &&& self.frequencies@.dom() == self.data@.dom()
    }
    pub open spec fn view(&self) -> Map<K, V> { self.data@ }
    pub open spec fn cap(&self) -> nat { self.capacity as nat }

    pub fn new(capacity: usize) -> (r: Self)
        requires obeys_key_model::<K>(),
        ensures r.wf(),   // #starts_empty_and_well_formed [C10]
            r.view() == Map::<K, V>::empty() && (capacity >= 1 ==> r.cap() == capacity) && r.cap() >= 1,   // #capacity_is_max_size_at_least_one [C10]
    //@body LfuStore::new

    /// find_lfu_key is an iterator-adapter chain (iter().min_by_key(..).map(..)): ASSUMED to return a stored key of minimal use count
    #[verifier::external_body]
    pub fn find_lfu_key(&self) -> (r: Option<K>)
        ensures self.frequencies@.len() == 0 ==> r is None,
            self.frequencies@.len() > 0 ==> (r matches Some(k) && self.frequencies@.contains_key(k)
                && forall|k2: K| #![trigger self.frequencies@.contains_key(k2)] self.frequencies@.contains_key(k2) ==> self.frequencies@[k] <= self.frequencies@[k2]),
    { unimplemented!() }

    pub fn get(&mut self, key: &K) -> (r: Option<&V>)
        requires old(self).wf(),
        ensures final(self).wf() && final(self).view() == old(self).view() && final(self).cap() == old(self).cap(),   // #lookup_changes_no_stored_value [C10]
            old(self).view().contains_key(*key) ==> r == Some(&old(self).view()[*key]),   // #hit_returns_the_value_stored_under_that_key [C10]
            !old(self).view().contains_key(*key) ==> r is None && final(self).frequencies@ == old(self).frequencies@,   // #unknown_key_misses [C10]
            old(self).view().contains_key(*key) ==> final(self).frequencies@ == old(self).frequencies@.insert(*key, (old(self).frequencies@[*key] + 1) as usize),   // #a_hit_counts_one_use_of_that_key [C10]
    //@body LfuStore::get@EvictionStore

    pub fn insert(&mut self, key: K, value: V) -> (r: Option<(K, V)>)
        requires old(self).wf(),
        ensures
            final(self).wf(),   // #size_never_exceeds_capacity [C10]
            final(self).cap() == old(self).cap(),   // #capacity_unchanged
            final(self).view().contains_key(key) && final(self).view()[key] == value,   // #insert_stores_the_latest_value_under_its_key [C10]
            forall|k: K| #![trigger final(self).view().contains_key(k)] k != key && final(self).view().contains_key(k) ==> old(self).view().contains_key(k) && final(self).view()[k] == old(self).view()[k],   // #insert_never_changes_another_keys_value [C10]
            // the victim, if any, is a least-frequently-used key, and only when the store was full and the key is new
            (!old(self).view().contains_key(key) && old(self).view().len() >= old(self).cap()) ==> (r matches Some(kv) && old(self).view().contains_key(kv.0) && !final(self).view().contains_key(kv.0)
                && (forall|k2: K| #![trigger old(self).frequencies@.contains_key(k2)] old(self).frequencies@.contains_key(k2) ==> old(self).frequencies@[kv.0] <= old(self).frequencies@[k2])
                && final(self).view().dom() == old(self).view().dom().remove(kv.0).insert(key)),   // #victim_is_a_least_frequently_used_key [C10]
            (!old(self).view().contains_key(key) && old(self).view().len() < old(self).cap()) ==> r is None && final(self).view().dom() == old(self).view().dom().insert(key),   // #no_eviction_below_capacity [C10]
            old(self).view().contains_key(key) ==> final(self).view().dom() == old(self).view().dom(),   // #updating_a_key_evicts_nothing [C10]
    //@body LfuStore::insert@EvictionStore

    pub fn remove(&mut self, key: &K) -> (r: Option<V>)
        requires old(self).wf(),
        ensures final(self).wf(),   // #removal_keeps_counters_and_map_in_step [C10]
            final(self).view() == old(self).view().remove(*key) && final(self).cap() == old(self).cap(),   // #removes_exactly_that_key [C10]
    //@body LfuStore::remove@EvictionStore

    pub fn len(&self) -> (r: usize)
        requires self.wf(),
        ensures r == self.view().len(),   // #len_is_the_number_of_entries [C10]
    //@body LfuStore::len@EvictionStore
}
fn main() {}
}
