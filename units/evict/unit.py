CA = "crates/tower-resilience-cache/src/"
UNIT = dict(
    serves=["C10"],
    files={"eviction": CA + "eviction.rs"},
    default_file="eviction",
    rules=[],
    extra_params=[],
    fns={
        "FifoStore::new": dict(),
        "FifoStore::get@EvictionStore": dict(),
        "FifoStore::insert@EvictionStore": dict(rules=[
            ("sub", "R10-and-then", r"self\.order\.pop_front\(\)\.and_then\(\|old_key\| \{\s*let evicted_value = self\.data\.remove\(&old_key\)\?;\s*Some\(\(old_key, evicted_value\)\)\s*\}\)",
             "(match self.order.pop_front() { Some(old_key) => match self.data.remove(&old_key) { Some(evicted_value) => Some((old_key, evicted_value)), None => None }, None => None })", -1),
            ("inject", r"let evicted = if", "before", "let ghost vx_o0 = self.order@; let ghost vx_d0 = self.data@; proof { if vx_o0.len() > 0 { lemma_drop_first(vx_o0); } assert(!vx_o0.contains(key)); }"),
            ("inject", r"self\.data\.insert\(key\.clone\(\), value\);", "before", "let ghost vx_o1 = self.order@; proof { assert(vx_o1 =~= vx_o0 || vx_o1 =~= vx_o0.drop_first()); assert(!vx_o1.contains(key)); lemma_push(vx_o1, key); }"),
        ]),
        "FifoStore::remove@EvictionStore": dict(rules=[
            ("sub", "R10-retain", r"self\.order\.retain\(\|k\| k != key\);", "vx_retain_ne(&mut self.order, key);", -1),
            ("inject", None, "start", "proof { lemma_without(self.order@, *key); }"),
            ("inject", r"vx_retain_ne\(", "after", "proof { let o1 = self.order@; assert forall|i: int| 0 <= i < o1.len() implies self.data@.contains_key(#[trigger] o1[i]) && o1[i] != *key by { assert(o1.contains(o1[i])); } assert(self.data@.remove(*key).dom() =~= self.data@.dom().remove(*key)); }", "optional"),
        ]),
        "FifoStore::len@EvictionStore": dict(),
        "LfuStore::new": dict(),
        "LfuStore::get@EvictionStore": dict(rules=[
            ("sub", "R10-entry", r"\*self\.frequencies\.entry\(key\.clone\(\)\)\.or_insert\(0\) \+= 1;", "vx_bump(&mut self.frequencies, key.clone());\n proof { assert(self.frequencies@.dom() =~= self.data@.dom()); }   // #a_lookup_leaves_no_frequency_record_without_a_stored_entry [C10]\n", 1),
        ]),
        "LfuStore::insert@EvictionStore": dict(rules=[
            ("sub", "R10-entry", r"\*self\.frequencies\.entry\(key\.clone\(\)\)\.or_insert\(0\) \+= 1;", "vx_bump(&mut self.frequencies, key.clone());", 1),
            ("sub", "R10-and-then", r"self\.find_lfu_key\(\)\.and_then\(\|lfu_key\| \{\s*let evicted_value = self\.data\.remove\(&lfu_key\)\?;\s*self\.frequencies\.remove\(&lfu_key\);\s*Some\(\(lfu_key, evicted_value\)\)\s*\}\)",
             "(match self.find_lfu_key() { Some(lfu_key) => match self.data.remove(&lfu_key) { Some(evicted_value) => { self.frequencies.remove(&lfu_key); Some((lfu_key, evicted_value)) }, None => None }, None => None })", -1),
        ]),
        "LfuStore::remove@EvictionStore": dict(),
        "LfuStore::len@EvictionStore": dict(),
    },
    types=[("struct", "FifoStore", "eviction"), ("struct", "LfuStore", "eviction")],
)
