AD = "crates/tower-resilience-adaptive/src/"
TR = "Tracked(tr)"
UNIT = dict(
    serves=["C13", "C20"],
    files={"service": AD + "service.rs"},
    default_file="service",
    verus_flags=["--no-erasure-check"],
    rules=[("R1",), ("R2",)],
    extra_params=["clk", "tr"],
    fns={
        "InFlightGuard::drop@Drop": dict(rules=[("addarg", ["fetch_sub"], TR, 1)]),
        "AdaptiveService::clone@Clone": dict(),
        "AdaptiveService::poll_ready@Service": dict(rules=[
            ("sub", "R6", r"\.algorithm\.limit\(\)", ".algorithm.limit(%s)" % TR, -1),
            ("sub", "R6", r"\.in_flight\.load\(([^()]*)\)", r".in_flight.load(\1, %s)" % TR, -1),
            ("addarg", ["fetch_add", "fetch_sub"], TR, -1),
            ("R10p", "AdaptiveError::Service"),
        ]),
        "AdaptiveService::call@Service": dict(rules=[
            ("sub", "R13-future-newtype", r"AdaptiveFuture\s*\{\s*inner\s*:\s*", "", 1),
            ("sub", "R13-future-newtype", r"\)\s*,\s*\}(\s*\}\s*)$", r")\1", 1),
            ("R4",), ("R3",), ("R5",),
            ("sub", "ledger-guard", r"InFlightGuard\(((?:[^()]|\([^()]*\))*)\)", r"vx_guard(InFlightGuard(\1), Tracked(tr))", 1),
            ("sub", "ledger-drop", r"\bdrop\(in_flight_guard\)", "vx_drop_guard(in_flight_guard, Tracked(tr))", 1),
            ("addarg", ["fetch_add", "fetch_sub"], TR, -1),
            ("addarg", ["call", "record_success", "record_failure"], TR, 3),
            ("sub", "R6-limit", r"algorithm\.limit\(\)", "algorithm.limit(Tracked(tr))", 2),
            ("R10e", 1),
        ]),
    },
    types=[
        ("enum", "AdaptiveError", "service"),
        ("struct", "AdaptiveService", "service"),
    ],
    frame=[
        dict(name="in_flight_changed_only_in_call_and_guard_drop", tags=["C13"],
             pattern=r"(in_flight|self\s*\.\s*0)\s*\.\s*(store|swap|fetch_\w+|compare_exchange\w*)",
             glob=AD + "**/*.rs", only_in=["service:AdaptiveService::call@Service", "service:InFlightGuard::drop@Drop"]),
    ],
)
