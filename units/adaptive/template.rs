#![feature(allocator_api)]
#![allow(unused)]
use vstd::prelude::*;
use vstd::std_specs::cmp::*;
use core::cmp::Ordering as CmpOrdering;
use std::sync::Arc;
verus! {
//@include time.rs
//@include trace.rs LEDGER_TAGS=[C13]
/// the inner call is made synchronously inside call(): the in-flight slot must already be counted
pub open spec fn call_gate<Req, Res, E>(tr: Trace<Req, Res, E>) -> bool { tr.incs == 1 }
pub open spec fn await_gate<Req, Res, E>(tr: Trace<Req, Res, E>) -> bool { tr.incs == 1 && tr.decs == 0 }
//@include inner.rs GATE_TAGS=[C13] LEDGER_TAGS=[C13]

// ---- unit prelude (ASSUMED) ----
pub enum Ordering { Release, Acquire, Relaxed, SeqCst, AcqRel }
/// Arc<AtomicUsize> in_flight, shared by all clones. The obligation ledger: an increment creates a duty
/// (unguarded) until it is handed to an RAII guard; every cancellation point requires unguarded == 0.
pub struct InFlightCounter { pub id: Ghost<int> }
impl InFlightCounter {
    #[verifier::external_body]
    pub fn new(v: usize) -> (r: Self) { unimplemented!() }
    #[verifier::external_body]
    pub fn fetch_add<Req, Res, E>(&self, v: usize, o: Ordering, Tracked(tr): Tracked<&mut Trace<Req, Res, E>>) -> (r: usize)
        requires v == 1,
        ensures *final(tr) == (Trace { incs: old(tr).incs + 1, unguarded: old(tr).unguarded + 1, ..*old(tr) }),
    { unimplemented!() }
    #[verifier::external_body]
    pub fn fetch_sub<Req, Res, E>(&self, v: usize, o: Ordering, Tracked(tr): Tracked<&mut Trace<Req, Res, E>>) -> (r: usize)
        requires v == 1, old(tr).incs > old(tr).decs,
        ensures *final(tr) == (Trace { decs: old(tr).decs + 1, ..*old(tr) }),
    { unimplemented!() }
    #[verifier::external_body]
    pub fn load<Req, Res, E>(&self, o: Ordering, Tracked(tr): Tracked<&mut Trace<Req, Res, E>>) -> (r: usize)
        ensures *final(tr) == (Trace { obs_inflight: Some(r), ..*old(tr) }),
    { unimplemented!() }
}
/// the duty of one decrement moves into the guard: from here on Rust drops it on every exit path
#[verifier::external_body]
pub fn vx_guard<Req, Res, E>(g: InFlightGuard, Tracked(tr): Tracked<&mut Trace<Req, Res, E>>) -> (r: InFlightGuard)
    requires old(tr).unguarded >= 1,   // #guard_takes_over_an_existing_in_flight_slot [C13]
    ensures r == g, *final(tr) == (Trace { unguarded: (old(tr).unguarded - 1) as nat, guarded: old(tr).guarded + 1, ..*old(tr) }),
{ unimplemented!() }
/// drop(guard): runs InFlightGuard::drop (contract proved below on the real Drop impl)
#[verifier::external_body]
pub fn vx_drop_guard<Req, Res, E>(g: InFlightGuard, Tracked(tr): Tracked<&mut Trace<Req, Res, E>>)
    requires old(tr).guarded >= 1,   // #only_a_held_slot_is_released [C13]
    ensures *final(tr) == (Trace { decs: old(tr).decs + 1, guarded: (old(tr).guarded - 1) as nat, ..*old(tr) }),
{ unimplemented!() }
pub struct PlainAtomicUsize { pub id: Ghost<int> }
impl PlainAtomicUsize {
    #[verifier::external_body] pub fn new(v: usize) -> (r: Self) { unimplemented!() }
    #[verifier::external_body] pub fn load(&self, o: Ordering) -> (r: usize) { unimplemented!() }
    #[verifier::external_body] pub fn store(&self, v: usize, o: Ordering) { unimplemented!() }
}
pub struct Semaphore { pub id: Ghost<int> }
impl Semaphore {
    #[verifier::external_body] pub fn new(n: usize) -> (r: Self) { unimplemented!() }
    #[verifier::external_body] pub fn add_permits(&self, n: usize) { unimplemented!() }
}
/// A: ConcurrencyAlgorithm, by the contracts proved in unit `budget` (AimdController, Vegas)
pub struct Algorithm { pub id: Ghost<int> }
impl Algorithm {
    #[verifier::external_body]
    pub fn limit<Req, Res, E>(&self, Tracked(tr): Tracked<&mut Trace<Req, Res, E>>) -> (r: usize)
        ensures *final(tr) == (Trace { obs_limit: Some(r), ..*old(tr) }),
    { unimplemented!() }
    #[verifier::external_body]
    pub fn record_success<Req, Res, E>(&self, latency: Duration, Tracked(tr): Tracked<&mut Trace<Req, Res, E>>)
        ensures *final(tr) == (Trace { notes: old(tr).notes.push(Note::Feedback { success: true }), ..*old(tr) }),
    { unimplemented!() }
    #[verifier::external_body]
    pub fn record_failure<Req, Res, E>(&self, Tracked(tr): Tracked<&mut Trace<Req, Res, E>>)
        ensures *final(tr) == (Trace { notes: old(tr).notes.push(Note::Feedback { success: false }), ..*old(tr) }),
    { unimplemented!() }
}

// ---- types of /repo (shape-checked) ----
pub enum AdaptiveError<E> { Service(E), LimitReached }
pub struct InFlightGuard(pub Arc<InFlightCounter>);
pub struct AdaptiveService<Req, Res, E> {
    pub inner: Inner<Req, Res, E>,
    pub algorithm: Arc<Algorithm>,
    pub current_limit: Arc<PlainAtomicUsize>,
    pub in_flight: Arc<InFlightCounter>,
    pub semaphore: Arc<Semaphore>,
}

impl InFlightGuard {
    /// impl Drop for InFlightGuard
    pub fn drop<Req, Res, E>(&mut self, Tracked(tr): Tracked<&mut Trace<Req, Res, E>>)
        requires old(tr).incs > old(tr).decs,
        ensures final(tr).decs == old(tr).decs + 1 && final(tr).incs == old(tr).incs,   // #guard_drop_decrements_exactly_once [C13]
    //@body InFlightGuard::drop@Drop
}

impl<Req, Res, E> AdaptiveService<Req, Res, E> {
    pub fn clone(&self) -> (r: Self)
        ensures r.in_flight == self.in_flight && r.algorithm == self.algorithm && r.current_limit == self.current_limit && r.semaphore == self.semaphore,   // #clones_share_counter_and_algorithm [C13]
    //@body AdaptiveService::clone@Clone

    pub fn poll_ready(&mut self, cx: &mut Context, Tracked(tr): Tracked<&mut Trace<Req, Res, E>>) -> (r: Poll<Result<(), AdaptiveError<E>>>)
        requires old(tr).fresh(),
        ensures
            final(tr).obs_inflight is Some && final(tr).obs_limit is Some,   // #consults_the_shared_counter_and_the_algorithm_limit [C13]
            final(tr).incs == 0 && final(tr).decs == 0 && final(tr).unguarded == 0,   // #observing_readiness_does_not_count_a_call [C13]
            final(tr).obs_inflight->0 >= final(tr).obs_limit->0 ==> r is Pending && final(self).inner == old(self).inner,   // #refuses_readiness_at_the_limit_without_touching_inner [C13]
            final(tr).obs_inflight->0 < final(tr).obs_limit->0 ==> final(self).inner.polls@ == old(self).inner.polls@ + 1 && (r is Pending ==> !final(self).inner.ready@ || old(self).inner.ready@),   // #never_refuses_below_the_limit_on_its_own [C13]
            r matches Poll::Ready(Ok(_)) ==> final(self).inner.ready@ && final(tr).obs_inflight->0 < final(tr).obs_limit->0,   // #ready_only_when_inner_ready_and_below_limit [C13,C20]
            r matches Poll::Ready(Err(e)) ==> e is Service,   // #readiness_errors_surface_as_inner [C20]
            final(self).in_flight == old(self).in_flight && final(self).algorithm == old(self).algorithm,   // #shared_state_handles_and_configuration_are_left_untouched [C13]
    //@body AdaptiveService::poll_ready@Service

    pub fn call(&mut self, req: Req, clk: &mut Clock, Tracked(tr): Tracked<&mut Trace<Req, Res, E>>) -> (result: Result<Res, AdaptiveError<E>>)
        requires old(tr).fresh(), old(self).inner.ready@,
        ensures
            final(tr).incs == 1 && final(tr).decs == 1 && final(tr).unguarded == 0 && final(tr).guarded == 0,   // #counts_the_call_once_and_releases_it_once [C13]
            final(tr).calls == 1 && final(tr).done == 1 && final(tr).last_req == Some(req),   // #forwards_the_request_once_unchanged [C20]
            result matches Ok(v) ==> final(tr).last_done == Some(Ok::<Res, E>(v)),   // #response_returned_unchanged [C20]
            result matches Err(AdaptiveError::Service(e)) ==> final(tr).last_done == Some(Err::<Res, E>(e)),   // #inner_error_returned_unchanged [C20]
            !(result matches Err(AdaptiveError::LimitReached)),   // #call_itself_never_rejects [C20]
            final(tr).notes.len() == 1 && final(tr).notes[0] == (Note::Feedback { success: final(tr).last_done->0 is Ok }),   // #feeds_the_outcome_to_the_algorithm_once [C13]
            final(self).in_flight == old(self).in_flight && final(self).algorithm == old(self).algorithm,   // #shared_state_handles_and_configuration_are_left_untouched [C13]
    //@body AdaptiveService::call@Service
}
fn main() {}
}
