#![feature(allocator_api)]
#![allow(unused)]
use vstd::prelude::*;
use vstd::std_specs::cmp::*;
use core::cmp::Ordering as CmpOrdering;
use std::sync::Arc;
use core::marker::PhantomData;
verus! {
//@include time.rs
//@include trace.rs
/// retry has no admission gate of its own; what must hold before every attempt is the loop invariant of call()
pub open spec fn call_gate<Req, Res, E>(tr: Trace<Req, Res, E>) -> bool { tr.created }
pub open spec fn await_gate<Req, Res, E>(tr: Trace<Req, Res, E>) -> bool { true }
//@include inner.rs
//@include tokio_sleep.rs

// ---- unit prelude (ASSUMED) ----
/// Req: Clone — a clone of the request equals the request
pub trait VClone: Sized { fn clone(&self) -> (r: Self) ensures r == *self; }
/// Arc<dyn IntervalFunction>: a function of the attempt number (backoff.rs is decided by C14)
pub struct IntervalFn { pub id: Ghost<int> }
pub uninterp spec fn backoff_spec(f: IntervalFn, attempt: usize) -> Duration;
impl IntervalFn {
    #[verifier::external_body]
    pub fn next_interval(&self, attempt: usize) -> (r: Duration) ensures r == backoff_spec(*self, attempt) { unimplemented!() }
}
/// Arc<dyn RetryBudget> (its internals are C08)
pub struct Budget { pub id: Ghost<int> }
impl Budget {
    #[verifier::external_body]
    pub fn try_withdraw<Req, Res, E>(&self, Tracked(tr): Tracked<&mut Trace<Req, Res, E>>) -> (r: bool)
        ensures *final(tr) == (Trace { ev: old(tr).ev.push(Ev::Withdraw(r)), notes: old(tr).notes.push(Note::Budget(r)),
                                       granted_since_done: r || old(tr).granted_since_done, denied: !r || old(tr).denied, ..*old(tr) }),
    { unimplemented!() }
    #[verifier::external_body]
    pub fn balance(&self) -> (r: usize) { unimplemented!() }
    #[verifier::external_body]
    pub fn deposit<Req, Res, E>(&self, Tracked(tr): Tracked<&mut Trace<Req, Res, E>>)
        ensures *final(tr) == (Trace { ev: old(tr).ev.push(Ev::Deposit), ..*old(tr) }),
    { unimplemented!() }
}

// ---- types of /repo (shape-checked). Arc<dyn Fn> fields are generic closure parameters here. ----
pub enum MaxAttemptsSource<F> { Fixed(usize), Dynamic(F) }
pub struct RetryPolicy<P> { pub interval_fn: Arc<IntervalFn>, pub retry_predicate: Option<P> }
pub struct RetryConfig<P, F> { pub policy: RetryPolicy<P>, pub max_attempts_source: MaxAttemptsSource<F>, pub budget: Option<Arc<Budget>> }
pub struct Retry<Req, Res, E, P, F> { pub inner: Inner<Req, Res, E>, pub config: Arc<RetryConfig<P, F>>, pub _phantom: PhantomData<Req> }

pub open spec fn should_retry_spec<E, P: Fn(&E) -> bool>(p: RetryPolicy<P>, e: E) -> bool {
    p.retry_predicate is Some ==> call_ensures(p.retry_predicate->0, (&e,), true)
}
pub open spec fn max_attempts_spec<Req, F: Fn(&Req) -> usize>(s: MaxAttemptsSource<F>, req: Req, n: usize) -> bool {
    match s { MaxAttemptsSource::Fixed(k) => n == k, MaxAttemptsSource::Dynamic(f) => call_ensures(f, (&req,), n) }
}
pub open spec fn cap(max_attempts: usize) -> nat { if max_attempts >= 1 { max_attempts as nat } else { 1 } }

impl<F> MaxAttemptsSource<F> {
    pub fn get_max_attempts<Req>(&self, req: &Req) -> (r: usize) where F: Fn(&Req) -> usize
        requires self matches MaxAttemptsSource::Dynamic(f) ==> call_requires(f, (req,)),
        ensures max_attempts_spec(*self, *req, r),   // #fixed_or_per_request_max_attempts [C05]
    //@body MaxAttemptsSource::get_max_attempts file=config
}
impl<P> RetryPolicy<P> {
    pub fn should_retry<E>(&self, error: &E) -> (r: bool) where P: Fn(&E) -> bool
        requires self.retry_predicate is Some ==> call_requires(self.retry_predicate->0, (error,)),
        ensures
            self.retry_predicate is None ==> r,   // #retries_everything_without_a_predicate [C05]
            self.retry_predicate is Some ==> call_ensures(self.retry_predicate->0, (error,), r),   // #asks_the_predicate [C05]
    //@body RetryPolicy::should_retry file=policy
    pub fn next_backoff(&self, attempt: usize) -> (r: Duration)
        ensures r == backoff_spec(*self.interval_fn, attempt),   // #delay_of_this_attempt_from_the_interval_function [C05,C14]
    //@body RetryPolicy::next_backoff file=policy
}

impl<Req: VClone, Res, E, P: Fn(&E) -> bool, F: Fn(&Req) -> usize> Retry<Req, Res, E, P, F> {
    pub fn new(inner: Inner<Req, Res, E>, config: Arc<RetryConfig<P, F>>, _phantom: PhantomData<Req>) -> (r: Self)
        ensures r.inner == inner && r.config == config,   // #keeps_config_and_inner [C05,C20]
    //@body Retry::new

    pub fn clone(&self) -> (r: Self)
        ensures r.config == self.config,   // #clones_share_the_config_and_budget [C05]
    //@body Retry::clone@Clone

    pub fn poll_ready(&mut self, cx: &mut Context) -> (r: Poll<Result<(), E>>)
        ensures
            r matches Poll::Ready(Ok(_)) ==> final(self).inner.ready@,   // #ready_only_when_inner_ready [C20]
            final(self).config == old(self).config,   // #shared_state_handles_and_configuration_are_left_untouched [C05]
    //@body Retry::poll_ready@Service

    pub fn call(&mut self, req: Req, clk: &mut Clock, Tracked(tr): Tracked<&mut Trace<Req, Res, E>>) -> (result: Result<Res, E>)
        requires
            old(tr).fresh(), old(self).inner.ready@,
            // the user closures are total and deterministic functions (their closure contracts)
            old(self).config.policy.retry_predicate is Some ==> forall|e: &E| call_requires(old(self).config.policy.retry_predicate->0, (e,)),
            old(self).config.policy.retry_predicate is Some ==> forall|e: &E, a: bool, b: bool| call_ensures(old(self).config.policy.retry_predicate->0, (e,), a) && call_ensures(old(self).config.policy.retry_predicate->0, (e,), b) ==> a == b,
            old(self).config.max_attempts_source matches MaxAttemptsSource::Dynamic(f) ==> forall|r: &Req| call_requires(f, (r,)),
        ensures
            1 <= final(tr).calls,   // #at_least_one_attempt [C05,C20]
            exists|n: usize| max_attempts_spec(old(self).config.max_attempts_source, req, n) && final(tr).calls <= cap(n),   // #at_most_max_attempts [C05]
            final(tr).done == final(tr).calls && (final(tr).ready_err is None ==> final(tr).last_done == Some(result)),   // #returns_exactly_the_last_outcome [C05,C20]
            final(tr).ready_err matches Some(e) ==> result == Err::<Res, E>(e),   // #a_readiness_error_between_attempts_ends_the_request_with_that_error [C20]
            forall|i: int| 0 <= i < final(tr).reqs.len() ==> final(tr).reqs[i] == req,   // #every_attempt_carries_the_request [C05,C20]
            result is Ok ==> final(tr).calls == final(tr).reqs.len(),   // #bookkeeping
            final(self).config == old(self).config,   // #shared_state_handles_and_configuration_are_left_untouched [C05]
    //@body Retry::call@Service
}
fn main() {}
}
