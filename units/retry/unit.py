RT = "crates/tower-resilience-retry/src/"
TR = "Tracked(tr)"
UNIT = dict(
    serves=["C05", "C20"],
    files={"lib": RT + "lib.rs", "policy": RT + "policy.rs", "config": RT + "config.rs"},
    default_file="lib",
    verus_flags=["--no-erasure-check"],
    rules=[("R1",), ("R2",)],
    extra_params=["clk", "tr"],
    fns={
        "MaxAttemptsSource::get_max_attempts": dict(file="config"),
        "RetryPolicy::should_retry": dict(file="policy"),
        "RetryPolicy::next_backoff": dict(file="policy"),
        "Retry::new": dict(),
        "Retry::clone@Clone": dict(),
        "Retry::poll_ready@Service": dict(),
        "Retry::call@Service": dict(rules=[
            # the loop invariant below speaks about the local that holds the instance observed ready
            ("R22", r"let\s+mut\s+(\w+)\s*=\s*std::mem::replace\(\s*&mut\s+self\.inner\s*,", "service"),
            # tokio's own clock and absolute-deadline timer (optional: the pinned tree sleeps for a relative duration)
            ("sub", "R9-paths", r"tokio::time::Instant::now\(\)", "Instant::now()", -1),
            ("addarg", ["sleep_until"], "&*clk", -1),
            ("R5",),
            ("sub", "R6-ready", r"futures::future::poll_fn\(\|cx\| (\w+)\.poll_ready\(cx\)\)\s*\.await", r"\1.vx_ready(Tracked(tr))", -1),
            ("R4",), ("R3",),
            ("sub", "R9-paths", r"tokio::time::(sleep\w*)", r"\1", -1),
            ("sub", "literal-types", r"let mut attempt(?:: usize)? = 0;", "let mut attempt: usize = 0;", 1),
            ("addarg", ["call", "try_withdraw", "deposit"], TR, 3),
            ("loops", {0: """invariant
                    tr.created && tr.unguarded == 0,
                    tr.calls == attempt && tr.done == attempt && tr.reqs.len() == attempt,   // #one_attempt_per_iteration [C05]
                    max_attempts_spec(config.max_attempts_source, req, max_attempts),
                    attempt == 0 || attempt < max_attempts,   // #retries_only_while_attempts_remain [C05]
                    attempt > 0 ==> (tr.last_done matches Some(Err(e)) && should_retry_spec(config.policy, e)),   // #retries_only_errors_the_predicate_accepts [C05]
                    attempt > 0 ==> tr.slept_since_done >= backoff_spec(*config.policy.interval_fn, (attempt - 1) as usize).nanos,   // #waits_at_least_the_backoff_before_each_retry [C05]
                    attempt > 0 && config.budget is Some ==> tr.granted_since_done,   // #every_retry_was_granted_by_the_budget [C05]
                    !tr.denied,   // #no_attempt_after_the_budget_refused [C05]
                    service.ready@,   // #every_attempt_on_an_instance_observed_ready [C20]
                    tr.ready_err is None,
                    forall|i: int| 0 <= i < tr.reqs.len() ==> tr.reqs[i] == req,   // #every_attempt_carries_the_request [C05,C20]
                    config.policy.retry_predicate is Some ==> forall|e: &E| call_requires(config.policy.retry_predicate->0, (e,)),
                    config.policy.retry_predicate is Some ==> forall|e: &E, a: bool, b: bool| call_ensures(config.policy.retry_predicate->0, (e,), a) && call_ensures(config.policy.retry_predicate->0, (e,), b) ==> a == b,
                    config == old(self).config,
                decreases cap(max_attempts) - attempt"""}),
        ]),
    },
    types=[
        ("enum", "MaxAttemptsSource", "config"),
        ("struct", "RetryPolicy", "policy"),
        ("struct", "RetryConfig", "config", {"drop": ["event_listeners", "name"]}),
        ("struct", "Retry", "lib"),
    ],
)
