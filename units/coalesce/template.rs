#![feature(allocator_api)]
#![allow(unused)]
use vstd::prelude::*;
use vstd::std_specs::cmp::*;
use vstd::std_specs::hash::*;
use core::cmp::Ordering as CmpOrdering;
use std::sync::Arc;
use std::collections::HashMap;
use std::hash::Hash;
use core::marker::PhantomData;
verus! {
//@include time.rs
//@include trace.rs LEDGER_TAGS=[C11]
pub open spec fn call_gate<Req, Res, E>(tr: Trace<Req, Res, E>) -> bool { true }
pub open spec fn await_gate<Req, Res, E>(tr: Trace<Req, Res, E>) -> bool { true }
//@include inner.rs LEDGER_TAGS=[C11]

// ---- unit prelude (ASSUMED) ----
pub trait VClone: Sized { fn clone(&self) -> (r: Self) ensures r == *self; }
/// `Clone::clone` of a user type (response, error): returns an equal value — or PANICS; a panic unwinds through the caller, so
/// no registration duty may be held outside a guard at this point
pub fn vx_user_clone<T: VClone, Req, Res, E>(v: &T, Tracked(tr): Tracked<&mut Trace<Req, Res, E>>) -> (r: T)
    requires old(tr).unguarded == 0,   // #no_unguarded_duty_when_a_user_clone_may_panic [C11]
    ensures r == *v, *final(tr) == *old(tr),
{ v.clone() }
/// tokio::sync::broadcast: a channel is identified by a ghost id; subscribe() yields a receiver of that channel;
/// send() delivers to every receiver of that channel; when the last sender is dropped receivers see Closed.
pub struct Sender<Res, E> { pub id: Ghost<int>, pub p: PhantomData<(Res, E)> }
pub struct Receiver<Res, E> { pub id: Ghost<int>, pub p: PhantomData<(Res, E)> }
pub struct SendError {}
pub enum TryRecvError { Empty, Closed, Lagged(u64) }
impl<Res, E> Sender<Res, E> {
    #[verifier::external_body]
    pub fn subscribe(&self) -> (r: Receiver<Res, E>) ensures r.id == self.id { unimplemented!() }
    #[verifier::external_body]
    pub fn send<Req>(&self, v: Result<Res, E>, Tracked(tr): Tracked<&mut Trace<Req, Res, E>>) -> (r: Result<usize, SendError>)
        ensures *final(tr) == (Trace { sent: old(tr).sent.push((self.id@, v)), ..*old(tr) }),
    { unimplemented!() }
}
impl<Res, E> Receiver<Res, E> {
    #[verifier::external_body]
    pub fn try_recv(&mut self) -> (r: Result<Result<Res, E>, TryRecvError>) ensures final(self).id == old(self).id { unimplemented!() }
}
#[verifier::external_body]
pub fn channel<Res, E>(cap: usize) -> (r: (Sender<Res, E>, Receiver<Res, E>)) ensures r.0.id == r.1.id { unimplemented!() }
/// key.take(): the registration duty leaves the future's RAII field (where Drop would discharge it) and is now held by a
/// local value: from here until complete()/cancel() a panic or cancellation would leak the key (obligation ledger)
pub fn vx_take_key<K, Req, Res, E>(key: &mut Option<K>, Tracked(tr): Tracked<&mut Trace<Req, Res, E>>) -> (r: Option<K>)
    ensures r == *old(key), *final(key) == None::<K>,
        *final(tr) == (Trace { unguarded: old(tr).unguarded + if r is Some { 1nat } else { 0nat }, ..*old(tr) }),
{
    proof { if (*key) is Some { tr.unguarded = tr.unguarded + 1; } }
    key.take()
}
/// parking_lot::Mutex inside Arc<InFlight> (R8): exclusive access for the duration of one kernel operation; the map
/// may have been changed by any contracted operation of other tasks in between
#[verifier::external_body]
pub fn vx_lock<'a, K, Res, E>(m: &'a Arc<InFlight<K, Res, E>>) -> (r: &'a mut InFlight<K, Res, E>) { unimplemented!() }
/// the pinned boxed inner future, polled by hand
impl<Req, Res, E> InnerFut<Req, Res, E> {
    #[verifier::external_body]
    pub fn poll(&mut self, cx: &mut Context, Tracked(tr): Tracked<&mut Trace<Req, Res, E>>) -> (r: Poll<Result<Res, E>>)
        requires old(tr).unguarded == 0,   // #no_unguarded_duty_when_the_inner_future_may_panic [C11]
        ensures r matches Poll::Ready(v) ==> *final(tr) == (Trace { ev: old(tr).ev.push(Ev::InnerDone(v)), done: old(tr).done + 1, last_done: Some(v), slept_since_done: 0, granted_since_done: false, ..*old(tr) }),
                r is Pending ==> *final(tr) == *old(tr),
    { unimplemented!() }
}

// ---- types of /repo (shape-checked); hashbrown::HashMap is read as std HashMap (same get/insert/remove contract) ----
pub enum CoalesceError<E> { Service(E), LeaderCancelled, RecvError }
pub struct InFlight<K, Res, E> { pub requests: HashMap<K, Sender<Res, E>> }
/// the leader's registration held by an RAII guard between try_join and the construction of the future
pub struct Registration<K, Res, E> { pub key: Option<K>, pub in_flight: Arc<InFlight<K, Res, E>> }
/// constructing the guard hands the registration duty to it (its Drop is under contract below)
pub fn vx_guard_registration<K, Req, Res, E>(g: Registration<K, Res, E>, Tracked(tr): Tracked<&mut Trace<Req, Res, E>>) -> (r: Registration<K, Res, E>)
    requires old(tr).unguarded >= 1, g.key is Some,
    ensures r == g, *final(tr) == (Trace { unguarded: (old(tr).unguarded - 1) as nat, guarded: old(tr).guarded + 1, ..*old(tr) }),
{ proof { tr.unguarded = (tr.unguarded - 1) as nat; tr.guarded = tr.guarded + 1; } g }
pub struct CoalesceConfig<K, F> { pub key_extractor: F, pub p: PhantomData<K> }
pub struct CoalesceService<Req, Res, E, K, F> { pub inner: Inner<Req, Res, E>, pub config: Arc<CoalesceConfig<K, F>>, pub in_flight: Arc<InFlight<K, Res, E>>, pub _req: PhantomData<Req> }
pub enum CoalesceFuture<Req, Res, E, K> {
    Leading { future: InnerFut<Req, Res, E>, key: Option<K>, in_flight: Arc<InFlight<K, Res, E>> },
    Waiting { receiver: Receiver<Res, E> },
}

// ---- C11: global registry lemma over the contracts of try_join / complete / cancel ----
/// ghost view of the whole coalescer: `keys` = domain of the in-flight map, `leaders` = live leaders whose registration is still
/// armed (a Registration guard or a Leading future with key Some), each with the key it owns
pub struct Registry<K> { pub keys: Set<K>, pub leaders: Map<int, K> }
/// C11: a key is registered iff exactly one live leader holds it
pub open spec fn reg_inv<K>(g: Registry<K>) -> bool {
    &&& forall|l: int| g.leaders.contains_key(l) ==> g.keys.contains(#[trigger] g.leaders[l])
    &&& forall|l1: int, l2: int| g.leaders.contains_key(l1) && g.leaders.contains_key(l2) && #[trigger] g.leaders[l1] == #[trigger] g.leaders[l2] ==> l1 == l2
    &&& forall|k: K| #[trigger] g.keys.contains(k) ==> exists|l: int| g.leaders.contains_key(l) && #[trigger] g.leaders[l] == k
}
/// what try_join does to the key set, as its contract states it: a registered key is joined and nothing changes; otherwise
/// exactly that key is added and the caller becomes its leader
pub open spec fn join_post<K>(k0: Set<K>, k1: Set<K>, key: K, leader: bool) -> bool {
    if k0.contains(key) { !leader && k1 == k0 } else { leader && k1 == k0.insert(key) }
}
pub open spec fn join_step<K>(g: Registry<K>, k1: Set<K>, key: K, leader: bool, l: int) -> Registry<K> {
    Registry { keys: k1, leaders: if leader { g.leaders.insert(l, key) } else { g.leaders } }
}
/// complete / cancel / Drop by leader `l`: exactly its own key is freed and its registration is disarmed
pub open spec fn release_step<K>(g: Registry<K>, k1: Set<K>, l: int) -> Registry<K> {
    Registry { keys: k1, leaders: g.leaders.remove(l) }
}
pub proof fn lemma_reg_init<K>()
    ensures reg_inv(Registry::<K> { keys: Set::empty(), leaders: Map::empty() }),   // #an_empty_registry_has_no_key_and_no_leader [C11]
{}
pub proof fn lemma_reg_join<K>(g: Registry<K>, k1: Set<K>, key: K, leader: bool, l: int)
    requires reg_inv(g), join_post(g.keys, k1, key, leader), !g.leaders.contains_key(l),
    ensures reg_inv(join_step(g, k1, key, leader, l)),   // #a_join_keeps_one_live_leader_per_registered_key [C11]
        leader ==> !g.keys.contains(key),   // #a_request_leads_only_when_no_call_of_its_key_is_in_flight [C11]
        !leader ==> exists|l0: int| g.leaders.contains_key(l0) && #[trigger] g.leaders[l0] == key,   // #a_waiter_always_has_a_live_leader_of_its_key [C11]
{
    let g1 = join_step(g, k1, key, leader, l);
    if leader {
        assert forall|k: K| #[trigger] g1.keys.contains(k) implies exists|l2: int| g1.leaders.contains_key(l2) && #[trigger] g1.leaders[l2] == k by {
            if k == key { assert(g1.leaders.contains_key(l) && g1.leaders[l] == k); }
            else { assert(g.keys.contains(k)); let l0 = choose|l0: int| g.leaders.contains_key(l0) && #[trigger] g.leaders[l0] == k; assert(g1.leaders.contains_key(l0) && g1.leaders[l0] == k); }
        }
    } else {
        assert(g.keys.contains(key));
    }
}
pub proof fn lemma_reg_release<K>(g: Registry<K>, k1: Set<K>, l: int)
    requires reg_inv(g), g.leaders.contains_key(l), k1 == g.keys.remove(g.leaders[l]),
    ensures reg_inv(release_step(g, k1, l)),   // #a_release_keeps_one_live_leader_per_registered_key [C11]
{
    let g1 = release_step(g, k1, l);
    let key = g.leaders[l];
    assert forall|k: K| #[trigger] g1.keys.contains(k) implies exists|l2: int| g1.leaders.contains_key(l2) && #[trigger] g1.leaders[l2] == k by {
        assert(g.keys.contains(k) && k != key);
        let l0 = choose|l0: int| g.leaders.contains_key(l0) && #[trigger] g.leaders[l0] == k;
        assert(l0 != l);
        assert(g1.leaders.contains_key(l0) && g1.leaders[l0] == k);
    }
    assert forall|l1: int| g1.leaders.contains_key(l1) implies g1.keys.contains(#[trigger] g1.leaders[l1]) by {
        assert(g.leaders.contains_key(l1) && l1 != l);
        assert(g.keys.contains(g.leaders[l1]));
        if g.leaders[l1] == key { assert(g.leaders[l1] == g.leaders[l]); }
    }
}

impl<K: Hash + Eq + VClone, Res: VClone, E: VClone> InFlight<K, Res, E> {
    pub fn try_join<Req>(&mut self, key: K, Tracked(tr): Tracked<&mut Trace<Req, Res, E>>) -> (r: Option<Receiver<Res, E>>)
        requires obeys_key_model::<K>(),
        ensures
            old(self).requests@.contains_key(key) ==> r is Some && r->0.id == old(self).requests@[key].id && final(self).requests@ == old(self).requests@,   // #joins_the_in_flight_call_of_that_key_and_changes_nothing [C11]
            !old(self).requests@.contains_key(key) ==> r is None && final(self).requests@.dom() == old(self).requests@.dom().insert(key)
                && (forall|k: K| old(self).requests@.contains_key(k) ==> final(self).requests@[k] == old(self).requests@[k]),   // #first_request_of_a_key_registers_it_and_touches_no_other_key [C11]
            r is None ==> *final(tr) == (Trace { unguarded: old(tr).unguarded + 1, ..*old(tr) }),   // #registration_is_a_duty_of_the_leader [C11]
            r is Some ==> *final(tr) == *old(tr),
            join_post(old(self).requests@.dom(), final(self).requests@.dom(), key, r is None),   // #each_join_is_a_step_of_the_registry_history [C11]
    //@body InFlight::try_join

    pub fn complete<Req>(&mut self, key: &K, result: Result<Res, E>, Tracked(tr): Tracked<&mut Trace<Req, Res, E>>)
        requires obeys_key_model::<K>(),
        ensures
            final(self).requests@ == old(self).requests@.remove(*key),   // #completion_frees_exactly_that_key [C11]
            final(self).requests@.dom() == old(self).requests@.dom().remove(*key),   // #each_release_is_a_step_of_the_registry_history [C11]
            old(self).requests@.contains_key(*key) ==> final(tr).sent == old(tr).sent.push((old(self).requests@[*key].id@, result)),   // #result_delivered_on_the_channel_of_its_own_key [C11]
            !old(self).requests@.contains_key(*key) ==> final(tr).sent == old(tr).sent,   // #nothing_sent_for_an_unregistered_key [C11]
            final(tr).removed == old(tr).removed + 1 && final(tr).calls == old(tr).calls && final(tr).last_done == old(tr).last_done && final(tr).done == old(tr).done
                && final(tr).unguarded == (if old(tr).unguarded > 0 { old(tr).unguarded - 1 } else { 0 }),   // #frame_and_duty_discharged
    //@body InFlight::complete

    pub fn cancel<Req>(&mut self, key: &K, Tracked(tr): Tracked<&mut Trace<Req, Res, E>>)
        requires obeys_key_model::<K>(),
        ensures
            final(self).requests@ == old(self).requests@.remove(*key),   // #cancel_frees_exactly_that_key [C11]
            final(self).requests@.dom() == old(self).requests@.dom().remove(*key),   // #each_release_is_a_step_of_the_registry_history [C11]
            final(tr).sent == old(tr).sent,   // #cancel_sends_nothing_so_waiters_see_the_channel_closed [C11]
            final(tr).removed == old(tr).removed + 1 && final(tr).calls == old(tr).calls && final(tr).last_done == old(tr).last_done && final(tr).done == old(tr).done
                && final(tr).unguarded == (if old(tr).unguarded > 0 { old(tr).unguarded - 1 } else { 0 }),   // #frame_and_duty_discharged
    //@body InFlight::cancel
}

impl<K: Hash + Eq + VClone, Res: VClone, E: VClone> Registration<K, Res, E> {
    /// impl Drop for Registration: un-registers the key if the guard still holds it
    pub fn drop<Req>(&mut self, Tracked(tr): Tracked<&mut Trace<Req, Res, E>>)
        requires obeys_key_model::<K>(), old(tr).removed == 0,
        ensures
            old(self).key is Some ==> final(tr).removed == 1 && final(tr).sent == old(tr).sent,   // #dropped_registration_frees_its_key_without_sending [C11]
            old(self).key is None ==> final(tr).removed == 0,   // #disarmed_registration_does_nothing [C11]
            final(self).key is None,   // #key_released_on_drop [C11]
    //@body Registration::drop@Drop
}

impl<E: VClone> CoalesceError<E> {
    pub fn clone(&self) -> (r: Self)
        ensures r == *self,   // #a_cloned_error_says_the_same_thing [C11]
    //@body CoalesceError::clone@Clone
}
impl<Req, Res: VClone, E: VClone, K: Hash + Eq + VClone, F: Fn(&Req) -> K> CoalesceService<Req, Res, E, K, F> {
    pub fn clone(&self) -> (r: Self)
        ensures r.in_flight == self.in_flight && r.config == self.config,   // #clones_share_the_in_flight_map [C11]
    //@body CoalesceService::clone@Clone

    pub fn poll_ready(&mut self, cx: &mut Context) -> (r: Poll<Result<(), CoalesceError<E>>>)
        ensures
            r matches Poll::Ready(Ok(_)) ==> final(self).inner.ready@,   // #ready_only_when_inner_ready [C20]
            r matches Poll::Ready(Err(e)) ==> e is Service,   // #readiness_errors_surface_as_inner [C20]
            final(self).in_flight == old(self).in_flight && final(self).config == old(self).config,   // #shared_state_handles_and_configuration_are_left_untouched [C11]
    //@body CoalesceService::poll_ready@Service

    pub fn call(&mut self, request: Req, Tracked(tr): Tracked<&mut Trace<Req, Res, E>>) -> (f: CoalesceFuture<Req, Res, E, K>)
        requires old(tr).fresh(), old(self).inner.ready@, obeys_key_model::<K>(),
            call_requires(old(self).config.key_extractor, (&request,)),
        ensures
            f is Waiting ==> final(tr).calls == 0 && final(tr).unguarded == 0,   // #a_waiter_makes_no_inner_call_of_its_own [C11]
            f is Leading ==> final(tr).calls == 1 && final(tr).last_req == Some(request)
                && f->key is Some && call_ensures(old(self).config.key_extractor, (&request,), f->key->0) && f->in_flight == old(self).in_flight,   // #the_leader_makes_exactly_one_inner_call_and_owns_its_key [C11,C20]
            f is Leading ==> final(tr).unguarded == 1 && final(tr).guarded == 1,   // the duty moved from the registration guard into the returned future (both Drops are under contract)
            final(self).in_flight == old(self).in_flight && final(self).config == old(self).config,   // #shared_state_handles_and_configuration_are_left_untouched [C11]
    //@body CoalesceService::call@Service
}

impl<Req, Res: VClone, E: VClone, K: Hash + Eq + VClone> CoalesceFuture<Req, Res, E, K> {
    pub fn poll(&mut self, cx: &mut Context, Tracked(tr): Tracked<&mut Trace<Req, Res, E>>) -> (r: Poll<Result<Res, CoalesceError<E>>>)
        requires obeys_key_model::<K>(), old(tr).unguarded == 0, old(tr).removed == 0, old(tr).sent.len() == 0,
        ensures
            ((*old(self)) is Leading && (*old(self))->key is Some && r is Ready) ==> final(tr).removed == 1 && final(tr).last_done is Some
                && (forall|i: int| 0 <= i < final(tr).sent.len() ==> (#[trigger] final(tr).sent[i]).1 == final(tr).last_done->0),   // #leader_completes_its_key_once_with_a_clone_of_the_result [C11]
            ((*final(self)) is Leading && r is Ready) ==> (*final(self))->key is None,   // #key_released_on_completion [C11]
            ((*old(self)) is Leading && r is Pending) ==> *final(tr) == *old(tr) && (*final(self)) is Leading && (*final(self))->key == (*old(self))->key && (*final(self))->in_flight == (*old(self))->in_flight,   // #pending_leader_keeps_its_registration [C11]
            (*old(self)) is Leading ==> (match r { Poll::Ready(Ok(v)) => final(tr).last_done == Some(Ok::<Res, E>(v)), Poll::Ready(Err(CoalesceError::Service(e))) => final(tr).last_done == Some(Err::<Res, E>(e)),
                                                 Poll::Ready(Err(_)) => false, Poll::Pending => true }),   // #leader_returns_the_inner_outcome_unchanged [C11,C20]
            final(tr).unguarded == 0,   // #no_registration_duty_left_outside_the_future_when_poll_returns [C11]
            (*old(self)) is Waiting ==> final(tr).calls == old(tr).calls && final(tr).removed == 0 && final(tr).sent.len() == 0,   // #a_waiter_touches_neither_the_inner_service_nor_the_map [C11]
    //@body CoalesceFuture::poll@Future

    /// impl Drop for CoalesceFuture
    pub fn drop(&mut self, Tracked(tr): Tracked<&mut Trace<Req, Res, E>>)
        requires obeys_key_model::<K>(), old(tr).removed == 0,
        ensures
            ((*old(self)) is Leading && (*old(self))->key is Some) ==> final(tr).removed == 1 && final(tr).sent == old(tr).sent,   // #dropped_leader_frees_its_key_without_sending [C11]
            ((*old(self)) is Leading && (*old(self))->key is None) ==> final(tr).removed == 0,   // #completed_leader_does_not_cancel [C11]
            (*old(self)) is Waiting ==> final(tr).removed == 0 && final(tr).sent == old(tr).sent,   // #dropped_waiter_changes_nothing [C11]
            (*final(self)) is Leading ==> (*final(self))->key is None,   // #key_released_on_drop [C11]
    //@body CoalesceFuture::drop@Drop
}
fn main() {}
}
