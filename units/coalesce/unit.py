CO = "crates/tower-resilience-coalesce/src/"
TR = "Tracked(tr)"
LOCKMAP = ("sub", "R8-lock", r"let mut (\w+) = self\.requests\.lock\(\);", r"let \1 = &mut self.requests;", 1)
UNIT = dict(
    serves=["C11", "C20"],
    files={"service": CO + "service.rs"},
    default_file="service",
    verus_flags=["--no-erasure-check"],
    rules=[("R1",), ("R2",)],
    extra_params=["clk", "tr"],
    fns={
        "InFlight::try_join": dict(rules=[
            LOCKMAP,
            ("sub", "R9-paths", r"broadcast::channel\(1\)", "channel(1)", 1),
            ("inject", r"\b\w+\.insert\(key, tx\);", "after", "proof { tr.unguarded = tr.unguarded + 1; }"),
        ]),
        "InFlight::complete": dict(rules=[LOCKMAP, ("addarg", ["send"], TR, 1), ("inject", None, "end", "proof { tr.removed = tr.removed + 1; if tr.unguarded > 0 { tr.unguarded = (tr.unguarded - 1) as nat; } }")]),
        "InFlight::cancel": dict(rules=[LOCKMAP, ("inject", None, "end", "proof { tr.removed = tr.removed + 1; if tr.unguarded > 0 { tr.unguarded = (tr.unguarded - 1) as nat; } }")]),
        "Registration::drop@Drop": dict(rules=[
            ("sub", "ledger-take", r"\bself\.key\.take\(\)", "vx_take_key(&mut self.key, Tracked(tr))", 1),
            ("sub", "R8-lock", r"self\.in_flight\.cancel\(", "vx_lock(&self.in_flight).cancel(", 1),
            ("addarg", ["cancel"], TR, 1),
        ]),
        "CoalesceError::clone@Clone": dict(),
        "CoalesceService::clone@Clone": dict(),
        "CoalesceService::poll_ready@Service": dict(rules=[("R10p", "CoalesceError::Service")]),
        "CoalesceService::call@Service": dict(rules=[
            ("sub", "R8-lock", r"self\.in_flight\.try_join\(", "vx_lock(&self.in_flight).try_join(", 1),
            ("addarg", ["try_join", "call"], TR, 2),
            ("sub", "ledger-guard", r"Registration \{\s*key: Some\(key\),\s*in_flight: Arc::clone\(&self\.in_flight\),\s*\}", "vx_guard_registration(Registration { key: Some(key), in_flight: Arc::clone(&self.in_flight) }, Tracked(tr))", 1),
            ("sub", "ledger-take", r"registration\.key\.take\(\)", "vx_take_key(&mut registration.key, Tracked(tr))", 1),
            ("wrapcalls", "R13-pin", r"Box::pin", "({args})", -1),
        ]),
        "CoalesceFuture::poll@Future": dict(skip_sig_check=True, rules=[
            ("sub", "R13-pin", r"let this = unsafe \{ self\.get_unchecked_mut\(\) \};", "let this = self;", 1),
            ("sub", "R13-pin", r"future\.as_mut\(\)\.poll\(cx\)", "future.poll(cx, Tracked(tr))", 1),
            ("sub", "ledger-take", r"\bkey\.take\(\)", "vx_take_key(key, Tracked(tr))", -1),
            ("sub", "ledger-user-clone", r"\b(res|e)\.clone\(\)", r"vx_user_clone(\1, Tracked(tr))", -1),
            ("sub", "R8-lock", r"in_flight\.complete\(", "vx_lock(in_flight).complete(", 1),
            ("addarg", ["complete"], TR, 1),
            ("sub", "R9-paths", r"broadcast::error::TryRecvError::", "TryRecvError::", 3),
            ("R10e", 2),
        ]),
        "CoalesceFuture::drop@Drop": dict(rules=[
            ("sub", "ledger-take", r"\bkey\.take\(\)", "vx_take_key(key, Tracked(tr))", -1),
            ("sub", "R8-lock", r"in_flight\.cancel\(", "vx_lock(in_flight).cancel(", 1),
            ("addarg", ["cancel"], TR, 1),
        ]),
    },
    types=[
        ("enum", "CoalesceError", "service"),
        ("struct", "InFlight", "service"),
        ("struct", "Registration", "service"),
        ("struct", "CoalesceService", "service"),
        ("enum", "CoalesceFuture", "service"),
    ],
    frame=[
        dict(name="in_flight_map_touched_only_by_the_three_kernel_operations", tags=["C11"],
             pattern=r"\brequests\s*\.\s*(lock|get_mut|try_lock)\s*\(", glob=CO + "**/*.rs",
             only_in=["service:InFlight::try_join", "service:InFlight::complete", "service:InFlight::cancel"]),
    ],
)
