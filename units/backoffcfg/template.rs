#![feature(allocator_api)]
#![allow(unused)]
use vstd::prelude::*;
use vstd::std_specs::cmp::*;
use core::cmp::Ordering as CmpOrdering;
use std::sync::Arc;
verus! {
//@include time.rs

// ---- unit prelude (ASSUMED): the float leaves. What `capped_exponential` and `randomize` COMPUTE is decided by the Kani crate
// kani/backoff on their real bodies (total, capped, saturating); this unit decides that the configuration reaches them unchanged.
pub uninterp spec fn f64_two() -> f64;
#[verifier::external_body] pub fn vx_two() -> (r: f64) ensures r == f64_two() { unimplemented!() }
pub uninterp spec fn clamp01(x: f64) -> f64;
#[verifier::external_body] pub fn vx_clamp01(x: f64) -> (r: f64) ensures r == clamp01(x) { unimplemented!() }
pub uninterp spec fn capped_spec(initial: Duration, multiplier: f64, attempt: usize, max: Option<Duration>) -> Duration;
#[verifier::external_body]
pub fn capped_exponential(initial_interval: Duration, multiplier: f64, attempt: usize, max_interval: Option<Duration>) -> (r: Duration)
    ensures r == capped_spec(initial_interval, multiplier, attempt, max_interval)
{ unimplemented!() }
/// `randomize` draws from a range around `duration` whose width is the randomization factor: a relation, not a function
pub uninterp spec fn randomized_from(factor: f64, duration: Duration, r: Duration) -> bool;
pub struct CustomInterval { pub id: Ghost<int> }
pub uninterp spec fn custom_spec(id: int, attempt: usize) -> Duration;
impl CustomInterval { #[verifier::external_body] pub fn next_interval(&self, attempt: usize) -> (r: Duration) ensures r == custom_spec(self.id@, attempt) { unimplemented!() } }

// ---- types of /repo (shape-checked) ----
pub struct FixedInterval { pub duration: Duration }
pub struct ExponentialBackoff { pub initial_interval: Duration, pub multiplier: f64, pub max_interval: Option<Duration> }
pub struct ExponentialRandomBackoff { pub initial_interval: Duration, pub multiplier: f64, pub randomization_factor: f64, pub max_interval: Option<Duration> }
pub enum ReconnectPolicy { None, Fixed(FixedInterval), Exponential(ExponentialBackoff), ExponentialRandom(ExponentialRandomBackoff), Custom(Arc<CustomInterval>) }

impl FixedInterval {
    pub fn new(duration: Duration) -> (r: Self)
        ensures r.duration == duration,   // #a_fixed_interval_is_the_given_duration [C14,C05]
    //@body FixedInterval::new
    pub fn next_interval(&self, _attempt: usize) -> (r: Duration)
        ensures r == self.duration,   // #a_fixed_interval_is_the_same_for_every_attempt [C14,C05]
    //@body FixedInterval::next_interval@IntervalFunction
}
impl ExponentialBackoff {
    pub fn new(initial_interval: Duration) -> (r: Self)
        ensures r.initial_interval == initial_interval && r.multiplier == f64_two() && r.max_interval is None,   // #starts_from_the_given_interval_doubling_uncapped [C14,C05]
    //@body ExponentialBackoff::new
    pub fn multiplier(self, multiplier: f64) -> (r: Self)
        ensures r.multiplier == multiplier,   // #sets_the_multiplier [C14]
            r.initial_interval == self.initial_interval && r.max_interval == self.max_interval,   // #keeps_every_other_setting [C14]
    //@body ExponentialBackoff::multiplier
    pub fn max_interval(self, max_interval: Duration) -> (r: Self)
        ensures r.max_interval == Some(max_interval),   // #the_cap_is_exactly_the_given_duration [C14]
            r.initial_interval == self.initial_interval && r.multiplier == self.multiplier,   // #keeps_every_other_setting [C14]
    //@body ExponentialBackoff::max_interval
    pub fn next_interval(&self, attempt: usize) -> (r: Duration)
        ensures r == capped_spec(self.initial_interval, self.multiplier, attempt, self.max_interval),   // #the_interval_is_the_capped_exponential_of_exactly_the_configured_values_and_this_attempt [C14,C05]
    //@body ExponentialBackoff::next_interval@IntervalFunction
}
impl ExponentialRandomBackoff {
    pub fn new(initial_interval: Duration, randomization_factor: f64) -> (r: Self)
        ensures r.initial_interval == initial_interval && r.multiplier == f64_two() && r.max_interval is None,   // #starts_from_the_given_interval_doubling_uncapped [C14]
            r.randomization_factor == clamp01(randomization_factor),   // #the_randomization_factor_is_clamped_to_the_unit_interval [C14]
    //@body ExponentialRandomBackoff::new
    pub fn multiplier(self, multiplier: f64) -> (r: Self)
        ensures r.multiplier == multiplier,   // #sets_the_multiplier [C14]
            r.initial_interval == self.initial_interval && r.max_interval == self.max_interval && r.randomization_factor == self.randomization_factor,   // #keeps_every_other_setting [C14]
    //@body ExponentialRandomBackoff::multiplier
    pub fn max_interval(self, max_interval: Duration) -> (r: Self)
        ensures r.max_interval == Some(max_interval),   // #the_cap_is_exactly_the_given_duration [C14]
            r.initial_interval == self.initial_interval && r.multiplier == self.multiplier && r.randomization_factor == self.randomization_factor,   // #keeps_every_other_setting [C14]
    //@body ExponentialRandomBackoff::max_interval
    #[verifier::external_body]
    pub fn randomize(&self, duration: Duration) -> (r: Duration)
        ensures randomized_from(self.randomization_factor, duration, r)
    { unimplemented!() }
    pub fn next_interval(&self, attempt: usize) -> (r: Duration)
        ensures randomized_from(self.randomization_factor, capped_spec(self.initial_interval, self.multiplier, attempt, self.max_interval), r),   // #the_interval_is_the_randomized_capped_exponential_of_exactly_the_configured_values_and_this_attempt [C14]
    //@body ExponentialRandomBackoff::next_interval@IntervalFunction
}

pub open spec fn exp_policy(initial: Duration, max: Duration) -> ReconnectPolicy {
    ReconnectPolicy::Exponential(ExponentialBackoff { initial_interval: initial, multiplier: f64_two(), max_interval: Some(max) })
}
impl ReconnectPolicy {
    pub fn none() -> (r: Self)
        ensures r is None,   // #no_reconnection_policy [C16]
    //@body ReconnectPolicy::none
    pub fn fixed(delay: Duration) -> (r: Self)
        ensures r == ReconnectPolicy::Fixed(FixedInterval { duration: delay }),   // #fixed_policy_waits_exactly_the_given_delay [C16,C14]
    //@body ReconnectPolicy::fixed
    pub fn exponential(initial_delay: Duration, max_delay: Duration) -> (r: Self)
        ensures r == exp_policy(initial_delay, max_delay),   // #exponential_policy_doubles_from_the_initial_delay_capped_at_exactly_the_given_maximum [C14,C16]
    //@body ReconnectPolicy::exponential
    pub fn exponential_random(initial_delay: Duration, max_delay: Duration, randomization_factor: f64) -> (r: Self)
        ensures r == ReconnectPolicy::ExponentialRandom(ExponentialRandomBackoff { initial_interval: initial_delay, multiplier: f64_two(), randomization_factor: clamp01(randomization_factor), max_interval: Some(max_delay) }),   // #randomized_policy_doubles_from_the_initial_delay_capped_at_exactly_the_given_maximum [C14,C16]
    //@body ReconnectPolicy::exponential_random
    pub fn default() -> (r: Self)
        ensures r == exp_policy(Duration { nanos: 100_000_000 }, Duration { nanos: 5_000_000_000 }),   // #default_policy_is_exponential_from_100ms_capped_at_5s [C16,C14]
    //@body ReconnectPolicy::default@Default
}
} // verus!
fn main() {}
