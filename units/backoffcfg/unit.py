RC = "crates/tower-resilience-reconnect/src/"
RT = "crates/tower-resilience-retry/src/"
MUT = [("sub", "R16-mut-self", r"\bself\b", "self_", -1), ("inject", None, "start", "let mut self_ = self;")]
TWO = ("sub", "R14-float", r"(?<![\w.])2\.0(?![\w.])", "vx_two()", -1)
UNIT = dict(
    serves=["C14", "C05", "C16"],
    files={"backoff": RT + "backoff.rs", "policy": RC + "policy.rs"},
    default_file="backoff",
    rules=[("R1",)],
    extra_params=[],
    fns={
        "FixedInterval::new": dict(),
        "FixedInterval::next_interval@IntervalFunction": dict(),
        "ExponentialBackoff::new": dict(rules=[TWO]),
        "ExponentialBackoff::multiplier": dict(rules=MUT),
        "ExponentialBackoff::max_interval": dict(rules=MUT),
        "ExponentialBackoff::next_interval@IntervalFunction": dict(),
        "ExponentialRandomBackoff::new": dict(rules=[TWO, ("sub", "R14-float", r"randomization_factor\s*\.\s*clamp\(\s*0\.0\s*,\s*1\.0\s*\)", "vx_clamp01(randomization_factor)", -1)]),
        "ExponentialRandomBackoff::multiplier": dict(rules=MUT),
        "ExponentialRandomBackoff::max_interval": dict(rules=MUT),
        "ExponentialRandomBackoff::next_interval@IntervalFunction": dict(),
        "ReconnectPolicy::none": dict(file="policy"),
        "ReconnectPolicy::fixed": dict(file="policy"),
        "ReconnectPolicy::exponential": dict(file="policy", rules=[TWO]),
        "ReconnectPolicy::exponential_random": dict(file="policy", rules=[TWO]),
        "ReconnectPolicy::default@Default": dict(file="policy"),
    },
    types=[
        ("struct", "FixedInterval", "backoff"), ("struct", "ExponentialBackoff", "backoff"), ("struct", "ExponentialRandomBackoff", "backoff"),
        ("enum", "ReconnectPolicy", "policy"),
    ],
)
