#![feature(allocator_api)]
#![allow(unused)]
use vstd::prelude::*;
use vstd::std_specs::cmp::*;
use core::cmp::Ordering as CmpOrdering;
use std::collections::VecDeque;
verus! {
//@include time.rs
//@include vecdeque.rs

// ---- unit prelude (hand-written; every contract here is an ASSUMPTION) ----
// state_atomic: Arc<AtomicU8> in /repo, written only by Circuit::transition_to (frame check);
// modelled as a plain byte owned by the Circuit.
pub struct MirrorU8 { pub v: u8 }
pub enum Ordering { Release, Acquire, Relaxed, SeqCst, AcqRel }
impl MirrorU8 { pub fn store(&mut self, v: u8, o: Ordering) ensures final(self).v == v { self.v = v; } }

// float leaves (R14): the rate expressions and comparisons are uninterpreted here; facts about
// them are Kani obligations on the same extracted text.
pub uninterp spec fn ratio(a: int, b: int) -> f64;
pub uninterp spec fn f64_ge(a: f64, b: f64) -> bool;
#[verifier::external_body]
fn vx_leaf_failure_rate(failure_count: usize, total_count: usize) -> (r: f64) ensures r == ratio(failure_count as int, total_count as int) { unimplemented!() }
#[verifier::external_body]
fn vx_leaf_slow_call_rate(slow_call_count: usize, total_count: usize) -> (r: f64) ensures r == ratio(slow_call_count as int, total_count as int) { unimplemented!() }
#[verifier::external_body]
fn vx_leafm_failure_rate(total_calls: usize, failure_count: usize) -> (r: f64) { unimplemented!() }
#[verifier::external_body]
fn vx_leafm_slow_call_rate(total_calls: usize, slow_call_count: usize) -> (r: f64) { unimplemented!() }
#[verifier::external_body]
fn vx_f64_ge(a: f64, b: f64) -> (r: bool) ensures r == f64_ge(a, b) { a >= b }

// ---- ghost history (count-based window) and half-open trial counter ----
pub struct Outcome { pub fail: bool, pub slow: bool }
pub tracked struct Gh { pub ghost hist: Seq<Outcome>, pub ghost trials: nat }
pub open spec fn nfail(h: Seq<Outcome>) -> nat decreases h.len() {
    if h.len() == 0 { 0 } else { nfail(h.drop_last()) + if h.last().fail { 1nat } else { 0nat } }
}
pub open spec fn nslow(h: Seq<Outcome>) -> nat decreases h.len() {
    if h.len() == 0 { 0 } else { nslow(h.drop_last()) + if h.last().slow { 1nat } else { 0nat } }
}
pub proof fn lemma_push(h: Seq<Outcome>, o: Outcome)   // #lemma_push
    ensures nfail(h.push(o)) == nfail(h) + if o.fail { 1nat } else { 0nat },
            nslow(h.push(o)) == nslow(h) + if o.slow { 1nat } else { 0nat },
            nfail(h) <= h.len(), nslow(h) <= h.len(),
    decreases h.len(),
{
    assert(h.push(o).drop_last() =~= h);
    if h.len() > 0 { lemma_push(h.drop_last(), h.last()); assert(h.drop_last().push(h.last()) =~= h); }
}
impl Gh {
    pub open spec fn empty() -> Gh { Gh { hist: Seq::empty(), trials: 0 } }
    pub proof fn do_push(tracked &mut self, o: Outcome)
        ensures final(self).hist == old(self).hist.push(o), final(self).trials == old(self).trials,
    { self.hist = self.hist.push(o); }
    pub proof fn do_clear(tracked &mut self) ensures *final(self) == Gh::empty() { self.hist = Seq::empty(); self.trials = 0; }
    pub proof fn do_admit(tracked &mut self)
        ensures final(self).hist == old(self).hist, final(self).trials == old(self).trials + 1,
    { self.trials = self.trials + 1; }
}

// ---- types of /repo (shape checked against the real definitions on every run) ----
#[derive(Debug, Clone, Copy, PartialEq, Eq, Structural)]
#[repr(u8)]
pub enum CircuitState { Closed = 0, Open = 1, HalfOpen = 2 }
#[derive(Debug, Clone, Copy, PartialEq, Eq, Structural)]
pub enum SlidingWindowType { CountBased, TimeBased }
pub struct CircuitBreakerConfig<C> {
    pub failure_rate_threshold: f64,
    pub sliding_window_type: SlidingWindowType,
    pub sliding_window_size: usize,
    pub sliding_window_duration: Option<Duration>,
    pub wait_duration_in_open: Duration,
    pub permitted_calls_in_half_open: usize,
    pub minimum_number_of_calls: usize,
    pub failure_classifier: C,
    pub slow_call_duration_threshold: Option<Duration>,
    pub slow_call_rate_threshold: f64,
}
pub struct CallRecord { pub timestamp: Instant, pub is_failure: bool, pub is_slow: bool }
pub struct CircuitMetrics {
    pub state: CircuitState,
    pub total_calls: usize,
    pub failure_count: usize,
    pub success_count: usize,
    pub slow_call_count: usize,
    pub failure_rate: f64,
    pub slow_call_rate: f64,
    pub time_since_state_change: Duration,
}
pub struct Circuit {
    pub state: CircuitState,
    pub state_atomic: MirrorU8,
    pub last_state_change: Instant,
    pub failure_count: usize,
    pub success_count: usize,
    pub total_count: usize,
    pub slow_call_count: usize,
    pub call_records: VecDeque<CallRecord>,
}

// ---- specification vocabulary ----
pub open spec fn is_slow_spec<C>(config: &CircuitBreakerConfig<C>, d: Duration) -> bool {
    config.slow_call_duration_threshold is Some && d.nanos >= config.slow_call_duration_threshold->0.nanos
}
pub open spec fn rfail(r: Seq<CallRecord>) -> nat decreases r.len() {
    if r.len() == 0 { 0 } else { rfail(r.drop_last()) + if r.last().is_failure { 1nat } else { 0nat } }
}
pub open spec fn rslow(r: Seq<CallRecord>) -> nat decreases r.len() {
    if r.len() == 0 { 0 } else { rslow(r.drop_last()) + if r.last().is_slow { 1nat } else { 0nat } }
}
pub proof fn lemma_rpush(h: Seq<CallRecord>, o: CallRecord)   // #lemma_rpush
    ensures rfail(h.push(o)) == rfail(h) + if o.is_failure { 1nat } else { 0nat },
            rslow(h.push(o)) == rslow(h) + if o.is_slow { 1nat } else { 0nat },
            rfail(h) <= h.len(), rslow(h) <= h.len(),
    decreases h.len(),
{
    assert(h.push(o).drop_last() =~= h);
    if h.len() > 0 { lemma_rpush(h.drop_last(), h.last()); assert(h.drop_last().push(h.last()) =~= h); }
}
/// the records that survive a cleanup at clock reading `now` with window `w`
pub open spec fn live(r: Seq<CallRecord>, now: nat, w: nat) -> Seq<CallRecord> decreases r.len() {
    if r.len() > 0 && now >= r[0].timestamp.t && now - r[0].timestamp.t > w { live(r.drop_first(), now, w) } else { r }
}
pub open spec fn bounded(r: Seq<CallRecord>, b: nat) -> bool { forall|i: int| 0 <= i < r.len() ==> (#[trigger] r[i]).timestamp.t <= b }
/// the documented trip condition over a window with `total` calls, `fail` failures, `slow` slow calls
pub open spec fn should_open<C>(config: &CircuitBreakerConfig<C>, total: int, fail: int, slow: int) -> bool {
    &&& total >= config.minimum_number_of_calls
    &&& (config.sliding_window_type == SlidingWindowType::CountBased ==> total >= config.sliding_window_size)
    &&& (f64_ge(ratio(fail, total), config.failure_rate_threshold)
         || (config.slow_call_duration_threshold is Some && f64_ge(ratio(slow, total), config.slow_call_rate_threshold)))
}
/// time-based evaluation at clock reading t: evict what expired, then decide on what is left
pub open spec fn tb_eval<C>(pre_state: CircuitState, pre_lsc: Instant, post: Circuit, config: &CircuitBreakerConfig<C>, recs: Seq<CallRecord>) -> bool {
    if should_open(config, recs.len() as int, rfail(recs) as int, rslow(recs) as int) && pre_state != CircuitState::Open {
        post.state == CircuitState::Open && post.window_empty()
    } else {
        post.state == pre_state && post.call_records@ == recs && post.last_state_change == pre_lsc
    }
}
/// r2 is what the time-based window holds right after recording one call: expired prefix evicted at
/// some clock reading t1, then the new record stamped no earlier than t1
pub open spec fn pushed(old_recs: Seq<CallRecord>, r2: Seq<CallRecord>, fail: bool, slow: bool, lo: nat, hi: nat, w: nat) -> bool {
    &&& r2.len() > 0 && r2.last().is_failure == fail && r2.last().is_slow == slow && lo <= r2.last().timestamp.t <= hi
    &&& exists|t1: nat| lo <= t1 <= r2.last().timestamp.t && r2.drop_last() == #[trigger] live(old_recs, t1, w)
}
/// documented machine, count-based window: one recorded outcome
pub open spec fn cb_record<C>(pre: Circuit, pre_gh: Gh, post: Circuit, post_gh: Gh, config: &CircuitBreakerConfig<C>, fail: bool, slow: bool) -> bool {
    let h2 = pre_gh.hist.push(Outcome { fail, slow });
    if pre.state == CircuitState::HalfOpen {
        if fail { post.state == CircuitState::Open && post.window_empty() && post_gh == Gh::empty() }
        else if pre.success_count + 1 >= config.permitted_calls_in_half_open { post.state == CircuitState::Closed && post.window_empty() && post_gh == Gh::empty() }
        else { post.state == CircuitState::HalfOpen && post_gh.hist == h2 && post_gh.trials == pre_gh.trials && post.last_state_change == pre.last_state_change }
    } else {
        if should_open(config, h2.len() as int, nfail(h2) as int, nslow(h2) as int) && pre.state != CircuitState::Open {
            post.state == CircuitState::Open && post.window_empty() && post_gh == Gh::empty()
        } else {
            post.state == pre.state && post_gh.hist == h2 && post_gh.trials == pre_gh.trials && post.last_state_change == pre.last_state_change
        }
    }
}
/// documented machine, time-based window: one recorded outcome between clock readings lo and hi
pub open spec fn tb_record<C>(pre: Circuit, post: Circuit, config: &CircuitBreakerConfig<C>, fail: bool, slow: bool, lo: nat, hi: nat) -> bool {
    let w = config.sliding_window_duration->0.nanos as nat;
    if pre.state == CircuitState::HalfOpen {
        if fail { post.state == CircuitState::Open && post.window_empty() }
        else {
            exists|r2: Seq<CallRecord>| pushed(pre.call_records@, r2, fail, slow, lo, hi, w) && (
                if r2.len() - #[trigger] rfail(r2) >= config.permitted_calls_in_half_open { post.state == CircuitState::Closed && post.window_empty() }
                else { post.state == CircuitState::HalfOpen && post.call_records@ == r2 && post.last_state_change == pre.last_state_change })
        }
    } else {
        exists|r2: Seq<CallRecord>, t: nat| #![trigger live(r2, t, w)] pushed(pre.call_records@, r2, fail, slow, lo, hi, w) && lo <= t <= hi
            && tb_eval(pre.state, pre.last_state_change, post, config, live(r2, t, w))
    }
}
pub broadcast proof fn lemma_push_drop_last(s: Seq<CallRecord>, x: CallRecord)
    ensures #[trigger] s.push(x).drop_last() == s
{ assert(s.push(x).drop_last() =~= s); }

impl<C> CircuitBreakerConfig<C> {
    pub open spec fn wf(&self) -> bool {
        self.sliding_window_type == SlidingWindowType::TimeBased ==> self.sliding_window_duration is Some
    }
}

impl CircuitState {
    pub fn from_u8(value: u8) -> (r: Self)
        ensures
            value == 0 ==> r == CircuitState::Closed,   // #from_u8_closed [C04]
            value == 1 ==> r == CircuitState::Open,     // #from_u8_open [C04]
            value == 2 ==> r == CircuitState::HalfOpen, // #from_u8_halfopen [C04]
            value == r as u8 || (value > 2 && r == CircuitState::Closed),   // #from_u8_roundtrip [C04]
    //@body CircuitState::from_u8
}

impl Circuit {
    /// representation invariant, in three independently reported parts
    pub open spec fn wf<C>(&self, gh: Gh, config: &CircuitBreakerConfig<C>, clk: Clock) -> bool {
        self.wf_mirror() && self.wf_clock(clk) && self.wf_window(gh, config, clk)
    }
    /// the lock-free state view agrees with the state
    pub open spec fn wf_mirror(&self) -> bool { self.state_atomic.v == self.state as u8 }
    pub open spec fn wf_clock(&self, clk: Clock) -> bool { self.last_state_change.t <= clk.now@ }
    /// the counters are the counts of the recorded history since the last transition
    pub open spec fn wf_window<C>(&self, gh: Gh, config: &CircuitBreakerConfig<C>, clk: Clock) -> bool {
        &&& self.total_count < usize::MAX
        &&& (config.sliding_window_type == SlidingWindowType::CountBased ==> {
                &&& self.total_count == gh.hist.len()
                &&& self.failure_count == nfail(gh.hist)
                &&& self.slow_call_count == nslow(gh.hist)
                &&& self.success_count + self.failure_count == self.total_count
                &&& self.call_records@.len() == 0
            })
        &&& (config.sliding_window_type == SlidingWindowType::TimeBased ==> {
                &&& self.total_count == 0 && self.failure_count == 0 && self.success_count == 0 && self.slow_call_count == 0
                &&& gh.hist.len() == 0
                &&& bounded(self.call_records@, clk.now@)
            })
    }
    /// (total, failures, slow) of the current window
    pub open spec fn wtotal<C>(&self, config: &CircuitBreakerConfig<C>) -> int {
        if config.sliding_window_type == SlidingWindowType::CountBased { self.total_count as int } else { self.call_records@.len() as int }
    }
    pub open spec fn wfail<C>(&self, config: &CircuitBreakerConfig<C>) -> int {
        if config.sliding_window_type == SlidingWindowType::CountBased { self.failure_count as int } else { rfail(self.call_records@) as int }
    }
    pub open spec fn wslow<C>(&self, config: &CircuitBreakerConfig<C>) -> int {
        if config.sliding_window_type == SlidingWindowType::CountBased { self.slow_call_count as int } else { rslow(self.call_records@) as int }
    }
    pub open spec fn window_empty(&self) -> bool {
        self.total_count == 0 && self.failure_count == 0 && self.success_count == 0 && self.slow_call_count == 0 && self.call_records@.len() == 0
    }

    pub fn state(&self) -> (r: CircuitState)
        ensures r == self.state,   // #state_view [C04]
    //@body Circuit::state

    pub fn metrics<C>(&self, config: &CircuitBreakerConfig<C>, clk: &mut Clock) -> (r: CircuitMetrics)
        ensures
            r.state == self.state,   // #snapshot_state_agrees [C04]
            r.total_calls == self.wtotal(config) && r.failure_count == self.wfail(config) && r.slow_call_count == self.wslow(config),   // #snapshot_counts_agree [C04]
            config.sliding_window_type == SlidingWindowType::CountBased ==> r.success_count == self.success_count,   // #snapshot_success_agrees [C04]
            config.sliding_window_type == SlidingWindowType::TimeBased ==> r.success_count == self.call_records@.len() - rfail(self.call_records@),   // #snapshot_success_agrees_tb [C04]
    //@body Circuit::metrics

    fn transition_to<C>(&mut self, state: CircuitState, config: &CircuitBreakerConfig<C>, clk: &mut Clock, Tracked(gh): Tracked<&mut Gh>)
        requires old(self).wf(*old(gh), config, *old(clk)),
        ensures
            final(self).wf_mirror(),   // #wf_mirror [C03,C04]
            final(self).wf_clock(*final(clk)),   // #wf_clock [C03,C04]
            final(self).wf_window(*final(gh), config, *final(clk)),   // #wf_window [C04]
            old(self).state == state ==> *final(self) == *old(self) && *final(gh) == *old(gh) && *final(clk) == *old(clk),   // #same_state_noop [C04]
            old(self).state != state ==> final(self).state == state && final(self).state_atomic.v == state as u8,   // #sets_state_and_mirror [C03,C04]
            old(self).state != state ==> final(self).window_empty() && *final(gh) == Gh::empty(),   // #clears_window [C04]
            old(self).state != state ==> final(self).success_count == 0 && final(self).failure_count == 0 && final(gh).trials == 0,   // #resets_completed_trial_counters [C09]
            old(self).state != state ==> final(self).last_state_change.t == final(clk).now@,   // #stamps_time [C03,C04]
            final(clk).now@ >= old(clk).now@,   // #clock_monotone
    //@body Circuit::transition_to

    fn cleanup_old_records(&mut self, window_duration: Duration, clk: &mut Clock)
        ensures
            final(self).call_records@ == live(old(self).call_records@, final(clk).now@, window_duration.nanos as nat),   // #evicts_exactly_expired_prefix [C04]
            final(self).state == old(self).state && final(self).state_atomic == old(self).state_atomic
              && final(self).last_state_change == old(self).last_state_change && final(self).failure_count == old(self).failure_count
              && final(self).success_count == old(self).success_count && final(self).total_count == old(self).total_count
              && final(self).slow_call_count == old(self).slow_call_count,   // #frame [C04]
            final(clk).now@ >= old(clk).now@,   // #clock_monotone
            forall|b: nat| #[trigger] bounded(old(self).call_records@, b) ==> bounded(final(self).call_records@, b),   // #keeps_only_old_entries [C04]
    //@body Circuit::cleanup_old_records

    fn time_based_stats(&self) -> (r: (usize, usize, usize, usize))
        ensures
            r.0 == self.call_records@.len() && r.1 == rfail(self.call_records@) && r.3 == rslow(self.call_records@)
              && r.2 == self.call_records@.len() - rfail(self.call_records@),   // #counts_records [C04]
    //@body Circuit::time_based_stats

    fn evaluate_window<C>(&mut self, config: &CircuitBreakerConfig<C>, clk: &mut Clock, Tracked(gh): Tracked<&mut Gh>)
        requires old(self).wf(*old(gh), config, *old(clk)), config.wf(),
        ensures
            final(self).wf_mirror(),   // #wf_mirror [C03,C04]
            final(self).wf_clock(*final(clk)),   // #wf_clock [C03,C04]
            final(self).wf_window(*final(gh), config, *final(clk)),   // #wf_window [C04]
            final(clk).now@ >= old(clk).now@,   // #clock_monotone
            // count-based: decide on the counters; open iff the documented condition, otherwise nothing changes
            config.sliding_window_type == SlidingWindowType::CountBased ==> (
                if should_open(config, old(self).total_count as int, old(self).failure_count as int, old(self).slow_call_count as int) && old(self).state != CircuitState::Open {
                    final(self).state == CircuitState::Open && final(self).window_empty() && *final(gh) == Gh::empty()
                } else {
                    *final(self) == *old(self) && *final(gh) == *old(gh)
                }),   // #count_based_trip_iff [C04]
            // time-based: evict what expired at one clock reading t, then decide on what is left
            config.sliding_window_type == SlidingWindowType::TimeBased ==> exists|t: nat| old(clk).now@ <= t <= final(clk).now@
                && tb_eval(old(self).state, old(self).last_state_change, *final(self), config, #[trigger] live(old(self).call_records@, t, config.sliding_window_duration->0.nanos as nat)),   // #time_based_trip_iff [C04]
            *final(gh) == *old(gh) || *final(gh) == Gh::empty(),
            old(self).state == CircuitState::Open ==> final(self).state == CircuitState::Open && final(self).last_state_change == old(self).last_state_change,   // #open_stays_open [C03]
    //@body Circuit::evaluate_window


    pub fn record_success<C>(&mut self, config: &CircuitBreakerConfig<C>, duration: Duration, clk: &mut Clock, Tracked(gh): Tracked<&mut Gh>)
        requires old(self).wf(*old(gh), config, *old(clk)), config.wf(),
            old(self).total_count < usize::MAX - 1,   // domain restriction: counters never reach usize::MAX
        ensures
            final(self).wf_mirror(),   // #wf_mirror [C03,C04]
            final(self).wf_clock(*final(clk)),   // #wf_clock [C03,C04]
            final(self).wf_window(*final(gh), config, *final(clk)),   // #wf_window [C04]
            final(clk).now@ >= old(clk).now@,   // #clock_monotone
            config.sliding_window_type == SlidingWindowType::CountBased ==>
                cb_record(*old(self), *old(gh), *final(self), *final(gh), config, false, is_slow_spec(config, duration)),   // #count_based_machine [C04]
            config.sliding_window_type == SlidingWindowType::TimeBased ==>
                tb_record(*old(self), *final(self), config, false, is_slow_spec(config, duration), old(clk).now@, final(clk).now@),   // #time_based_machine [C04]
            config.sliding_window_type == SlidingWindowType::CountBased && old(self).total_count <= config.sliding_window_size
                ==> final(self).total_count <= config.sliding_window_size,   // #window_slides [C04]
            old(self).state == CircuitState::Open ==> final(self).state == CircuitState::Open && final(self).last_state_change == old(self).last_state_change,   // #open_stays_open [C03]
            config.sliding_window_type == SlidingWindowType::CountBased && old(self).state == CircuitState::HalfOpen && final(self).state == CircuitState::HalfOpen
                ==> final(self).success_count + final(self).failure_count == old(self).success_count + old(self).failure_count + 1,   // #every_completed_trial_is_counted_while_half_open [C09]
    //@body Circuit::record_success

    pub fn record_failure<C>(&mut self, config: &CircuitBreakerConfig<C>, duration: Duration, clk: &mut Clock, Tracked(gh): Tracked<&mut Gh>)
        requires old(self).wf(*old(gh), config, *old(clk)), config.wf(),
            old(self).total_count < usize::MAX - 1,   // domain restriction: counters never reach usize::MAX
        ensures
            final(self).wf_mirror(),   // #wf_mirror [C03,C04]
            final(self).wf_clock(*final(clk)),   // #wf_clock [C03,C04]
            final(self).wf_window(*final(gh), config, *final(clk)),   // #wf_window [C04]
            final(clk).now@ >= old(clk).now@,   // #clock_monotone
            config.sliding_window_type == SlidingWindowType::CountBased ==>
                cb_record(*old(self), *old(gh), *final(self), *final(gh), config, true, is_slow_spec(config, duration)),   // #count_based_machine [C04]
            config.sliding_window_type == SlidingWindowType::TimeBased ==>
                tb_record(*old(self), *final(self), config, true, is_slow_spec(config, duration), old(clk).now@, final(clk).now@),   // #time_based_machine [C04]
            config.sliding_window_type == SlidingWindowType::CountBased && old(self).total_count <= config.sliding_window_size
                ==> final(self).total_count <= config.sliding_window_size,   // #window_slides [C04]
            old(self).state == CircuitState::Open ==> final(self).state == CircuitState::Open && final(self).last_state_change == old(self).last_state_change,   // #open_stays_open [C03]
            config.sliding_window_type == SlidingWindowType::CountBased && old(self).state == CircuitState::HalfOpen && final(self).state == CircuitState::HalfOpen
                ==> final(self).success_count + final(self).failure_count == old(self).success_count + old(self).failure_count + 1,   // #every_completed_trial_is_counted_while_half_open [C09]
    //@body Circuit::record_failure

    pub fn try_acquire<C>(&mut self, config: &CircuitBreakerConfig<C>, clk: &mut Clock, Tracked(gh): Tracked<&mut Gh>) -> (r: bool)
        requires old(self).wf(*old(gh), config, *old(clk)),
        ensures
            final(self).wf_mirror(),   // #wf_mirror [C03,C04]
            final(self).wf_clock(*final(clk)),   // #wf_clock [C03,C04]
            final(self).wf_window(*final(gh), config, *final(clk)),   // #wf_window [C04]
            old(self).state == CircuitState::Closed ==> r && *final(self) == *old(self) && *final(gh) == *old(gh),   // #closed_admits [C04]
            old(self).state == CircuitState::Open && !r ==> *final(self) == *old(self) && *final(gh) == *old(gh)
                && final(clk).now@ - old(self).last_state_change.t < config.wait_duration_in_open.nanos,   // #open_rejects_until_wait [C03,C04]
            old(self).state == CircuitState::Open && r ==> final(self).state == CircuitState::HalfOpen && final(self).window_empty()
                && final(clk).now@ - old(self).last_state_change.t >= config.wait_duration_in_open.nanos,   // #open_admits_only_after_wait [C03,C04]
            old(self).state == CircuitState::Open && r ==> final(gh).trials == 1 && final(gh).hist.len() == 0,   // #first_trial_counted [C09]
            old(self).state == CircuitState::HalfOpen ==> (r <==> old(self).success_count + old(self).failure_count < config.permitted_calls_in_half_open)
                && *final(self) == *old(self),   // #halfopen_admits_by_completed [C09]
            old(self).state == CircuitState::HalfOpen ==> final(gh).hist == old(gh).hist && final(gh).trials == old(gh).trials + if r { 1nat } else { 0nat },   // #trials_counted [C09]
            old(self).state == CircuitState::HalfOpen && r ==> old(gh).trials < config.permitted_calls_in_half_open,   // #halfopen_trials_bounded [C09]
    //@body Circuit::try_acquire

    pub fn force_open<C>(&mut self, config: &CircuitBreakerConfig<C>, clk: &mut Clock, Tracked(gh): Tracked<&mut Gh>)
        requires old(self).wf(*old(gh), config, *old(clk)),
        ensures
            final(self).wf_mirror(),   // #wf_mirror [C03,C04]
            final(self).wf_clock(*final(clk)),   // #wf_clock [C03,C04]
            final(self).wf_window(*final(gh), config, *final(clk)),   // #wf_window [C04]
            final(self).state == CircuitState::Open,   // #opens [C03,C04]
            old(self).state != CircuitState::Open ==> final(self).window_empty() && final(self).last_state_change.t == final(clk).now@,   // #fresh_open [C03,C04]
    //@body Circuit::force_open

    pub fn force_closed<C>(&mut self, config: &CircuitBreakerConfig<C>, clk: &mut Clock, Tracked(gh): Tracked<&mut Gh>)
        requires old(self).wf(*old(gh), config, *old(clk)),
        ensures
            final(self).wf_mirror(),   // #wf_mirror [C03,C04]
            final(self).wf_clock(*final(clk)),   // #wf_clock [C03,C04]
            final(self).wf_window(*final(gh), config, *final(clk)),   // #wf_window [C04]
            final(self).state == CircuitState::Closed,   // #closes [C04]
    //@body Circuit::force_closed

    pub fn reset<C>(&mut self, config: &CircuitBreakerConfig<C>, clk: &mut Clock, Tracked(gh): Tracked<&mut Gh>)
        requires old(self).wf(*old(gh), config, *old(clk)),
        ensures
            final(self).wf_mirror(),   // #wf_mirror [C03,C04]
            final(self).wf_clock(*final(clk)),   // #wf_clock [C03,C04]
            final(self).wf_window(*final(gh), config, *final(clk)),   // #wf_window [C04]
            final(self).state == CircuitState::Closed,   // #closes [C04]
            final(self).window_empty() && *final(gh) == Gh::empty(),   // #empty_window [C04]
    //@body Circuit::reset
}
fn main() {}
}
