CB = "crates/tower-resilience-circuitbreaker/src/"
CLKGH = "clk, Tracked(gh)"
UNIT = dict(
    serves=["C03", "C04", "C09"],
    files={"circuit": CB + "circuit.rs", "config": CB + "config.rs"},
    default_file="circuit",
    rules=[("R1",), ("R2",), ("R5",)],
    extra_params=["clk", "gh"],
    fns={
        "CircuitState::from_u8": dict(),
        "Circuit::state": dict(),
        "Circuit::metrics": dict(rules=[
            ("R14", "failure_rate", ["total_calls", "failure_count"], "vx_leafm_"),
            ("R14", "slow_call_rate", ["total_calls", "slow_call_count"], "vx_leafm_"),
        ]),
        "Circuit::transition_to": dict(rules=[
            ("inject", r"self\.call_records\.clear\(\)", "after", "proof { gh.do_clear(); }"),
        ]),
        "Circuit::cleanup_old_records": dict(rules=[
            ("loops", {0: """invariant
                live(self.call_records@, now.t as nat, window_duration.nanos as nat) == live(old(self).call_records@, now.t as nat, window_duration.nanos as nat),   // #no_record_still_inside_the_window_is_evicted [C04,C09]
                self.state == old(self).state && self.state_atomic == old(self).state_atomic && self.last_state_change == old(self).last_state_change
                  && self.failure_count == old(self).failure_count && self.success_count == old(self).success_count
                  && self.total_count == old(self).total_count && self.slow_call_count == old(self).slow_call_count,
                now.t == clk.now@,
                forall|b: nat| #[trigger] bounded(old(self).call_records@, b) ==> bounded(self.call_records@, b),
              ensures live(self.call_records@, now.t as nat, window_duration.nanos as nat) =~= self.call_records@,
              decreases self.call_records@.len()"""}),
        ]),
        "Circuit::time_based_stats": dict(rules=[
            ("R18", 1),
            ("sub", "literal-types", r"let mut (total|failures|successes|slow) = 0;", r"let mut \1: usize = 0;", 4),
            ("loops", {0: """invariant
                vx_i <= self.call_records@.len(),
                total == vx_i, failures == rfail(self.call_records@.subrange(0, vx_i as int)),   // #every_record_counted_once_failures_by_flag [C04]
                slow == rslow(self.call_records@.subrange(0, vx_i as int)), successes + failures == total,   // #every_non_failure_counts_as_a_success_slow_or_not [C04,C09]
                failures <= vx_i, slow <= vx_i,
              decreases self.call_records@.len() - vx_i"""}),
            ("inject", r"vx_i \+= 1;", "after", "proof { assert(self.call_records@.subrange(0, vx_i as int).drop_last() =~= self.call_records@.subrange(0, vx_i as int - 1)); }"),
            ("inject", r"\(total, failures, successes, slow\)", "before", "proof { assert(self.call_records@.subrange(0, vx_i as int) =~= self.call_records@); }"),
        ]),
        "Circuit::evaluate_window": dict(rules=[
            ("addarg", ["transition_to"], CLKGH),
            ("addarg", ["cleanup_old_records"], "clk"),
            ("R14", "failure_rate", ["failure_count", "total_count"]),
            ("R14", "slow_call_rate", ["slow_call_count", "total_count"]),
            ("sub", "R14-cmp", r"(failure_rate|slow_call_rate)\s*>=\s*(config\.\w+)", r"vx_f64_ge(\1, \2)", 2),
        ]),
        "Circuit::record_success": dict(rules=[
            ("R10", 1),
            ("inject", None, "start", "broadcast use lemma_push_drop_last;"),
            ("addarg", ["transition_to", "evaluate_window"], CLKGH),
            ("addarg", ["cleanup_old_records"], "clk"),
            ("inject", r"self\.total_count \+= 1;", "after", "proof { gh.do_push(Outcome { fail: false, slow: is_slow }); lemma_push(old(gh).hist, Outcome { fail: false, slow: is_slow }); }"),
        ]),
        "Circuit::record_failure": dict(rules=[
            ("R10", 1),
            ("inject", None, "start", "broadcast use lemma_push_drop_last;"),
            ("addarg", ["transition_to", "evaluate_window"], CLKGH),
            ("addarg", ["cleanup_old_records"], "clk"),
            ("inject", r"self\.total_count \+= 1;", "after", "proof { gh.do_push(Outcome { fail: true, slow: is_slow }); lemma_push(old(gh).hist, Outcome { fail: true, slow: is_slow }); }"),
        ]),
        "Circuit::try_acquire": dict(rules=[
            ("addarg", ["transition_to"], CLKGH),
            # ghost trial counter as a function of the outcome, independent of the shape of the body: an admission while the breaker
            # was not closed (open with the wait elapsed, or half-open) is one trial call
            ("inject", None, "result", "proof { if vx_result && old(self).state != CircuitState::Closed { gh.do_admit(); } }"),
        ]),
        "Circuit::force_open": dict(rules=[("addarg", ["transition_to"], CLKGH)]),
        "Circuit::force_closed": dict(rules=[("addarg", ["transition_to"], CLKGH)]),
        "Circuit::reset": dict(rules=[("addarg", ["transition_to"], CLKGH),
            # ghost history follows the executable window: cleared exactly when the code has emptied it
            ("inject", None, "end", "proof { if self.total_count == 0 && self.failure_count == 0 && self.slow_call_count == 0 { gh.do_clear(); } }"),
        ]),
    },
    types=[
        ("enum", "CircuitState", "circuit"),
        ("enum", "SlidingWindowType", "config"),
        ("struct", "CircuitBreakerConfig", "config", {"drop": ["event_listeners", "name"]}),
        ("struct", "CallRecord", "circuit"),
        ("struct", "Circuit", "circuit"),
        ("struct", "CircuitMetrics", "circuit"),
    ],
    frame=[
        dict(name="state_atomic_written_only_in_transition_to", tags=["C03", "C04"],
             pattern=r"state_atomic\s*\.\s*(store|swap|fetch_\w+|compare_exchange\w*)",
             glob=CB + "**/*.rs", only_in=["circuit:Circuit::transition_to"],
             # a write of the lock-free mirror anywhere else is not tied to a state change made under the circuit lock: the views can disagree
             violation=True),
    ],
)
