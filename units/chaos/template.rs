#![feature(allocator_api)]
#![allow(unused)]
use vstd::prelude::*;
use vstd::std_specs::cmp::*;
use core::cmp::Ordering as CmpOrdering;
use std::sync::Arc;
verus! {
//@include time.rs
//@include trace.rs
pub open spec fn call_gate<Req, Res, E>(tr: Trace<Req, Res, E>) -> bool { tr.created }
pub open spec fn await_gate<Req, Res, E>(tr: Trace<Req, Res, E>) -> bool { true }
//@include inner.rs
//@include tokio_sleep.rs
//@include events.rs

// ---- unit prelude (ASSUMED) ----
// f64 is uninterpreted in Verus: comparisons become named shims (R14) whose IEEE facts below are axioms here and
// loop-free Kani obligations in the leaf crate `chaosf`.
pub uninterp spec fn positive(a: f64) -> bool;       // a > 0.0
pub uninterp spec fn f64_ge(a: f64, b: f64) -> bool;
pub uninterp spec fn f64_lt(a: f64, b: f64) -> bool;
pub uninterp spec fn unit_draw(x: f64) -> bool;      // 0.0 <= x < 1.0  (what Rng::random::<f64>() returns)
pub uninterp spec fn rate01(x: f64) -> bool;         // 0.0 <= x <= 1.0 (a configured rate)
pub uninterp spec fn is_one(x: f64) -> bool;         // x == 1.0
#[verifier::external_body] pub fn vx_f64_positive(a: f64) -> (r: bool) ensures r == positive(a) { a > 0.0 }
#[verifier::external_body] pub fn vx_f64_ge(a: f64, b: f64) -> (r: bool) ensures r == f64_ge(a, b) { a >= b }
#[verifier::external_body] pub fn vx_f64_lt(a: f64, b: f64) -> (r: bool) ensures r == f64_lt(a, b) { a < b }
#[verifier::external_body] pub fn vx_one() -> (r: f64) ensures is_one(r) { 1.0 }
/// IEEE facts used (Kani leaves in crate `chaosf`): 1.0 < rate is false for rate <= 1; a draw in [0,1) is below 1.0; 1.0 > 0.0
pub broadcast proof fn axiom_one_not_below_rate(x: f64, rate: f64)
    requires is_one(x), rate01(rate),
    ensures !(#[trigger] f64_lt(x, rate)),
{ admit(); }
pub broadcast proof fn axiom_draw_below_one(x: f64, rate: f64)
    requires unit_draw(x), is_one(rate),
    ensures #[trigger] f64_lt(x, rate),
{ admit(); }
pub broadcast proof fn axiom_one_positive(rate: f64)
    requires is_one(rate),
    ensures #[trigger] positive(rate),
{ admit(); }
pub broadcast group chaos_float_axioms { axiom_one_not_below_rate, axiom_draw_below_one, axiom_one_positive }
/// rand::rngs::StdRng seeded by ChaosConfig::create_rng: a deterministic stream of draws
pub struct StdRng { pub stream: Ghost<Seq<f64>>, pub pos: Ghost<nat> }
impl StdRng {
    #[verifier::external_body]
    pub fn vx_random<Req, Res, E>(&mut self, Tracked(tr): Tracked<&mut Trace<Req, Res, E>>) -> (r: f64)
        ensures unit_draw(r), final(self).stream == old(self).stream, final(self).pos@ == old(self).pos@ + 1, *final(tr) == (Trace { draws: old(tr).draws + 1, ..*old(tr) }),
    { unimplemented!() }
    #[verifier::external_body]
    pub fn vx_random_range<Req, Res, E>(&mut self, lo: u64, hi: u64, Tracked(tr): Tracked<&mut Trace<Req, Res, E>>) -> (r: u64)
        requires lo <= hi,   // rand panics on an empty range
        ensures lo <= r <= hi, final(self).stream == old(self).stream, final(self).pos@ == old(self).pos@ + 1, *final(tr) == (Trace { draws: old(tr).draws + 1, ..*old(tr) }),
    { unimplemented!() }
}
impl StdRng { #[verifier::external_body] pub fn clone(&self) -> (r: Self) ensures r == *self { unimplemented!() } }
pub struct Mutex<T> { pub id: Ghost<int>, pub p: core::marker::PhantomData<T> }
impl<T> Mutex<T> {
    /// a new mutex is a new object: distinct from every existing one
    #[verifier::external_body] pub fn new(v: T) -> (r: Self) { unimplemented!() }
}
#[verifier::external_body]
pub fn vx_lock<'a>(m: &'a Arc<Mutex<StdRng>>) -> (r: &'a mut StdRng) { unimplemented!() }
/// E: ErrorInjector<Req, Err> by the contract of its two implementations (NoErrorInjection: rate 0.0, never injects;
/// CustomErrorFn: injects f(req) iff roll < rate)
pub struct Injector<Req, E> { pub rate: f64, pub custom: bool, pub p: core::marker::PhantomData<(Req, E)> }
pub uninterp spec fn injected_error<Req, E>(i: Injector<Req, E>, req: Req) -> E;
impl<Req, E> Injector<Req, E> {
    #[verifier::external_body]
    pub fn error_rate(&self) -> (r: f64) ensures r == self.rate { unimplemented!() }
    #[verifier::external_body]
    pub fn inject_error(&self, req: &Req, roll: f64) -> (r: Option<E>)
        ensures r is Some <==> (self.custom && f64_lt(roll, self.rate)), r is Some ==> r == Some(injected_error(*self, *req)),
    { unimplemented!() }
}

// ---- types of /repo (shape-checked) ----
pub struct ChaosConfig<Req, E> { pub name: Name, pub error_injector: Injector<Req, E>, pub latency_rate: f64, pub min_latency: Duration, pub max_latency: Duration, pub seed: Option<u64>, pub event_listeners: EventListeners }
pub struct Chaos<Req, Res, E> { pub inner: Inner<Req, Res, E>, pub config: Arc<ChaosConfig<Req, E>>, pub rng: Arc<Mutex<StdRng>> }

impl<Req, E> ChaosConfig<Req, E> {
    /// create_rng: a generator freshly seeded from config.seed (restarts the decision stream)
    #[verifier::external_body] pub fn create_rng(&self) -> (r: StdRng) ensures r.pos@ == 0 { unimplemented!() }
}
impl<Req, Res, E> Chaos<Req, Res, E> {
    pub fn clone(&self) -> (r: Self)
        ensures r.rng == self.rng && r.config == self.config,   // #clones_share_the_seeded_generator [C19]
    //@derive_clone Chaos

    pub fn poll_ready(&mut self, cx: &mut Context) -> (r: Poll<Result<(), E>>)
        ensures r matches Poll::Ready(Ok(_)) ==> final(self).inner.ready@,   // #ready_only_when_inner_ready [C20]
            final(self).rng == old(self).rng && final(self).config == old(self).config,   // #shared_state_handles_and_configuration_are_left_untouched [C19]
    //@body Chaos::poll_ready@Service

    pub fn call(&mut self, req: Req, clk: &mut Clock, Tracked(tr): Tracked<&mut Trace<Req, Res, E>>) -> (result: Result<Res, E>)
        requires old(tr).fresh(), old(self).inner.ready@, rate01(old(self).config.error_injector.rate), rate01(old(self).config.latency_rate),
        ensures
            final(tr).calls <= 1,   // #at_most_one_inner_call [C19,C20]
            final(tr).calls == 0 ==> final(tr).slept == 0 && old(self).config.error_injector.custom && result == Err::<Res, E>(injected_error(old(self).config.error_injector, req)),   // #an_injected_error_skips_the_inner_call_and_the_latency [C19]
            final(tr).calls == 1 ==> final(tr).done == 1 && final(tr).last_req == Some(req) && final(tr).last_done == Some(result),   // #otherwise_the_request_is_forwarded_once_and_its_outcome_returned_unchanged [C19,C20]
            final(tr).slept > 0 ==> lat_ok(final(tr).slept, old(self).config.min_latency.nanos, old(self).config.max_latency.nanos),   // #injected_latency_lies_within_the_configured_millisecond_range [C19]
            (!positive(old(self).config.error_injector.rate) && !positive(old(self).config.latency_rate))
                ==> final(tr).draws == 0 && final(tr).slept == 0 && final(tr).calls == 1,   // #both_rates_zero_is_transparent_and_consumes_no_randomness [C19,C20]
            (old(self).config.error_injector.custom && is_one(old(self).config.error_injector.rate)) ==> final(tr).calls == 0,   // #error_rate_one_fails_every_call [C19]
            final(tr).draws <= 3,   // #draws_a_bounded_number_of_values_in_a_fixed_order [C19]
            final(tr).draws_at_future == 0 || final(tr).draws_at_future == final(tr).draws,   // #all_draws_of_a_request_are_taken_together_on_one_side_of_the_futures_creation [C19]
            final(self).rng == old(self).rng && final(self).config == old(self).config,   // #shared_state_handles_and_configuration_are_left_untouched [C19]
    //@body Chaos::call@Service
}
/// the injected delay is a whole number k of milliseconds with min_ms <= k <= max_ms (k == min_ms when max_ms <= min_ms),
/// the bounds being the configured latencies truncated to milliseconds
pub open spec fn lat_ok(slept: nat, min_ns: u128, max_ns: u128) -> bool {
    let k = slept / 1_000_000;
    let lo = (min_ns / 1_000_000) as u64;
    let hi = (max_ns / 1_000_000) as u64;
    slept == k * 1_000_000 && (if hi > lo { lo <= k <= hi } else { k == lo })
}
fn main() {}
}
