CH = "crates/tower-resilience-chaos/src/"
TR = "Tracked(tr)"
UNIT = dict(
    serves=["C19", "C20"],
    files={"service": CH + "service.rs", "config": CH + "config.rs"},
    default_file="service",
    verus_flags=["--no-erasure-check"],
    # (a hand-written `impl Clone for Chaos` is extracted with these unit-wide rules only)
    rules=[("R1",), ("R2",), ("sub", "R8-lock", r"\bself\s*\.\s*rng\s*\.\s*lock\(\)\s*\.\s*unwrap\(\)", "vx_lock(&self.rng)", -1)],
    extra_params=["clk", "tr"],
    fns={
        "Chaos::poll_ready@Service": dict(),
        "Chaos::call@Service": dict(rules=[
            ("R4",), ("R3",),
            ("sub", "ghost-inject", r"proof \{ tr\.future_created\(\); \}", "proof { tr.draws_at_future = tr.draws; tr.future_created(); }", 1),
            ("inject", None, "start", "broadcast use chaos_float_axioms;"),
            ("sub", "R8-lock", r"\brng\.lock\(\)\.unwrap\(\)", "vx_lock(&rng)", -1),
            # f64 comparisons and literals go through the float shims, wherever they stand
            ("sub", "R14-float", r"(?<![\w.])1\.0(?![\w.])", "vx_one()", -1),
            ("sub", "R14-float", r"config\s*\.\s*error_injector\s*\.\s*error_rate\(\)\s*>\s*0\.0", "vx_f64_positive(config.error_injector.error_rate())", -1),
            ("sub", "R14-float", r"config\s*\.\s*latency_rate\s*>\s*0\.0", "vx_f64_positive(config.latency_rate)", -1),
            ("sub", "R14-float", r"\b(\w+)\s*>=\s*config\s*\.\s*error_injector\s*\.\s*error_rate\(\)", r"vx_f64_ge(\1, config.error_injector.error_rate())", -1),
            ("sub", "R14-float", r"\b(\w+)\s*<\s*config\s*\.\s*latency_rate\b", r"vx_f64_lt(\1, config.latency_rate)", -1),
            ("sub", "R14-rng", r"\.random\(\)", ".vx_random(Tracked(tr))", 2),
            ("sub", "R14-rng", r"(\w+)\.random_range\(min_ms\.\.=max_ms\)", r"\1.vx_random_range(min_ms, max_ms, Tracked(tr))", 1),
            ("sub", "R9-paths", r"tokio::time::sleep", "sleep", 1),
            ("addarg", ["call"], TR, 1),
        ]),
    },
    derive_clone={"Chaos": "service"},
    types=[
        ("struct", "ChaosConfig", "config"),
        ("struct", "Chaos", "service"),
    ],
)
