CH = "crates/tower-resilience-chaos/src/"
TR = "Tracked(tr)"
UNIT = dict(
    serves=["C19", "C20"],
    files={"service": CH + "service.rs", "config": CH + "config.rs"},
    default_file="service",
    verus_flags=["--no-erasure-check"],
    rules=[("R1",), ("R2",)],
    extra_params=["clk", "tr"],
    fns={
        "Chaos::poll_ready@Service": dict(),
        "Chaos::call@Service": dict(rules=[
            ("R4",), ("R3",),
            ("sub", "ghost-inject", r"proof \{ tr\.future_created\(\); \}", "proof { tr.draws_at_future = tr.draws; tr.future_created(); }", 1),
            ("inject", None, "start", "broadcast use chaos_float_axioms;"),
            ("sub", "R8-lock", r"\brng\.lock\(\)\.unwrap\(\)", "vx_lock(&rng)", -1),
            ("sub", "R14-float", r"let mut error_roll: f64 = 1\.0;", "let mut error_roll: f64 = vx_one();", 1),
            ("sub", "R14-float", r"config\.error_injector\.error_rate\(\) > 0\.0", "vx_f64_positive(config.error_injector.error_rate())", 1),
            ("sub", "R14-float", r"config\.latency_rate > 0\.0", "vx_f64_positive(config.latency_rate)", 1),
            ("sub", "R14-float", r"error_roll >= config\.error_injector\.error_rate\(\)", "vx_f64_ge(error_roll, config.error_injector.error_rate())", 1),
            ("sub", "R14-float", r"latency_roll < config\.latency_rate", "vx_f64_lt(latency_roll, config.latency_rate)", 1),
            ("sub", "R14-rng", r"\.random\(\)", ".vx_random(Tracked(tr))", 2),
            ("sub", "R14-rng", r"(\w+)\.random_range\(min_ms\.\.=max_ms\)", r"\1.vx_random_range(min_ms, max_ms, Tracked(tr))", 1),
            ("sub", "R9-paths", r"tokio::time::sleep", "sleep", 1),
            ("addarg", ["call"], TR, 1),
        ]),
    },
    derive_clone={"Chaos": "service"},
    types=[
        ("struct", "ChaosConfig", "config"),
        ("struct", "Chaos", "service"),
    ],
)
