#![feature(allocator_api)]
#![allow(unused)]
use vstd::prelude::*;
use vstd::std_specs::cmp::*;
use core::cmp::Ordering as CmpOrdering;
use std::sync::Arc;
verus! {
//@include time.rs
//@include trace.rs
/// C03: the inner call is made only inside the returned future and only after the breaker admitted this call
pub open spec fn call_gate<Req, Res, E>(tr: Trace<Req, Res, E>) -> bool { tr.admitted && tr.created }
pub open spec fn await_gate<Req, Res, E>(tr: Trace<Req, Res, E>) -> bool { tr.admitted }
//@include inner.rs GATE_TAGS=[C03]

// ---- unit prelude: everything here is ASSUMED ----
pub enum Ordering { Release, Acquire, Relaxed, SeqCst, AcqRel }
/// Arc<AtomicU8> shared between the service handles and the Circuit (written only by Circuit::transition_to)
pub struct AtomicU8 { pub id: Ghost<int>, pub init: u8 }
pub uninterp spec fn mirror_value(id: int) -> u8;
impl AtomicU8 {
    #[verifier::external_body]
    pub fn new(v: u8) -> (r: AtomicU8) ensures r.init == v { unimplemented!() }
    #[verifier::external_body]
    pub fn load(&self, o: Ordering) -> (r: u8) ensures r == mirror_value(self.id@) { unimplemented!() }
}
/// the kernel, by the contract proved in unit `circuit` (here only what the call bodies rely on)
pub struct Circuit { pub mirror_id: Ghost<int> }
pub struct CircuitMetrics { pub p: u8 }
pub spec const K_FORCE_OPEN: int = 1; pub spec const K_FORCE_CLOSED: int = 2; pub spec const K_RESET: int = 3; pub spec const K_METRICS: int = 4; pub spec const K_STATE: int = 5;
impl Circuit {
    #[verifier::external_body]
    pub fn new_with_atomic(state_atomic: Arc<AtomicU8>) -> (r: Circuit) ensures r.mirror_id@ == state_atomic.id@ { unimplemented!() }
    #[verifier::external_body]
    pub fn try_acquire<C, Req, Res, E>(&mut self, config: &CircuitBreakerConfig<C>, Tracked(tr): Tracked<&mut Trace<Req, Res, E>>) -> (r: bool)
        ensures *final(tr) == (Trace { admitted: r, notes: old(tr).notes.push(Note::Gate(r)), ev: old(tr).ev.push(Ev::Gate(r)), ..*old(tr) }), final(self).mirror_id == old(self).mirror_id,
    { unimplemented!() }
    #[verifier::external_body]
    pub fn record_success<C, Req, Res, E>(&mut self, config: &CircuitBreakerConfig<C>, duration: Duration, Tracked(tr): Tracked<&mut Trace<Req, Res, E>>)
        ensures *final(tr) == (Trace { notes: old(tr).notes.push(Note::Record { failure: false, nanos: duration.nanos as nat }), ..*old(tr) }), final(self).mirror_id == old(self).mirror_id,
    { unimplemented!() }
    #[verifier::external_body]
    pub fn record_failure<C, Req, Res, E>(&mut self, config: &CircuitBreakerConfig<C>, duration: Duration, Tracked(tr): Tracked<&mut Trace<Req, Res, E>>)
        ensures *final(tr) == (Trace { notes: old(tr).notes.push(Note::Record { failure: true, nanos: duration.nanos as nat }), ..*old(tr) }), final(self).mirror_id == old(self).mirror_id,
    { unimplemented!() }
    #[verifier::external_body]
    pub fn force_open<C, Req, Res, E>(&mut self, config: &CircuitBreakerConfig<C>, Tracked(tr): Tracked<&mut Trace<Req, Res, E>>)
        ensures *final(tr) == (Trace { notes: old(tr).notes.push(Note::Kernel(K_FORCE_OPEN)), ..*old(tr) }),
    { unimplemented!() }
    #[verifier::external_body]
    pub fn force_closed<C, Req, Res, E>(&mut self, config: &CircuitBreakerConfig<C>, Tracked(tr): Tracked<&mut Trace<Req, Res, E>>)
        ensures *final(tr) == (Trace { notes: old(tr).notes.push(Note::Kernel(K_FORCE_CLOSED)), ..*old(tr) }),
    { unimplemented!() }
    #[verifier::external_body]
    pub fn reset<C, Req, Res, E>(&mut self, config: &CircuitBreakerConfig<C>, Tracked(tr): Tracked<&mut Trace<Req, Res, E>>)
        ensures *final(tr) == (Trace { notes: old(tr).notes.push(Note::Kernel(K_RESET)), ..*old(tr) }),
    { unimplemented!() }
    #[verifier::external_body]
    pub fn metrics<C, Req, Res, E>(&self, config: &CircuitBreakerConfig<C>, Tracked(tr): Tracked<&mut Trace<Req, Res, E>>) -> (r: CircuitMetrics)
        ensures *final(tr) == (Trace { notes: old(tr).notes.push(Note::Kernel(K_METRICS)), ..*old(tr) }),
    { unimplemented!() }
    #[verifier::external_body]
    pub fn state<Req, Res, E>(&self, Tracked(tr): Tracked<&mut Trace<Req, Res, E>>) -> (r: CircuitState)
        ensures *final(tr) == (Trace { notes: old(tr).notes.push(Note::Kernel(K_STATE)), ..*old(tr) }),
    { unimplemented!() }
}
/// tokio::sync::Mutex: R8 — `m.lock().await` becomes vx_lock(&m); a critical section is atomic, any
/// contracted kernel operation of another task may have run in between (the guard gives no more than the type)
pub struct Mutex<T> { pub id: Ghost<int>, pub mirror_id: Ghost<int>, pub p: core::marker::PhantomData<T> }
pub struct TryLockError {}
impl Mutex<Circuit> {
    #[verifier::external_body]
    pub fn new(c: Circuit) -> (r: Mutex<Circuit>) ensures r.mirror_id == c.mirror_id { unimplemented!() }
    /// try_lock may fail whenever another task holds the lock
    #[verifier::external_body]
    pub fn try_lock(&self) -> (r: Result<&mut Circuit, TryLockError>) ensures r matches Ok(c) ==> c.mirror_id == self.mirror_id { unimplemented!() }
}
#[verifier::external_body]
pub fn vx_lock<'a, Req, Res, E>(m: &'a Arc<Mutex<Circuit>>, Tracked(tr): Tracked<&mut Trace<Req, Res, E>>) -> (r: &'a mut Circuit)
    requires old(tr).unguarded == 0,
    ensures *final(tr) == (Trace { notes: old(tr).notes.push(Note::Lock), ev: old(tr).ev.push(Ev::Lock), ..*old(tr) }), r.mirror_id == m.mirror_id,
{ unimplemented!() }
/// clock readings of the call body are events of the trace, so that "the measured interval is exactly the inner call" can be stated
#[verifier::external_body]
pub fn vx_now<Req, Res, E>(clk: &mut Clock, Tracked(tr): Tracked<&mut Trace<Req, Res, E>>) -> (r: Instant)
    ensures r.t >= old(clk).now@, final(clk).now@ == r.t, *final(tr) == (Trace { ev: old(tr).ev.push(Ev::ClockRead(r.t as nat)), ..*old(tr) }),
{ unimplemented!() }
#[verifier::external_body]
pub fn vx_elapsed<Req, Res, E>(clk: &mut Clock, since: Instant, Tracked(tr): Tracked<&mut Trace<Req, Res, E>>) -> (r: Duration)
    ensures final(clk).now@ >= old(clk).now@, r.nanos == (if final(clk).now@ >= since.t { final(clk).now@ - since.t } else { 0 }),
        *final(tr) == (Trace { ev: old(tr).ev.push(Ev::ClockRead(final(clk).now@)), ..*old(tr) }),
{ unimplemented!() }
/// the recorded duration is the clock difference around exactly the inner call: the events right before and right after the
/// InnerCall/InnerDone pair are the two clock readings, and the recorded nanos are their difference
pub open spec fn measures_inner_call<Req, Res, E>(tr: Trace<Req, Res, E>) -> bool {
    let k = tr.call_at as int;
    &&& k >= 1 && k + 2 < tr.ev.len()
    &&& tr.ev[k - 1] is ClockRead && tr.ev[k] is InnerCall && tr.ev[k + 1] is InnerDone && tr.ev[k + 2] is ClockRead
    &&& tr.ev[k + 2]->ClockRead_0 >= tr.ev[k - 1]->ClockRead_0
    &&& (tr.notes.last() matches Note::Record { nanos, .. } && nanos == tr.ev[k + 2]->ClockRead_0 - tr.ev[k - 1]->ClockRead_0)
}
/// failure classifier: a pure function of the result (its closure contract)
pub struct Classifier<Res, E> { pub p: core::marker::PhantomData<(Res, E)> }
pub uninterp spec fn classify_spec<Res, E>(c: Classifier<Res, E>, r: Result<Res, E>) -> bool;
impl<Res, E> Classifier<Res, E> {
    #[verifier::external_body]
    pub fn classify(&self, result: &Result<Res, E>) -> (b: bool) ensures b == classify_spec(*self, *result) { unimplemented!() }
}
/// the configured fallback closure Arc<dyn Fn(Req) -> BoxFuture<Result<Res,Err>>>
pub struct SharedFallback<Req, Res, E> { pub id: Ghost<int>, pub p: core::marker::PhantomData<(Req, Res, E)> }
pub struct FbFut<Req, Res, E> { pub req: Ghost<Req>, pub p: core::marker::PhantomData<(Req, Res, E)> }
impl<Req, Res, E> SharedFallback<Req, Res, E> {
    #[verifier::external_body]
    pub fn vx_call(&self, req: Req) -> (f: FbFut<Req, Res, E>) ensures f.req@ == req { unimplemented!() }
    #[verifier::external_body]
    pub fn vx_new<F>(f: F) -> (r: Self) { unimplemented!() }
}
impl<Req, Res, E> FbFut<Req, Res, E> {
    #[verifier::external_body]
    pub fn vx_await(self, Tracked(tr): Tracked<&mut Trace<Req, Res, E>>) -> (r: Result<Res, E>)
        requires old(tr).unguarded == 0,
        ensures *final(tr) == (Trace { fb_calls: old(tr).fb_calls + 1, fb_req: Some(self.req@), fb_done: Some(r), ..*old(tr) }),
    { unimplemented!() }
}

// ---- types of /repo (shape-checked) ----
#[derive(Debug, Clone, Copy, PartialEq, Eq, Structural)]
#[repr(u8)]
pub enum CircuitState { Closed = 0, Open = 1, HalfOpen = 2 }
pub enum CircuitBreakerError<E> { OpenCircuit, Inner(E) }
pub struct CircuitBreakerConfig<C> { pub failure_classifier: C }
pub struct CircuitBreaker<Req, Res, E> {
    pub inner: Inner<Req, Res, E>,
    pub circuit: Arc<Mutex<Circuit>>,
    pub state_atomic: Arc<AtomicU8>,
    pub config: Arc<CircuitBreakerConfig<Classifier<Res, E>>>,
}
pub struct CircuitBreakerWithFallback<Req, Res, E> {
    pub inner: Inner<Req, Res, E>,
    pub circuit: Arc<Mutex<Circuit>>,
    pub state_atomic: Arc<AtomicU8>,
    pub config: Arc<CircuitBreakerConfig<Classifier<Res, E>>>,
    pub fallback: Arc<SharedFallback<Req, Res, E>>,
    pub _phantom: core::marker::PhantomData<(Req, Res, E)>,
}
pub open spec fn from_u8_spec(v: u8) -> CircuitState { if v == 1 { CircuitState::Open } else if v == 2 { CircuitState::HalfOpen } else { CircuitState::Closed } }
impl CircuitState {
    pub fn from_u8(value: u8) -> (r: Self)
        ensures r == from_u8_spec(value),   // #from_u8 [C04]
    //@body CircuitState::from_u8 file=circuit
}
pub open spec fn count_records(n: Seq<Note>) -> nat decreases n.len() {
    if n.len() == 0 { 0 } else { count_records(n.drop_last()) + if n.last() is Record { 1nat } else { 0nat } }
}
pub open spec fn count_gates(n: Seq<Note>) -> nat decreases n.len() {
    if n.len() == 0 { 0 } else { count_gates(n.drop_last()) + if n.last() is Gate { 1nat } else { 0nat } }
}
pub open spec fn count_kernel(n: Seq<Note>, op: int) -> nat decreases n.len() {
    if n.len() == 0 { 0 } else { count_kernel(n.drop_last(), op) + if n.last() == Note::Kernel(op) { 1nat } else { 0nat } }
}
pub open spec fn total_kernel(n: Seq<Note>) -> nat decreases n.len() {
    if n.len() == 0 { 0 } else { total_kernel(n.drop_last()) + if n.last() is Kernel || n.last() is Gate || n.last() is Record { 1nat } else { 0nat } }
}
pub broadcast proof fn lemma_records_push(n: Seq<Note>, x: Note)
    ensures #[trigger] count_records(n.push(x)) == count_records(n) + if x is Record { 1nat } else { 0nat },
{ assert(n.push(x).drop_last() =~= n); }
pub broadcast proof fn lemma_gates_push(n: Seq<Note>, x: Note)
    ensures #[trigger] count_gates(n.push(x)) == count_gates(n) + if x is Gate { 1nat } else { 0nat },
{ assert(n.push(x).drop_last() =~= n); }
pub broadcast proof fn lemma_total_push(n: Seq<Note>, x: Note)
    ensures #[trigger] total_kernel(n.push(x)) == total_kernel(n) + if x is Kernel || x is Gate || x is Record { 1nat } else { 0nat },
{ assert(n.push(x).drop_last() =~= n); }
pub broadcast proof fn lemma_kernel_push(n: Seq<Note>, x: Note, op: int)
    ensures #[trigger] count_kernel(n.push(x), op) == count_kernel(n, op) + if x == Note::Kernel(op) { 1nat } else { 0nat },
{ assert(n.push(x).drop_last() =~= n); }
pub broadcast group lemma_counts_push { lemma_records_push, lemma_gates_push, lemma_total_push, lemma_kernel_push }

impl<Req, Res, E> CircuitBreaker<Req, Res, E> {
    /// every handle's lock-free view is the atomic the shared Circuit writes
    pub open spec fn wf(&self) -> bool { self.circuit.mirror_id == self.state_atomic.id }

    pub fn new(inner: Inner<Req, Res, E>, config: Arc<CircuitBreakerConfig<Classifier<Res, E>>>) -> (r: Self)
        ensures
            r.wf(),   // #lockfree_view_is_the_circuits_mirror [C03,C04]
            r.state_atomic.init == 0,   // #starts_closed [C04]
            r.config == config && r.inner == inner,   // #keeps_config_and_inner [C20]
    //@body CircuitBreaker::new file=lib

    pub fn with_fallback(self, fallback: SharedFallback<Req, Res, E>) -> (r: CircuitBreakerWithFallback<Req, Res, E>)
        ensures
            r.circuit == self.circuit && r.state_atomic == self.state_atomic && r.config == self.config,   // #fallback_handle_shares_the_circuit [C03,C04]
            r.inner == self.inner,   // #keeps_inner [C20]
            *r.fallback == fallback,   // #keeps_fallback [C03]
    //@body CircuitBreaker::with_fallback file=lib

    pub fn clone(&self) -> (r: Self)
        ensures
            r.circuit == self.circuit && r.state_atomic == self.state_atomic && r.config == self.config,   // #clones_share_the_circuit [C03,C04,C09]
    //@body CircuitBreaker::clone@Clone file=lib

    pub fn state_sync(&self) -> (r: CircuitState)
        ensures r == from_u8_spec(mirror_value(self.state_atomic.id@)),   // #lockfree_view_decodes_the_mirror [C03,C04]
    //@body CircuitBreaker::state_sync file=lib

    pub fn is_open(&self) -> (r: bool)
        ensures r == (from_u8_spec(mirror_value(self.state_atomic.id@)) == CircuitState::Open),   // #is_open_iff_mirror_open [C03,C04]
    //@body CircuitBreaker::is_open file=lib

    pub fn force_open(&self, Tracked(tr): Tracked<&mut Trace<Req, Res, E>>)
        requires old(tr).fresh(),
        ensures count_kernel(final(tr).notes, K_FORCE_OPEN) == 1 && total_kernel(final(tr).notes) == 1,   // #delegates_once_to_kernel [C03,C04]
    //@body CircuitBreaker::force_open file=lib

    pub fn force_closed(&self, Tracked(tr): Tracked<&mut Trace<Req, Res, E>>)
        requires old(tr).fresh(),
        ensures count_kernel(final(tr).notes, K_FORCE_CLOSED) == 1 && total_kernel(final(tr).notes) == 1,   // #delegates_once_to_kernel [C04]
    //@body CircuitBreaker::force_closed file=lib

    pub fn reset(&self, Tracked(tr): Tracked<&mut Trace<Req, Res, E>>)
        requires old(tr).fresh(),
        ensures count_kernel(final(tr).notes, K_RESET) == 1 && total_kernel(final(tr).notes) == 1,   // #delegates_once_to_kernel [C04]
    //@body CircuitBreaker::reset file=lib

    pub fn state(&self, Tracked(tr): Tracked<&mut Trace<Req, Res, E>>) -> (r: CircuitState)
        requires old(tr).fresh(),
        ensures count_kernel(final(tr).notes, K_STATE) == 1 && total_kernel(final(tr).notes) == 1,   // #delegates_once_to_kernel [C04]
    //@body CircuitBreaker::state file=lib

    pub fn metrics(&self, Tracked(tr): Tracked<&mut Trace<Req, Res, E>>) -> (r: CircuitMetrics)
        requires old(tr).fresh(),
        ensures count_kernel(final(tr).notes, K_METRICS) == 1 && total_kernel(final(tr).notes) == 1,   // #delegates_once_to_kernel [C04]
    //@body CircuitBreaker::metrics file=lib

    pub fn poll_ready(&mut self, cx: &mut Context) -> (r: Poll<Result<(), CircuitBreakerError<E>>>)
        ensures
            r matches Poll::Ready(Ok(_)) ==> final(self).inner.ready@,   // #ready_only_when_inner_ready [C20]
            r matches Poll::Ready(Err(e)) ==> e is Inner,   // #readiness_errors_surface_as_inner [C20]
            final(self).circuit == old(self).circuit && final(self).state_atomic == old(self).state_atomic && final(self).config == old(self).config,   // #shared_state_handles_and_configuration_are_left_untouched [C03,C04]
    //@body CircuitBreaker::poll_ready@Service file=lib

    pub fn call(&mut self, req: Req, clk: &mut Clock, Tracked(tr): Tracked<&mut Trace<Req, Res, E>>) -> (result: Result<Res, CircuitBreakerError<E>>)
        requires old(tr).fresh(), old(self).inner.ready@,
        ensures
            final(tr).calls <= 1,   // #at_most_one_inner_call [C20]
            count_gates(final(tr).notes) == 1,   // #asks_the_breaker_exactly_once [C03,C09]
            !final(tr).admitted ==> final(tr).calls == 0 && result == Err::<Res, CircuitBreakerError<E>>(CircuitBreakerError::OpenCircuit),   // #rejected_call_never_reaches_inner_and_gets_open_circuit_error [C03]
            result matches Err(CircuitBreakerError::OpenCircuit) ==> !final(tr).admitted && final(tr).calls == 0,   // #open_circuit_error_only_when_rejected [C03,C20]
            final(tr).admitted ==> final(tr).calls == 1 && final(tr).done == 1 && final(tr).last_req == Some(req),   // #admitted_call_forwarded_once_unchanged [C20]
            final(tr).admitted ==> count_records(final(tr).notes) == 1 && (final(tr).notes.last() matches Note::Record { failure, .. } && failure == classify_spec(old(self).config.failure_classifier, final(tr).last_done->0)),   // #records_the_classified_outcome_once [C04,C09]
            !final(tr).admitted ==> count_records(final(tr).notes) == 0,   // #rejected_call_records_nothing [C04]
            final(tr).admitted ==> measures_inner_call(*final(tr)),   // #recorded_duration_is_measured_around_exactly_the_inner_call [C04]
            result matches Ok(v) ==> final(tr).last_done == Some(Ok::<Res, E>(v)),   // #response_returned_unchanged [C20]
            result matches Err(CircuitBreakerError::Inner(e)) ==> final(tr).last_done == Some(Err::<Res, E>(e)),   // #inner_error_returned_unchanged [C20]
            final(self).circuit == old(self).circuit && final(self).state_atomic == old(self).state_atomic && final(self).config == old(self).config,   // #keeps_shared_state [C03]
    //@body CircuitBreaker::call@Service file=lib
}

impl<Req, Res, E> CircuitBreakerWithFallback<Req, Res, E> {
    pub fn clone(&self) -> (r: Self)
        ensures
            r.circuit == self.circuit && r.state_atomic == self.state_atomic && r.config == self.config && r.fallback == self.fallback,   // #clones_share_the_circuit [C03,C04,C09]
    //@body CircuitBreakerWithFallback::clone@Clone file=lib

    pub fn state_sync(&self) -> (r: CircuitState)
        ensures r == from_u8_spec(mirror_value(self.state_atomic.id@)),   // #lockfree_view_decodes_the_mirror [C03,C04]
    //@body CircuitBreakerWithFallback::state_sync file=lib

    pub fn is_open(&self) -> (r: bool)
        ensures r == (from_u8_spec(mirror_value(self.state_atomic.id@)) == CircuitState::Open),   // #is_open_iff_mirror_open [C03,C04]
    //@body CircuitBreakerWithFallback::is_open file=lib

    pub fn force_open(&self, Tracked(tr): Tracked<&mut Trace<Req, Res, E>>)
        requires old(tr).fresh(),
        ensures count_kernel(final(tr).notes, K_FORCE_OPEN) == 1 && total_kernel(final(tr).notes) == 1,   // #delegates_once_to_kernel [C03,C04]
    //@body CircuitBreakerWithFallback::force_open file=lib

    pub fn force_closed(&self, Tracked(tr): Tracked<&mut Trace<Req, Res, E>>)
        requires old(tr).fresh(),
        ensures count_kernel(final(tr).notes, K_FORCE_CLOSED) == 1 && total_kernel(final(tr).notes) == 1,   // #delegates_once_to_kernel [C04]
    //@body CircuitBreakerWithFallback::force_closed file=lib

    pub fn reset(&self, Tracked(tr): Tracked<&mut Trace<Req, Res, E>>)
        requires old(tr).fresh(),
        ensures count_kernel(final(tr).notes, K_RESET) == 1 && total_kernel(final(tr).notes) == 1,   // #delegates_once_to_kernel [C04]
    //@body CircuitBreakerWithFallback::reset file=lib

    pub fn poll_ready(&mut self, cx: &mut Context) -> (r: Poll<Result<(), CircuitBreakerError<E>>>)
        ensures
            r matches Poll::Ready(Ok(_)) ==> final(self).inner.ready@,   // #ready_only_when_inner_ready [C20]
            r matches Poll::Ready(Err(e)) ==> e is Inner,   // #readiness_errors_surface_as_inner [C20]
            final(self).circuit == old(self).circuit && final(self).state_atomic == old(self).state_atomic && final(self).config == old(self).config,   // #shared_state_handles_and_configuration_are_left_untouched [C03,C04]
    //@body CircuitBreakerWithFallback::poll_ready@Service file=lib

    pub fn call(&mut self, req: Req, clk: &mut Clock, Tracked(tr): Tracked<&mut Trace<Req, Res, E>>) -> (result: Result<Res, CircuitBreakerError<E>>)
        requires old(tr).fresh(), old(self).inner.ready@,
        ensures
            final(tr).calls <= 1,   // #at_most_one_inner_call [C20]
            count_gates(final(tr).notes) == 1,   // #asks_the_breaker_exactly_once [C03,C09]
            !final(tr).admitted ==> final(tr).calls == 0 && final(tr).fb_calls == 1 && final(tr).fb_req == Some(req),   // #rejected_call_goes_to_the_fallback_with_the_same_request [C03]
            !final(tr).admitted ==> (match final(tr).fb_done->0 { Ok(v) => result == Ok::<Res, CircuitBreakerError<E>>(v), Err(e) => result == Err::<Res, CircuitBreakerError<E>>(CircuitBreakerError::Inner(e)) }),   // #rejected_call_answered_by_the_fallback [C03]
            final(tr).admitted ==> final(tr).fb_calls == 0 && final(tr).calls == 1 && final(tr).done == 1 && final(tr).last_req == Some(req),   // #admitted_call_forwarded_once_unchanged_no_fallback [C03,C20]
            final(tr).admitted ==> count_records(final(tr).notes) == 1 && (final(tr).notes.last() matches Note::Record { failure, .. } && failure == classify_spec(old(self).config.failure_classifier, final(tr).last_done->0)),   // #records_the_classified_outcome_once [C04,C09]
            !final(tr).admitted ==> count_records(final(tr).notes) == 0,   // #rejected_call_records_nothing [C04]
            final(tr).admitted ==> measures_inner_call(*final(tr)),   // #recorded_duration_is_measured_around_exactly_the_inner_call [C04]
            final(tr).admitted ==> (match final(tr).last_done->0 { Ok(v) => result == Ok::<Res, CircuitBreakerError<E>>(v), Err(e) => result == Err::<Res, CircuitBreakerError<E>>(CircuitBreakerError::Inner(e)) }),   // #outcome_returned_unchanged [C20]
            final(self).circuit == old(self).circuit && final(self).state_atomic == old(self).state_atomic && final(self).config == old(self).config,   // #keeps_shared_state [C03]
    //@body CircuitBreakerWithFallback::call@Service file=lib
}
fn main() {}
}
