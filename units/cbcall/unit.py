CB = "crates/tower-resilience-circuitbreaker/src/"
TR = "Tracked(tr)"
LOCK = ("sub", "R8-lock", r"(?:self\s*\.\s*)?circuit\s*\.\s*lock\(\)\s*\.\s*await", None)
def lockrule(n):
    return ("sub", "R8-lock", r"((?:self\s*\.\s*)?circuit)\s*\.\s*lock\(\)\s*\.\s*await", r"vx_lock(&\1, Tracked(tr))", n)
# a wrapper either locks the circuit and calls the operation on it, or delegates to another wrapper of the same handle
WRAP = lambda op: dict(file="lib", rules=[
    ("sub", "R3-self-delegation", r"\bself\s*\.\s*(force_open|force_closed|reset|state|metrics)\(\)\s*\.\s*await", r"self.\1(Tracked(tr))", -1),
    lockrule(-1), ("addarg", [op], TR, 1), ("inject", None, "start", "broadcast use lemma_counts_push;")])
CALL = [
    ("R4",), lockrule(None), ("R3",),
    ("sub", "R5-traced", r"(?:std::time::)?Instant::now\(\)", "vx_now(clk, Tracked(tr))", -1),
    ("sub", "R5-traced", r"\bstart\.elapsed\(\)", "vx_elapsed(clk, start, Tracked(tr))", -1),
    ("addarg", ["call", "try_acquire", "record_failure", "record_success"], TR, 4),
    ("R10e", None),
    ("inject", None, "start", "broadcast use lemma_counts_push;"),
]
UNIT = dict(
    serves=["C03", "C04", "C09", "C20"],
    files={"lib": CB + "lib.rs", "circuit": CB + "circuit.rs", "error": CB + "error.rs"},
    default_file="lib",
    verus_flags=["--no-erasure-check"],
    rules=[("R1",), ("R2",), ("sub", "R9-paths", r"std::sync::atomic::(AtomicU8|Ordering)\b", r"\1", -1)],
    extra_params=["clk", "tr"],
    fns={
        "CircuitState::from_u8": dict(file="circuit"),
        "CircuitBreaker::new": dict(),
        "CircuitBreaker::with_fallback": dict(),
        "CircuitBreaker::clone@Clone": dict(),
        "CircuitBreaker::state_sync": dict(),
        "CircuitBreaker::is_open": dict(),
        "CircuitBreaker::force_open": WRAP("force_open"),
        "CircuitBreaker::force_closed": WRAP("force_closed"),
        "CircuitBreaker::reset": WRAP("reset"),
        "CircuitBreaker::state": WRAP("state"),
        "CircuitBreaker::metrics": WRAP("metrics"),
        "CircuitBreaker::poll_ready@Service": dict(rules=[("R10p", "CircuitBreakerError::Inner")]),
        "CircuitBreaker::call@Service": dict(rules=CALL),
        "CircuitBreakerWithFallback::clone@Clone": dict(rules=[("sub", "R9-paths", r"std::marker::PhantomData", "core::marker::PhantomData", 1)]),
        "CircuitBreakerWithFallback::state_sync": dict(),
        "CircuitBreakerWithFallback::is_open": dict(),
        "CircuitBreakerWithFallback::force_open": WRAP("force_open"),
        "CircuitBreakerWithFallback::force_closed": WRAP("force_closed"),
        "CircuitBreakerWithFallback::reset": WRAP("reset"),
        "CircuitBreakerWithFallback::poll_ready@Service": dict(rules=[("R10p", "CircuitBreakerError::Inner")]),
        "CircuitBreakerWithFallback::call@Service": dict(rules=[
            ("sub", "R6-fallback", r"fallback\(req\)", "fallback.vx_call(req)", 1)] + CALL),
    },
    types=[
        ("enum", "CircuitState", "circuit"),
        ("enum", "CircuitBreakerError", "error"),
        ("struct", "CircuitBreaker", "lib"),
        ("struct", "CircuitBreakerWithFallback", "lib"),
    ],
)
