"""Property -> units / leaves / texts. Source of truth for MANIFEST.json (python3 -m vx manifest)."""
COMMON_TRUST = [
    "Verus 0.2026.09.13 + Z3 (trusted verifier); vstd specifications of std (Option, Result, VecDeque, HashMap, Arc) trusted",
    "the rewrite catalogue of DESIGN §3.1 preserves behaviour (each application is counted in rules_applied)",
    "machine integers are machine integers (overflow checked); f64 is uninterpreted in Verus and bit-precise in Kani",
]
PROPS = {
    "C03": dict(
        units=["circuit", "cbcall", "builders"],
        title="Open circuit breaker shields the inner service",
        level_text="Deductive proof (Verus) of contracts on the real bodies of Circuit::{try_acquire,transition_to,record_*,evaluate_window,force_open}: "
                   "while Open a call is admitted only after wait_duration_in_open has elapsed on the (monotone, explicit) clock, rejected calls leave the state unchanged, "
                   "the lock-free mirror equals the state after every operation, nothing but try_acquire leaves Open. For all configurations and all prior states satisfying the invariant.",
        level_note="Assumes: critical sections under the async Mutex are atomic; std Instant/Duration modelled as nanosecond counters with a monotone clock; "
                   "state_atomic is written only in transition_to (syntactic frame check on every run); event emission and metrics/tracing blocks dropped (R1/R2).",
        technique="contract-based deductive verification (Verus) of mechanically extracted functions",
        design_ref="§6 C03",
        assumptions=["async Mutex critical sections are atomic (R8)", "monotone process clock (R5)", "listeners are observers (R2)"],
        trusted=COMMON_TRUST,
        excluded=[],
    ),
    "C04": dict(
        units=["circuit", "cbcall", "builders"],
        title="Circuit breaker state machine",
        level_text="Deductive proof (Verus): every kernel operation of the breaker is proved against the documented machine stated over ghost history "
                   "(count-based: counters equal the counts of the history since the last transition; time-based: exact eviction of the expired prefix, statistics equal counts of the live records); "
                   "trip condition is an iff; half-open exits; force/reset; metrics and lock-free view agree with the state. Unbounded in history length and configuration.",
        level_note="f64 rate and comparison are uninterpreted functions (the spec *is* the f64 comparison); counters assumed < usize::MAX-1; known finding: count-based window never slides.",
        technique="contract-based deductive verification (Verus) with ghost history; float facts by Kani leaves",
        design_ref="§6 C04",
        assumptions=["counters stay below usize::MAX-1", "monotone process clock", "TimeBased config carries a window duration (enforced by build())"],
        trusted=COMMON_TRUST,
        excluded=["rounding-level disagreement between the f64 rate and the rational rate (the specification is the f64 comparison)"],
    ),
    "C09": dict(
        units=["circuit", "cbcall", "builders"],
        title="Half-open admits at most the permitted trial calls",
        level_text="Deductive proof (Verus) with a ghost count of trials admitted since entering half-open. The property clause (admitted ⇒ trials < permitted) FAILS on the real code and is a known finding; "
                   "the companion clauses that do hold (admission iff completed trials < permitted; state untouched; ghost trials counted exactly) are proved so further regressions are still caught.",
        level_note="Known finding: admission counts completed trials only, so any number of concurrent callers pass before the first outcome is recorded.",
        technique="contract-based deductive verification (Verus) with ghost trial counter",
        design_ref="§6 C09",
        assumptions=["async Mutex critical sections are atomic (R8)"],
        trusted=COMMON_TRUST,
        excluded=[],
    ),
}

PROPS["C01"] = dict(
    units=["bulkhead", "builders2"],
    title="Bulkhead never exceeds max_concurrent_calls",
    level_text="Deductive proof (Verus) on the real bodies of Bulkhead::{new,call,poll_ready} and the field-wise expansion of its derived Clone: the semaphore every clone shares is created with exactly "
               "max_concurrent_calls permits; in every execution of call() the inner call is made, and the inner future is awaited, only while this task holds a permit of that semaphore "
               "(preconditions of the inner-service shim, checked at every call site); at most one permit per call. Holds for all configurations, inner outcomes and cancellation points of this body.",
    level_note="Assumes tokio's Semaphore contract (outstanding permits <= n across Arc clones; a cancelled acquire leaks nothing; a permit is released when dropped, also on unwind) and Rust drop semantics; "
               "one task in isolation, interference only through the semaphore.",
    technique="contract-based deductive verification (Verus): effect-trace contract on the extracted call body",
    design_ref="§6 C01",
    assumptions=["tokio Semaphore contract", "RAII drop on cancellation and unwind", "derive(Clone) clones field-wise"],
    trusted=COMMON_TRUST, excluded=["anything inside tokio (fairness, wake-ups)"],
)
PROPS["C07"] = dict(
    units=["bulkhead", "builders2"],
    title="Bulkhead never loses capacity, rejects only by timeout",
    level_text="Deductive proof (Verus) on the real call body: a rejected call never reaches the inner service; the timeout error is returned iff the timer fired, and the duration handed to the timer is exactly "
               "max_wait_duration; BulkheadFull only when the semaphore reports closed (nothing in the crate closes it: syntactic frame check); nothing but the semaphore gates admission (no sleep, no second acquire); "
               "the permit is held until the inner future completed and no duty is left unguarded at any cancellation point.",
    level_note="'exactly max_wait after arrival' and 'admitted at once when free' are decided relative to tokio's timer and semaphore fairness (assumed); release on drop/unwind is RAII (assumed).",
    technique="contract-based deductive verification (Verus): effect-trace contract with obligation ledger",
    design_ref="§6 C07",
    assumptions=["tokio timeout fires at its deadline", "tokio Semaphore is fair and leak-free", "RAII release of the permit on implicit drop"],
    trusted=COMMON_TRUST, excluded=["timer accuracy", "semaphore fairness"],
)

PROPS["C05"] = dict(
    units=["retry", "builders3", "backoffcfg"],
    title="Retry: bounded attempts, last outcome",
    level_text="Deductive proof (Verus) on the real retry loop (whole body of Retry::call, RetryPolicy::{should_retry,next_backoff}, MaxAttemptsSource::get_max_attempts): for every request, predicate, "
               "backoff function, budget and every sequence of inner outcomes, 1 <= attempts <= max(1,max_attempts); the result is exactly the last inner outcome; a retry happens only after an error the predicate "
               "accepts, only after sleeping at least next_backoff(k), only with a budget grant when a budget is configured, never after a refusal; every attempt carries the request. Loop invariant + decreases: unbounded.",
    level_note="User closures (predicate, per-request max attempts) are deterministic total functions; Req::clone returns an equal request; tokio sleep waits at least its duration; budget internals are C08, delays C14.",
    technique="contract-based deductive verification (Verus): loop invariant over an effect trace on the extracted retry loop",
    design_ref="§6 C05",
    assumptions=["closures are pure functions (call_ensures deterministic)", "Clone of the request is equal to the request", "tokio::time::sleep(d) waits at least d"],
    trusted=COMMON_TRUST, excluded=["interleaving of several requests sharing one budget (that is C08's atomic invariant)"],
)

PROPS["C17"] = dict(
    units=["fallback", "builders"],
    title="Fallback never replaces a success and handles exactly the errors it should",
    level_text="Deductive proof (Verus) on the whole real body of Fallback::call (and new/clone/poll_ready): exactly one inner call with the unchanged request; an inner success is returned unchanged and no strategy "
               "closure or backup service is invoked; an inner error the predicate refuses is returned unchanged as Inner(e); an accepted error yields exactly what the configured strategy specifies for this request and "
               "this error, for all six strategies (backup: called once with the request, Ok/FallbackFailed mapping). For all requests, outcomes and closures.",
    level_note="Strategy closures, predicate and backup service are pure functions of their arguments (uninterpreted); every invocation is counted through the shim the call is rewritten to (R6).",
    technique="contract-based deductive verification (Verus): whole-body effect-trace contract",
    design_ref="§6 C17",
    assumptions=["user closures are pure functions", "Clone of request/response is equal to the original"],
    trusted=COMMON_TRUST, excluded=[],
)

PROPS["C08"] = dict(
    units=["budget"],
    title="Retry budget never grants more retries than it was funded",
    level_text="Deductive proof (Verus atomic invariants): each std atomic of TokenBucketBudget / AimdBudget / AimdController carries the ghost accounting {granted, deposited} and the invariant "
               "balance + granted x cost <= initial + deposited x amount and balance <= max; every individual atomic step (load, CAS) of the real try_withdraw/deposit bodies re-establishes it in isolation, "
               "which is a proof for ALL interleavings of those steps and any number of threads; try_withdraw returns true only on the path whose own CAS succeeded (local ghost witness), false without withdrawing.",
    level_note="Verus atomics are sequentially consistent: the Relaxed orderings are dropped; sound here because every invariant is single-location. CAS-loop termination not proved. max_tokens x 1000 representable; initial <= max. "
               "AimdBudget::new (float builder chain) is not under contract: its initial state is assumed to satisfy the invariant.",
    technique="contract-based deductive verification (Verus atomic_ghost invariants on mechanically rewritten std atomics)",
    design_ref="§6 C08",
    assumptions=["memory orderings dropped (single-location invariants)", "CAS loops terminate", "initial_tokens <= max_tokens <= 2^48", "AimdBudget::new establishes the invariant"],
    trusted=COMMON_TRUST, excluded=["termination (lock-freedom) of the CAS loops"],
)
PROPS["C13"] = dict(
    units=["budget", "adaptive"],
    title="Adaptive limit in bounds, in-flight exact",
    level_text="Deductive proof (Verus): atomic invariant min <= limit <= max on the AIMD controller and on Vegas, re-established by every atomic store of the real record_success/record_failure/record_successes/reset/adjust_limit bodies "
               "(all interleavings). Service: obligation ledger on the real call body — the in-flight increment is handed to the RAII guard before the first cancellation point (inner call that may panic, future creation, await), "
               "the guard's real Drop decrements exactly once, a completed call decrements exactly once; poll_ready returns Pending without touching the inner service when the loaded in-flight count has reached the limit and "
               "otherwise forwards the inner readiness.",
    level_note="(current as f64 * factor) as usize <= current is a Kani leaf on the extracted expression (factor in [0,1], current <= 2^53); Vegas' float estimates are unconstrained (the clamp keeps the bounds); "
               "Rust drop/unwind semantics assumed; max_limit < usize::MAX.",
    technique="contract-based deductive verification (Verus): atomic invariants + obligation ledger on the extracted call body; Kani float leaf",
    design_ref="§6 C13",
    assumptions=["drop on cancellation and unwind (RAII)", "min_limit <= max_limit <= 2^53", "decrease_factor in [0,1]"],
    trusted=COMMON_TRUST, excluded=["update_rtt (touches only RTT statistics, frame-checked syntactically)"],
)

PROPS["C02"] = dict(
    units=["limiter", "builders2"],
    title="Rate limiter admits at most limit_for_period calls per window",
    level_text="Deductive proof (Verus) on the real bodies of the three window states, the dispatcher, SharedRateLimiter::acquire and RateLimiter::call: Ok(ZERO) is returned exactly when a permit/log entry/count was consumed "
               "(recorded in the task's trace), a fixed window or bucket is replaced only when it is at least refresh_period old and starts full/empty, available <= limit and current_count <= limit are invariants, the sliding log "
               "evicts exactly the entries at least window_duration old (loop invariant) and admits iff fewer than limit remain; acquire returns Ok iff this task took exactly one permit (also after waiting); the inner call "
               "is made only with that permit. Global statement: a history of window starts and admissions (cuts at least refresh_period apart, every admission inside the window it is counted in, at most limit per window) is an invariant of every try_acquire step of the fixed window and the sliding counter (lemma_win_step over the proved clause win_post; lemma_win_init for new), and the spaced admission history is an invariant of the sliding log. For all limits, periods, timeouts, arrival instants.",
    level_note="Mutex critical sections atomic (between two sections any contracted operation of other tasks may have run); monotone clock; refresh_period > 0; limit >= 1 and 'instant + window representable' for the fixed window and the sliding counter only — the sliding log is decided for a limit of zero and for an unrepresentable expiry too (that is how the defect repaired by 6157aac was found). "
               "Sliding counter: float comparisons are lifted leaves (weighted < limit implies current < limit: Kani); the global 'windows partition time' statement is machine-checked for all three algorithms: the sliding log through the ghost admission history threaded through the real bodies, the fixed window and the sliding counter through lemma_win_step / lemma_win_init over the clause `win_post` that both try_acquire bodies are proved to satisfy (the history itself is defined by the spec function win_step, it is not ghost state of the bodies).",
    technique="contract-based deductive verification (Verus): state invariants + effect trace; Kani float leaves",
    design_ref="§6 C02",
    assumptions=["std Mutex critical sections are atomic (R8)", "monotone clock", "refresh_period > 0; limit_for_period >= 1 (fixed window, sliding counter; not assumed for the sliding log)", "estimate_wait_time(..) > 0 whenever no slot is free (IEEE assumption)"],
    trusted=COMMON_TRUST, excluded=["fairness among waiters", "fixed window / sliding counter: the window history is folded over the steps by the spec function win_step outside the bodies; that every state change of the shared limiter is a try_acquire step rests on the Mutex shim (R8) and the frame checks"],
)
PROPS["C15"] = dict(
    units=["limiter", "builders2"],
    title="Rate limiter decides within timeout; rejected calls go nowhere",
    level_text="Deductive proof (Verus), same unit as C02: every wait returned by try_acquire is at most timeout_duration and acquire sleeps at most that in total, with no other await; Err when the next slot is beyond the timeout; "
               "a rejected call makes no inner call and returns RateLimited, an admitted call makes exactly one with the unchanged request; immediate admission when the window has capacity; after a full idle period the fixed window "
               "admits at once, after two idle bucket periods the sliding counter has forgotten both buckets.",
    level_note="Timer accuracy is tokio's (sleep(d) waits at least d); 'idle two periods' for the sliding counter rests on the float fact elapsed >= 2*bucket => (elapsed/bucket) as u32 >= 2, a NAMED IEEE ASSUMPTION (its Kani leaf did not close in 15 min).",
    technique="contract-based deductive verification (Verus): effect-trace contract on acquire/call, state contracts on the window kernels",
    design_ref="§6 C15",
    assumptions=["tokio::time::sleep(d) completes after d", "monotone clock", "a caller cancelled while sleeping holds no permit (permits are only taken at Ok(ZERO))"],
    trusted=COMMON_TRUST, excluded=["timer accuracy"],
)

PROPS["C16"] = dict(
    units=["reconnect", "builders3", "backoffcfg"],
    title="Reconnect retries only connection failures, a bounded number of times",
    level_text="Deductive proof (Verus) on the real hand-written future ReconnectFuture::poll (pin projection erased), ReconnectService::call, ReconnectConfig::should_reconnect, ReconnectPolicy::delay_for_attempt and the "
               "published-state functions: an invariant of the future between polls (Calling: calls == attempt+1; Sleeping: the pending sleep is exactly policy.delay_for_attempt(attempt), the stored error is the last inner "
               "error and the predicate accepted it; attempt <= max) is preserved by every poll; hence at most max_attempts+1 inner calls; success is the last inner outcome and publishes Connected; non-reconnectable errors "
               "are returned at once unchanged; giving up only beyond max_attempts with the last error; a retry only after the completed policy delay; encode/decode of the published state are inverse.",
    level_note="Loop termination inside one poll is not proved; attempt < u32::MAX assumed (explicit assume, listed); per-task view of the published state cell; interval functions are C14; before a retry the future polls the inner service ready and a readiness error ends the request (C20).",
    technique="contract-based deductive verification (Verus): state-machine invariant on the extracted poll function",
    design_ref="§6 C16",
    assumptions=["attempt counter stays below u32::MAX", "pin projection is field access (R13)", "tokio Sleep is Ready only after its duration"],
    trusted=COMMON_TRUST, excluded=["mark_connected's attempt-counter reset and last_connected stamp"],
)

PROPS["C11"] = dict(
    units=["coalesce"],
    title="Coalesce: one inner call per key, shared result",
    level_text="Deductive proof (Verus) on the real bodies of InFlight::{try_join,complete,cancel} (whole-map postconditions over the HashMap: join changes nothing and subscribes to that key's channel; the first request registers a "
               "fresh channel and touches no other key; complete/cancel free exactly that key; the result is sent on the channel registered under its own key, cancel sends nothing), CoalesceService::call (a waiter makes no inner call; "
               "the leader makes exactly one, with the request, and owns the key the extractor returns), CoalesceFuture::poll (leader: completes its key exactly once with a clone of the inner result and returns that result; "
               "pending keeps the registration; waiter touches neither inner service nor map) and its Drop (a dropped leader frees its key without sending; a completed one does not cancel).",
    level_note="Obligation ledger: the registration duty is held by an RAII guard (Registration, then the future; both Drops under contract) at every point that may panic or be cancelled (repaired by a fix: commit). "
               "'key in map iff exactly one live leader holds it' is machine-checked as a lemma over these contracts: reg_inv over the ghost registry (key set of the map + live leaders with an armed registration) is kept by every join (lemma_reg_join over the clause join_post proved on try_join's body) and every release (lemma_reg_release over the 'frees exactly that key' clauses of complete / cancel); the registry history is folded by spec functions outside the bodies, and that a release is made by a live holder of that key is read off the poll / Drop contracts (key Some before, None after), not threaded as ghost state. "
               "hashbrown::HashMap read as std HashMap; parking_lot Mutex sections atomic; tokio broadcast contract assumed.",
    technique="contract-based deductive verification (Verus): abstract-map contracts on the in-flight registry + obligation ledger on call/poll/drop",
    design_ref="§6 C11",
    assumptions=["tokio broadcast: send reaches every subscriber of that channel, dropping the last sender closes it", "parking_lot Mutex critical sections are atomic", "K obeys the hash-map key model", "Clone yields an equal value"],
    trusted=COMMON_TRUST, excluded=["liveness: 'no request waits forever / promptly' (busy-poll wake-ups, broadcast delivery)"],
)

PROPS["C10"] = dict(
    units=["cache", "evict", "builders5"],
    title="Cache hits return the latest unexpired value of the right key; size bounded",
    level_text="Deductive proof (Verus) on the real bodies of CacheEntry::{new,is_expired}, CacheStore::{new,get,insert,len} (whole-map postconditions over the abstract view of the eviction container: a hit returns the value stored "
               "under that key iff it is not older than the TTL on the explicit clock, an expired entry is removed and misses, insert stores the value under its key stamped now and changes no other key's value) and Cache::call "
               "(lookup and store use the request's own key; a hit makes no inner call and stores nothing; a miss makes exactly one; a success is returned and stored once; an error is returned unchanged and never stored); "
               "CacheStore::new picks the container the policy names with capacity max_size; clones and the shared layer share one store.",
    level_note="Unit evict proves the EvictionStore contract for FifoStore and LfuStore on their real bodies (representation invariant: queue/counters in step with the map, size <= capacity; FIFO victim is the first-inserted key; "
               "LFU victim is a least-frequently-used key, given the ASSUMED contract of find_lfu_key (iterator chain), VecDeque::retain and the entry API). LruStore wraps the external `lru` crate: its contract is assumed. "
               "The cache unit uses the containers through the trait contract only; that the proved contracts imply the trait contract is by inspection (same clauses).",
    technique="contract-based deductive verification (Verus): abstract-map contracts on the store, effect trace on call",
    design_ref="§6 C10",
    assumptions=["EvictionStore contract for LruStore/LfuStore/FifoStore", "std Mutex critical sections are atomic", "monotone clock", "key extractor is a pure function"],
    trusted=COMMON_TRUST, excluded=["LruStore (external crate `lru`): size bound and least-recently-used victim assumed, not proved", "LfuStore::find_lfu_key (iterator adapters): assumed to return a least-frequently-used key", "concurrent misses on the same key each call the inner service (consistent with the statement)"],
)

PROPS["C06"] = dict(
    units=["timelimiter", "builders"],
    title="Time limiter resolves every call by its deadline",
    level_text="Deductive proof (Verus) on the real body of TimeLimiter::call, RELATIVE TO ASSUMED TIMED CONTRACTS OF TOKIO'S TIMER: the duration handed to the timer is get_timeout evaluated on this request (fixed: the configured "
               "duration; per-request: what the function returns for this request), before the future is built and with no await before the timer is created; in cancel mode exactly one inner call with the unchanged request, "
               "the result is the inner outcome (Ok / Inner(e)) when it arrives in time and otherwise the Timeout error with the inner future dropped; the cancel_running_future flag selects between the two modes.",
    level_note="ALL timing is tokio's: timeout(d,f) polls f before it looks at the deadline, returns the inner result as soon as it is available within d, or Elapsed at exactly d, dropping f (assumed). The non-cancelling mode "
               "is inside the dialect (R17): tokio::spawn(async move { B }) runs B in line (the detached task runs to completion, so exactly one inner call completes and nothing drops it), tokio::select! is a choice between 'the task's "
               "result has arrived on the oneshot channel' and 'a timer of exactly this request's timeout has fired'; the result is the inner outcome if it arrives, else Timeout after that timer. The ORDER in which one poll examines a "
               "ready result and an expired timer is a syntactic side condition checked on the source on every run (every select! with a timer arm is `biased;` with the timer arm last): without it a call that finished before its "
               "deadline can be reported as timed out when the future is polled late — the genuine defect repaired by d0d41b1. A possible panic / overflow in the body (e.g. computing a deadline from an unlimited timeout) is a C06 violation (safety_tags).",
    technique="contract-based deductive verification (Verus): effect-trace contract relative to assumed timer contracts",
    design_ref="§6 C06",
    assumptions=["tokio::time::timeout / sleep / select! / spawn / oneshot contracts (all real-time content of the property)", "straight-line code takes no virtual time", "a spawned task runs to completion"],
    trusted=COMMON_TRUST, excluded=["timer accuracy", "fairness of the executor (when the limiter future is polled at all)"],
)

PROPS["C18"] = dict(
    units=["healthcheck", "hcselect", "builders5"],
    title="Health status flips only at its thresholds",
    level_text="Deductive proof (Verus) on the real bodies of HealthCheckedContext::{status,set_status,set_last_check,consecutive_*,record_success,record_failure} (RwLock erased: whole-state postconditions) and on the status-update "
               "block of the checker task (fragment of HealthCheckWrapper::start extracted by anchor, including the mapping of a timed-out check to Unhealthy): the published status becomes Unhealthy only on a failed or timed-out "
               "check whose consecutive-failure run has reached failure_threshold, Healthy only on a healthy check whose run of consecutive non-failing checks has reached success_threshold, Degraded at once, and an Unknown "
               "result changes neither status nor counters. For all thresholds, all prior states, all results.",
    level_note="Selection (unit hcselect): get_healthy / get_usable / get_with_filter return only a monitored resource whose currently published status passes the filter (so nothing when none qualifies); the built-in "
               "strategies pick a usable resource if there is one, PreferHealthy a healthy one if there is one; round-robin indexes the ascending list of usable indices with counter % len (in bounds). The std iterator-adapter "
               "chains inside these functions (position, enumerate/filter/map/collect, filter/cloned/collect) are replaced by contracted helpers stating what the chain computes (R10-iter, ASSUMED); the code around them is the real text. "
               "Round-robin EVENNESS is not decided beyond that formula (it follows from the shared counter's atomic increment, assumed). That the counters are the run lengths of the history of seen results (Unknown skipped) is machine-checked: lemma_runs_step over the clause upd_post proved on the extracted status-update block (history folded by Seq::push outside the body; HealthCheckedContext::new is under contract: Unknown status, empty runs).",
    technique="contract-based deductive verification (Verus): whole-state contracts + anchored fragment of the checker task",
    design_ref="§6 C18",
    assumptions=["one checker task per resource updates the counters (critical sections atomic, R8)", "counters below u64::MAX"],
    trusted=COMMON_TRUST, excluded=["round-robin evenness over time (only: the pick is usable_indices[counter % len])", "Random strategy (cfg feature off)", "semantics of the std iterator adapters (assumed helpers)",
                                   "the background checker task outside the status-update block: that a check is performed at every interval, that the task survives (no panic in its loop), and which instant a check's timeout is measured from (seeds C18-9, C18-12: missed)"],
)

PROPS["C19"] = dict(
    units=["chaos", "builders4"],
    kani=[dict(name="chaos_float_facts", crate="leaves", harness="chaos_float_facts", tags=["C19"], claim="IEEE facts assumed by the chaos unit: !(1.0 < r) for r in [0,1]; x < 1.0 for x in [0,1); 1.0 > 0.0")],
    title="Chaos injection is reproducible and bounded; injected errors skip the inner call",
    level_text="Deductive proof (Verus) on the whole real body of Chaos::call with the f64 comparisons and the generator calls rewritten to named shims: an injected error means no inner call and no latency and the error is the "
               "injector's error for this request; otherwise exactly one inner call with the request and its outcome unchanged; an injected latency is a whole number of milliseconds within [min_ms, max_ms] (== min_ms when "
               "max_ms <= min_ms) and random_range is never called with an empty range; with both rates 0 no random value is drawn, nothing is slept and the call is forwarded; with error rate 1 every call fails; at most "
               "three draws per call, in program order, from the one generator all clones share. The IEEE facts used are a loop-free Kani leaf.",
    level_note="Determinism is by construction rather than a 2-safety proof: every nondeterministic input of the decision block enters through the two generator shims (a draw stream), every other call in the extracted body "
               "is a contracted function (Verus rejects unknown ones), event emission is dropped (R2). StdRng::seed_from_u64 is deterministic (rand's contract). ErrorInjector implementations by contract.",
    technique="contract-based deductive verification (Verus) with float comparisons as uninterpreted shims; Kani leaf for the IEEE facts",
    design_ref="§6 C19",
    assumptions=["rand: seeded StdRng is a deterministic stream; random::<f64>() in [0,1); random_range(a..=b) in [a,b]", "ErrorInjector: NoErrorInjection never injects, CustomErrorFn injects f(req) iff roll < rate", "rates in [0,1]"],
    trusted=COMMON_TRUST, excluded=["bit-level reproducibility of rand's generator"],
)

PROPS["C14"] = dict(
    units=["reconnect", "retry", "backoffcfg"],
    kani=[
        dict(name="backoff_total_and_capped", crate="backoff", harness="backoff_total_and_capped", tags=["C14"],
             claim="capped_exponential (the text of /repo, powi abstracted): no panic / overflow and result <= max_interval for ALL Durations, attempts in usize, multipliers in [1,10], caps; the exponent saturates at i32::MAX instead of wrapping",
             assumes=["f64::powi(b, n) for b in [1,10]: >= 1, == 1 for n == 0, never NaN, may be +inf"]),
        dict(name="jitter_total", crate="backoff", harness="jitter_total", tags=["C14"],
             claim="ExponentialRandomBackoff::randomize: the random range is non-empty and finite and the converted value is within Duration's range for every base delay and factor in [0,1] (no panic)",
             assumes=["Duration::as_secs_f64 returns a finite value in [0, 2^64)", "rand::random_range(a..=b) returns a value in [a,b]", "Duration::from_secs_f64 panics only on negative, non-finite or >= 2^64 input"]),
        dict(name="backoff_zero_initial_stays_zero", crate="backoff", harness="backoff_zero_initial_stays_zero", tags=["C14"],
             claim="a zero initial interval yields a zero delay for every attempt, multiplier and cap (initial x multiplier^attempt == 0 even after the power overflowed to +inf)",
             assumes=["f64::powi contract as above"]),
        dict(name="backoff_saturates_at_the_cap", crate="backoff", harness="backoff_saturates_at_the_cap", tags=["C14", "C05"],
             claim="once multiplier^attempt has overflowed to +inf, a positive initial interval yields EXACTLY the cap (Duration::MAX without one): the delay never falls back below earlier delays at saturation (the saturating end of monotonicity)",
             assumes=["f64::powi contract as above"]),
        dict(name="backoff_positive_stays_positive", crate="backoff", harness="backoff_positive_stays_positive", tags=["C14", "C05"],
             claim="a positive initial interval and a positive (or absent) cap never yield a zero delay, for every attempt and multiplier in [1,10]",
             assumes=["f64::powi contract as above"]),
        dict(name="backoff_cover", crate="backoff", harness="backoff_cover", tags=["C14"], claim="vacuity guard: cap reached / below cap / attempt beyond i32::MAX are all reachable under the harness assumptions"),
    ],
    title="Backoff delays are total, monotone and capped",
    level_text="Kani (CBMC), loop-free harnesses over the FULL input domain on the functions extracted from /repo on every run (capped_exponential, ExponentialRandomBackoff::randomize): total, never above max_interval, "
               "exponent saturates, jitter never panics. Verus: ReconnectPolicy::delay_for_attempt and RetryPolicy::next_backoff delegate to exactly the configured interval function for this attempt; the constructors and setters of FixedInterval / ExponentialBackoff / ExponentialRandomBackoff and of ReconnectPolicy (none, fixed, exponential, exponential_random, default) store exactly the given initial interval, multiplier and cap, and next_interval hands exactly those and this attempt number to capped_exponential (unit backoffcfg).",
    level_note="f64::powi is abstracted by an assumed contract (CBMC's own model costs minutes); 'equal to initial x multiplier^attempt below the cap' is the extracted text itself; MONOTONICITY in the attempt number is decided only at its two ends (zero stays zero; a positive interval never yields zero and yields exactly the cap once the power has overflowed); in between it is NOT decided: "
               "it needs IEEE monotonicity of x*m, of from_secs_f64 and of powi in the exponent — all three were tried as Kani leaves and did not close in 20 min, they are named assumptions, not obligations.",
    technique="Kani function-level proofs (loop-free, full domain) on mechanically extracted functions; Verus for the delegation",
    design_ref="§6 C14",
    assumptions=["powi contract", "IEEE-754 rounding is monotone (for the monotonicity clause, which is therefore not claimed)"],
    trusted=["Kani 0.68 / CBMC 6.11 bit-precise float model"] + COMMON_TRUST,
    excluded=["monotone in the attempt number (named IEEE assumptions; not decided)", "jittered value within +-factor of the base AFTER conversion rounding (only the range handed to the generator is checked)"],
)
for _p, _h in (("C04", [dict(name="ratio_in_unit_interval", crate="leaves", harness="ratio_in_unit_interval", tags=["C04"], claim="failure_count as f64 / total_count as f64 lies in [0,1] for failure_count <= total_count, total_count > 0 (all usize)"),
                        dict(name="ratio_of_zero_failures_is_zero", crate="leaves", harness="ratio_of_zero_failures_is_zero", tags=["C04"], claim="0 as f64 / total as f64 == 0.0: a positive threshold never trips on zero failures")]),
               ("C13", [dict(name="aimd_scale_never_increases", crate="leaves", harness="aimd_scale_never_increases", tags=["C13", "C08"], tier="thorough",
                             claim="(current as f64 * decrease_factor) as usize <= current for current <= 2^53, factor in [0,1] (the contract Verus assumes for the lifted leaf)")]),
               ("C02", [dict(name="weighted_lt_limit_implies_room", crate="leaves", harness="weighted_lt_limit_implies_room", tags=["C02"],
                             claim="(previous as f64 * w) + current as f64 < limit as f64 implies current < limit, for all usize and w in [0,1] (the contract Verus assumes for the lifted admit leaf)")]),
               ("C15", [])):
    pass
_EST = dict(name="estimate_wait_positive_when_full_small", crate="leaves", harness="estimate_wait_positive_when_full_small", tags=["C02", "C15"],
            bounded="previous_count in 0..=3 (enumerated), limit_for_period in 1..=4, current_count <= limit, bucket = 1 s, elapsed/bucket in [0, 0.999999] symbolic f64",
            claim="BOUNDED: when no slot is free the sliding counter's wait estimate is >= 1 microsecond of a 1 s bucket, so Ok(ZERO) is only ever returned together with a counted admission "
                  "(the unbounded harness estimate_wait_positive_when_full does not close in 20 min and stays a named assumption)")
_EST_D = dict(_EST, name="estimate_wait_positive_when_full_dense", harness="estimate_wait_positive_when_full_dense", timeout=900,
              bounded="previous_count = 10_000 (a full previous bucket of a dense limiter), bucket = 1 ms, limit_for_period = 10_000, current_count = 5_000, elapsed/bucket in [0, 0.999999] symbolic f64",
              claim="BOUNDED: for a dense limiter (10_000 permits per millisecond bucket, where the estimate is smallest) the wait estimate with no slot free is still >= 1 ns: a unit conversion that truncates it to zero is refuted")
_SAT = [h for h in PROPS["C14"]["kani"] if h["name"] in ("backoff_saturates_at_the_cap", "backoff_positive_stays_positive")]
_EST_M = dict(_EST, name="estimate_wait_positive_when_full_medium", harness="estimate_wait_positive_when_full_medium", tier="thorough", timeout=1500,
              bounded="previous_count in 0..=7 (enumerated), limit_for_period in 1..=8, current_count <= limit, bucket = 1 s, elapsed/bucket in [0, 0.999999] symbolic f64",
              claim="BOUNDED (thorough tier, wider domain, ~4 min): " + _EST["claim"][len("BOUNDED: "):])
for _p, _h in (("C02", [_EST, _EST_D, _EST_M]), ("C15", [_EST, _EST_D, _EST_M]), ("C05", _SAT)):
    PROPS[_p]["kani"] = PROPS[_p].get("kani", []) + _h

PROPS["C20"] = dict(
    units=["bulkhead", "limiter", "cbcall", "retry", "timelimiter", "cache", "fallback", "reconnect", "adaptive", "coalesce", "chaos"],
    title="Layers are transparent, honour Tower readiness; listeners only observe",
    level_text="Deductive proof (Verus), per layer, on the real call and poll_ready bodies of 12 of the 13 middleware (all but executor): (a) transparency — on the non-triggering path exactly one inner call carrying the unchanged request, the "
               "result is the inner outcome wrapped only in the layer's pass-through variant, poll_ready returns the inner Poll mapped by that variant; (b) readiness — the inner-service contract has the PRECONDITION 'this "
               "instance has been observed ready since its previous call' at every call site, and a clone is not ready; poll_ready's Ready(Ok) establishes it. Stacks compose because every layer's proved contract has the shape of "
               "the assumed inner contract (meta-argument).",
    level_note="No known finding left: retry, reconnect and hedge now drive the instance to readiness before every further call (fix commits ca95e39, aa8cbf2, 8971b9e; before them three call sites failed this "
               "precondition). Excluded by name: executor (spawn on a user executor, outside the dialect) and clause (c) listeners: neither verifier models unwinding/catch_unwind; the only machine-checked fact is R2's side condition that dropped emit statements are effect-free.",
    technique="contract-based deductive verification (Verus): the Tower contract as pre/postconditions of an inner-service shim, checked at every call site of 11 extracted call bodies",
    design_ref="§6 C20",
    assumptions=["Tower contract of the inner service (assumed shim)", "a clone of a service is not ready (strict services such as Buffer)", "listeners are observers (R2)"],
    trusted=COMMON_TRUST,
    excluded=["(c) listeners: panicking listeners / every listener receives every event / a listener that re-enters the layer while a lock guard is still alive (not decided; seed C20-12: missed)", "executor (not under contract)", "stacks: composition is a meta-argument over the per-layer contracts"],
)

PROPS["C12"] = dict(
    units=["hedge", "builders2"],
    title="Hedge starts a bounded number of attempts and fails only when all have failed",
    level_text="Deductive proof (Verus) on the whole real body of execute_with_hedging (a tokio::select! loop over spawned tasks) through rule R17: every `tokio::spawn(async move { B })` runs B in line and `select!` becomes a "
               "nondeterministic choice among its enabled branches, with the result channel as ghost state from which recv may return ANY pending message. Loop invariants: one inner call per started attempt, never more than "
               "max_hedged_attempts, every started attempt reports exactly once, waiting continues only while no attempt has succeeded; hence 1 <= inner calls <= max, the result is a received successful response and the "
               "function returns at the first one, and all-attempts-failed is returned only when every attempt has been started and every one has reported a failure (repaired by a fix: commit); parallel mode starts all "
               "attempts before any await; every attempt carries the request.",
    level_note="R17 is an over-approximation, sound for safety clauses of the spawning function: detached tasks run to completion (tokio, assumed), message order and timer/branch choice are unconstrained. NOT decided: the "
               "timing clause 'each further attempt no earlier than the configured delay after the previous one' beyond 'a hedge is spawned only in the timer branch of the select' (tokio's timer), and 'as soon as it is "
               "available' (liveness). Readiness of the cloned instances is a C20 known finding. Loop termination not proved.",
    technique="contract-based deductive verification (Verus) through an over-approximating rewrite of spawn/select (R17) with ghost channel state",
    design_ref="§7, §11.2",
    assumptions=["tokio: a spawned task runs to completion; mpsc delivers every sent message exactly once; recv returns None only when all senders are gone", "select! picks among enabled branches", "builder clamps max_hedged_attempts to >= 1"],
    trusted=COMMON_TRUST, excluded=["delay between attempts (tokio timer)", "promptness of the first successful response (liveness)"],
)
PROPS["C20"]["units"] = PROPS["C20"]["units"] + ["hedge"]

NOT_APPLICABLE = {
}
ALL = ["C%02d" % i for i in range(1, 21)]

# unit `layers` (Layer::layer of every middleware hands over exactly the layer's configuration) serves every property whose layer it covers
for _p in ("C01", "C02", "C03", "C04", "C05", "C06", "C07", "C09", "C10", "C11", "C12", "C13", "C15", "C17", "C19", "C20"):
    if "layers" not in PROPS[_p]["units"]:
        PROPS[_p]["units"] = list(PROPS[_p]["units"]) + ["layers"]
