#[cfg(kani)]
mod proofs {
    // leaf text as it appears in /repo (aimd.rs: record_failure)
    fn vx_leaf_decreased(current: usize, decrease_factor: f64) -> usize { (current as f64 * decrease_factor) as usize }
    // circuit.rs: evaluate_window
    fn vx_leaf_failure_rate(failure_count: usize, total_count: usize) -> f64 { failure_count as f64 / total_count as f64 }

    #[kani::proof]
    fn scale_le_current() {
        let c: usize = kani::any(); let f: f64 = kani::any();
        kani::assume(c <= (1usize << 53));
        kani::assume(f >= 0.0 && f <= 1.0);
        assert!(vx_leaf_decreased(c, f) <= c);
    }
    #[kani::proof]
    fn ratio_all_fail_is_one() {
        let t: usize = kani::any(); kani::assume(t > 0);
        assert!(vx_leaf_failure_rate(t, t) == 1.0);
    }
    #[kani::proof]
    fn ratio_zero_fail_is_zero() {
        let t: usize = kani::any(); kani::assume(t > 0);
        assert!(vx_leaf_failure_rate(0, t) == 0.0);
    }
    #[kani::proof]
    fn ratio_in_unit_interval() {
        let t: usize = kani::any(); let f: usize = kani::any(); kani::assume(t > 0 && f <= t);
        let r = vx_leaf_failure_rate(f, t);
        assert!(r >= 0.0 && r <= 1.0);
    }
    // limiter.rs sliding counter
    #[kani::proof]
    fn weighted_below_limit_implies_current_below_limit() {
        let prev: usize = kani::any(); let cur: usize = kani::any(); let limit: usize = kani::any();
        let w: f64 = kani::any(); kani::assume(w >= 0.0 && w <= 1.0);
        let weighted_count = (prev as f64 * w) + cur as f64;
        if weighted_count < limit as f64 { assert!(cur < limit); }
    }
}
