use vstd::prelude::*;
use vstd::std_specs::cmp::*;
use core::cmp::Ordering;
verus! {
#[derive(Clone, Copy, Debug, PartialEq, Eq)]
pub struct Duration { pub nanos: u128 }

impl PartialOrdSpecImpl for Duration {
    open spec fn obeys_partial_cmp_spec() -> bool { true }
    open spec fn partial_cmp_spec(&self, other: &Duration) -> Option<Ordering> {
        if self.nanos < other.nanos { Some(Ordering::Less) } else if self.nanos == other.nanos { Some(Ordering::Equal) } else { Some(Ordering::Greater) }
    }
}
impl PartialOrd for Duration {
    fn partial_cmp(&self, other: &Duration) -> (r: Option<Ordering>) {
        if self.nanos < other.nanos { Some(Ordering::Less) } else if self.nanos == other.nanos { Some(Ordering::Equal) } else { Some(Ordering::Greater) }
    }
}
impl Duration {
    pub const ZERO: Duration = Duration { nanos: 0 };
}

fn f(d: Duration, e: Duration) -> (r: bool)
  ensures r == (d.nanos >= e.nanos)
{
    d >= e
}
fn f2(d: Duration, e: Duration) -> (r: bool)
  ensures r == (d.nanos > e.nanos)
{
    d > e
}
fn k(d: Duration) -> (r: bool)
  ensures r == (d.nanos == 0)
{
    match d { Duration::ZERO => true, _ => false }
}
fn k2(d: Duration, e: Duration) -> (r: bool)
  ensures r == (d.nanos == e.nanos)
{
    d == e
}
fn main() {}
}
