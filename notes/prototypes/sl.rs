#![feature(allocator_api)]
use vstd::prelude::*;
use vstd::std_specs::cmp::*;
use core::cmp::Ordering as CmpOrdering;
use std::collections::VecDeque;
verus! {
pub assume_specification<T, A: std::alloc::Allocator> [std::collections::VecDeque::<T, A>::front] (q: &std::collections::VecDeque<T, A>) -> (r: std::option::Option<&T>)
  ensures q@.len() == 0 ==> r.is_none(), q@.len() > 0 ==> r == Some(&q@[0]);

#[derive(Clone, Copy, Debug, PartialEq, Eq, Structural)]
pub struct Duration { pub nanos: u128 }
impl PartialOrdSpecImpl for Duration {
    open spec fn obeys_partial_cmp_spec() -> bool { true }
    open spec fn partial_cmp_spec(&self, other: &Duration) -> Option<CmpOrdering> {
        if self.nanos < other.nanos { Some(CmpOrdering::Less) } else if self.nanos == other.nanos { Some(CmpOrdering::Equal) } else { Some(CmpOrdering::Greater) }
    }
}
impl PartialOrd for Duration {
    fn partial_cmp(&self, other: &Duration) -> (r: Option<CmpOrdering>) {
        if self.nanos < other.nanos { Some(CmpOrdering::Less) } else if self.nanos == other.nanos { Some(CmpOrdering::Equal) } else { Some(CmpOrdering::Greater) }
    }
}
impl Duration { pub const ZERO: Duration = Duration { nanos: 0 }; }
#[derive(Clone, Copy, Debug)]
pub struct Instant { pub t: u128 }
impl Instant {
    pub fn duration_since(&self, earlier: Instant) -> (r: Duration)
        ensures r.nanos == (if self.t >= earlier.t { self.t - earlier.t } else { 0 })
    { if self.t >= earlier.t { Duration { nanos: self.t - earlier.t } } else { Duration { nanos: 0 } } }
    pub fn checked_add(&self, d: Duration) -> (r: Option<Instant>)
        ensures self.t + d.nanos <= u128::MAX ==> r == Some(Instant { t: (self.t + d.nanos) as u128 }),
                self.t + d.nanos > u128::MAX ==> r is None
    { match self.t.checked_add(d.nanos) { Some(t) => Some(Instant { t }), None => None } }
    pub fn saturating_duration_since(&self, earlier: Instant) -> (r: Duration)
        ensures r.nanos == (if self.t >= earlier.t { self.t - earlier.t } else { 0 })
    { self.duration_since(earlier) }
}
pub struct Clock { pub now: Ghost<nat> }
impl Clock {
    #[verifier::external_body]
    pub fn now(&mut self) -> (r: Instant)
        ensures r.t >= old(self).now@, final(self).now@ == r.t,
    { unimplemented!() }
}
pub fn vx_copied<T: Copy>(o: Option<&T>) -> (r: Option<T>) ensures o is None ==> r is None, o is Some ==> r == Some(*o->0) { match o { Some(x) => Some(*x), None => None } }
type AcquireResult = Result<Duration, Duration>;

pub struct SlidingLogState {
    pub limit_for_period: usize,
    pub window_duration: Duration,
    pub timeout_duration: Duration,
    pub request_log: VecDeque<Instant>,
}

impl SlidingLogState {
    pub open spec fn wf(&self, clk: Clock) -> bool {
        &&& self.request_log@.len() <= self.limit_for_period
        &&& forall|i: int, j: int| 0 <= i < j < self.request_log@.len() ==> self.request_log@[i].t <= self.request_log@[j].t
        &&& forall|i: int| 0 <= i < self.request_log@.len() ==> self.request_log@[i].t <= clk.now@
    }

    fn try_acquire(&mut self, clk: &mut Clock) -> (r: AcquireResult)
        requires old(self).wf(*old(clk)), old(self).limit_for_period >= 1,
        ensures final(self).wf(*final(clk)),
            r == Ok::<Duration, Duration>(Duration::ZERO) ==> final(self).request_log@.len() >= 1
                 && final(self).request_log@.last().t == final(clk).now@,
    {
        let now = clk.now();

        // Remove expired entries from the front
        while let Some(timestamp) = vx_copied(self.request_log.front())
            invariant self.wf(*clk), now.t == clk.now@,
                self.limit_for_period == old(self).limit_for_period,
            decreases self.request_log@.len(),
        {
            if now.duration_since(timestamp) >= self.window_duration {
                self.request_log.pop_front();
            } else {
                break;
            }
        }

        // Check if we have capacity
        if self.request_log.len() < self.limit_for_period {
            self.request_log.push_back(now);
            return Ok(Duration::ZERO);
        }

        // No capacity - calculate when the oldest request will expire
        if let Some(oldest) = vx_copied(self.request_log.front()) {
            let time_until_slot = match oldest
                .checked_add(self.window_duration) { Some(expiry) => expiry.saturating_duration_since(now), None => Duration::ZERO };

            if time_until_slot > self.timeout_duration {
                Err(self.timeout_duration)
            } else {
                Ok(time_until_slot)
            }
        } else {
            // Should not happen if limit > 0
            Ok(Duration::ZERO)
        }
    }
}
fn main() {}
}
