use vstd::prelude::*;
verus! {
pub enum SE<E> { Inner(E), Other }
fn f<R, E>(result: Result<R, E>) -> (r: Result<R, SE<E>>)
    ensures result is Ok ==> r is Ok && r->Ok_0 == result->Ok_0,
            result is Err ==> r == Err::<R, SE<E>>(SE::Inner(result->Err_0)),
{
    result.map_err(|e| SE::Inner(e))
}
fn main() {}
}
