use vstd::prelude::*;
use std::sync::Arc;
verus! {
pub enum Ordering { Relaxed }
pub struct Instant { pub t: u128 }
pub struct Duration { pub nanos: u128 }
pub struct Clock { pub now: Ghost<nat> }
impl Clock {
    #[verifier::external_body] pub fn now(&mut self) -> Instant { unimplemented!() }
    #[verifier::external_body] pub fn elapsed(&mut self, i: &Instant) -> Duration { unimplemented!() }
}
pub tracked struct Trace { pub ghost calls: nat, pub ghost unguarded: nat, pub ghost guarded: nat, pub ghost ready: bool }

// in-flight counter shim: role-specific contract for the AtomicUsize named `in_flight`
pub struct InFlightCounter {}
impl InFlightCounter {
    #[verifier::external_body]
    pub fn fetch_add(&self, v: usize, o: Ordering, Tracked(tr): Tracked<&mut Trace>) -> usize
        requires v == 1,
        ensures final(tr).unguarded == old(tr).unguarded + 1, final(tr).guarded == old(tr).guarded, final(tr).calls == old(tr).calls, final(tr).ready == old(tr).ready,
    { unimplemented!() }
    #[verifier::external_body]
    pub fn fetch_sub(&self, v: usize, o: Ordering, Tracked(tr): Tracked<&mut Trace>) -> usize
        requires v == 1, old(tr).unguarded >= 1,
        ensures final(tr).unguarded == old(tr).unguarded - 1, final(tr).guarded == old(tr).guarded, final(tr).calls == old(tr).calls, final(tr).ready == old(tr).ready,
    { unimplemented!() }
}
pub struct InnerFut<Res, E> { pub p: core::marker::PhantomData<(Res, E)> }
pub struct Inner<Req, Res, E> { pub p: core::marker::PhantomData<(Req, Res, E)> }
impl<Req, Res, E> Inner<Req, Res, E> {
    #[verifier::external_body]
    pub fn call(&mut self, req: Req, Tracked(tr): Tracked<&mut Trace>) -> (f: InnerFut<Res, E>)
        requires old(tr).ready, old(tr).unguarded == 0,   // may panic: cancellation point
        ensures final(tr).calls == old(tr).calls + 1, !final(tr).ready, final(tr).unguarded == old(tr).unguarded, final(tr).guarded == old(tr).guarded,
    { unimplemented!() }
}
impl<Res, E> InnerFut<Res, E> {
    #[verifier::external_body]
    pub fn vx_await(self, Tracked(tr): Tracked<&mut Trace>) -> (r: Result<Res, E>)
        requires old(tr).unguarded == 0,                   // cancellation point
        ensures *final(tr) == *old(tr),
    { unimplemented!() }
}
pub proof fn vx_future_created(tracked tr: &mut Trace)
    requires old(tr).unguarded == 0,                       // the future may be dropped unpolled
    ensures *final(tr) == *old(tr),
{}
pub trait Alg { fn record_success(&self, d: Duration); fn record_failure(&self); fn limit(&self) -> usize; }
pub enum AdaptiveError<E> { Service(E), LimitReached }

pub struct AdaptiveService<Req, Res, E, A> { pub inner: Inner<Req, Res, E>, pub algorithm: Arc<A>, pub in_flight: Arc<InFlightCounter> }

impl<Req, Res, E, A: Alg> AdaptiveService<Req, Res, E, A> {
    fn call(&mut self, req: Req, clk: &mut Clock, Tracked(tr): Tracked<&mut Trace>) -> (result: Result<Res, AdaptiveError<E>>)
        requires old(tr).ready, old(tr).unguarded == 0, old(tr).guarded == 0, old(tr).calls == 0,
        ensures final(tr).unguarded == 0, final(tr).guarded == 0, final(tr).calls == 1,
    {
        let start = clk.now();
        self.in_flight.fetch_add(1, Ordering::Relaxed, Tracked(tr));

        let future = self.inner.call(req, Tracked(tr));

        let algorithm = Arc::clone(&self.algorithm);
        let in_flight = Arc::clone(&self.in_flight);

        {
            proof { vx_future_created(tr); }
            {
                let result = future.vx_await(Tracked(tr));
                let latency = clk.elapsed(&start);

                // Decrement in-flight counter
                in_flight.fetch_sub(1, Ordering::Relaxed, Tracked(tr));

                match &result {
                    Ok(_) => algorithm.record_success(latency),
                    Err(_) => algorithm.record_failure(),
                }

                match result { Ok(v) => Ok(v), Err(e) => Err(AdaptiveError::Service(e)) }
            }
        }
    }
}
fn main() {}
}
