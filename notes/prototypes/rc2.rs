use vstd::prelude::*;
verus! {
pub enum Poll<T> { Ready(T), Pending }
pub struct Context {}
pub struct Duration { pub nanos: u128 }
pub struct CallFut<Res, E> { pub g: Ghost<Option<Result<Res,E>>> }
pub struct Sleep { pub d: Ghost<nat> }
pub tracked struct Trace { pub ghost calls: nat, pub ghost sleeps: nat }
impl<Res, E> CallFut<Res, E> {
    #[verifier::external_body]
    pub fn poll(&mut self, cx: &mut Context, Tracked(tr): Tracked<&mut Trace>) -> (r: Poll<Result<Res, E>>)
        ensures *final(tr) == *old(tr),
    { unimplemented!() }
}
impl Sleep {
    #[verifier::external_body]
    pub fn poll(&mut self, cx: &mut Context, Tracked(tr): Tracked<&mut Trace>) -> (r: Poll<()>)
        ensures *final(tr) == *old(tr),
    { unimplemented!() }
}
#[verifier::external_body]
pub fn vx_sleep(d: Duration) -> Sleep { unimplemented!() }

pub struct Inner<Req, Res, E> { pub p: core::marker::PhantomData<(Req, Res, E)> }
impl<Req, Res, E> Inner<Req, Res, E> {
    #[verifier::external_body]
    pub fn call(&mut self, req: Req, Tracked(tr): Tracked<&mut Trace>) -> (f: CallFut<Res, E>)
        ensures final(tr).calls == old(tr).calls + 1, final(tr).sleeps == old(tr).sleeps,
    { unimplemented!() }
}
pub trait VClone: Sized { fn clone(&self) -> (r: Self) ensures r == *self; }

pub enum Phase<F> { Calling(F), Sleeping(Sleep), Failed }
pub struct Config { pub max_attempts: Option<u32>, pub retry_on_reconnect: bool }
impl Config {
    #[verifier::external_body]
    pub fn should_reconnect<E>(&self, e: &E) -> bool { unimplemented!() }
    #[verifier::external_body]
    pub fn delay_for_attempt(&self, a: usize) -> Option<Duration> { unimplemented!() }
}
pub enum ReconnectError<E> { MaxAttemptsExceeded { attempts: u32, error: E }, ConnectionFailed(E), ConnectionFailedNoRetry(E), ServiceError(E) }

pub struct ReconnectFuture<Req, Res, E> {
    pub inner: Inner<Req, Res, E>,
    pub config: Config,
    pub request: Req,
    pub attempt: u32,
    pub last_error: Option<E>,
    pub phase: Phase<CallFut<Res, E>>,
}

impl<Req: VClone, Res, E> ReconnectFuture<Req, Res, E> {
    pub open spec fn wf(&self, tr: Trace) -> bool {
        &&& (self.phase is Calling ==> tr.calls == self.attempt + 1)
        &&& (self.phase is Sleeping ==> tr.calls == self.attempt && self.last_error is Some)
        &&& !(self.phase is Failed)
        &&& (self.config.max_attempts is Some ==> self.attempt <= self.config.max_attempts->0)
        &&& self.attempt < u32::MAX
    }

    #[verifier::exec_allows_no_decreases_clause]
    fn poll(&mut self, cx: &mut Context, Tracked(tr): Tracked<&mut Trace>) -> (r: Poll<Result<Res, ReconnectError<E>>>)
        requires old(self).wf(*old(tr)),
        ensures r is Pending ==> final(self).wf(*final(tr)),
            old(self).config.max_attempts is Some ==> final(tr).calls <= old(self).config.max_attempts->0 + 1,
    {
        

        loop
            invariant self.wf(*tr), self.config == old(self).config,
        {
            match &mut self.phase {
                Phase::Calling(call_future) => {
                    match call_future.poll(cx, Tracked(tr)) {
                        Poll::Ready(Ok(response)) => {
                            return Poll::Ready(Ok(response));
                        }
                        Poll::Ready(Err(error)) => {
                            // Check if self error should trigger reconnection
                            if !self.config.should_reconnect(&error) {
                                // Not a reconnectable error, fail immediately
                                self.phase = Phase::Failed;
                                return Poll::Ready(Err(ReconnectError::ServiceError(error)));
                            }

                            self.attempt += 1;

                            // Store the error for potential use
                            self.last_error = Some(error);

                            // Check if we've exceeded max attempts
                            if let Some(max) = self.config.max_attempts {
                                if self.attempt > max {
                                    self.phase = Phase::Failed;
                                    return Poll::Ready(Err(ReconnectError::MaxAttemptsExceeded {
                                        attempts: self.attempt,
                                        error: self.last_error.take().unwrap(),
                                    }));
                                }
                            }

                            // Get delay for self attempt
                            if let Some(delay) =
                                self.config.delay_for_attempt(self.attempt as usize)
                            {
                                self.phase = Phase::Sleeping(vx_sleep(delay));
                            } else {
                                // No backoff - fail immediately
                                self.phase = Phase::Failed;
                                let error = self.last_error.take().unwrap();
                                return Poll::Ready(Err(ReconnectError::ConnectionFailed(error)));
                            }
                        }
                        Poll::Pending => return Poll::Pending,
                    }
                }
                Phase::Sleeping(sleep) => {
                    match sleep.poll(cx, Tracked(tr)) {
                        Poll::Ready(()) => {
                            // Sleep complete - check retry_on_reconnect flag
                            if self.config.retry_on_reconnect {
                                // Retry the original request (reconnection happens via clone)
                                let call_future = self.inner.call(self.request.clone(), Tracked(tr));
                                self.phase = Phase::Calling(call_future);
                            } else {
                                self.phase = Phase::Failed;
                                let error = self.last_error.take().unwrap();
                                return Poll::Ready(Err(ReconnectError::ConnectionFailedNoRetry(
                                    error,
                                )));
                            }
                        }
                        Poll::Pending => return Poll::Pending,
                    }
                }
                Phase::Failed => {
                    assume(false); // panic!("polled after completion")
                    return Poll::Pending;
                }
            }
        }
    }
}
fn main() {}
}
