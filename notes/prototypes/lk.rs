use vstd::prelude::*;
use std::sync::Arc;
verus! {
pub struct Circuit { pub state: u8, pub count: usize }
impl Circuit {
    pub open spec fn wf(&self) -> bool { self.state <= 2 }
    pub fn try_acquire(&mut self) -> (r: bool)
        requires old(self).wf(),
        ensures final(self).wf(), old(self).state == 1 ==> !r,
    { self.state != 1 }
}
pub struct Mutex<T> { pub t: T }
pub struct Guard<'a, T> { pub r: &'a mut T }

#[verifier::external_body]
pub fn vx_lock<'a>(m: &'a Arc<Mutex<Circuit>>) -> (g: &'a mut Circuit)
    ensures g.wf(),
{ unimplemented!() }

fn body(circuit: Arc<Mutex<Circuit>>) -> (r: bool)
{
    let permitted = {
        let circuit = vx_lock(&circuit);
        circuit.try_acquire()
    };
    permitted
}
fn main() {}
}
