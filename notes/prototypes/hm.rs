use vstd::prelude::*;
use std::collections::HashMap;
use std::hash::Hash;
verus! {
pub struct Sender { pub id: u64 }
pub struct Receiver { pub id: u64 }
impl Sender {
    #[verifier::external_body]
    pub fn subscribe(&self) -> (r: Receiver) ensures r.id == self.id { unimplemented!() }
}
#[verifier::external_body]
pub fn channel(cap: usize) -> (r: (Sender, Receiver)) ensures r.0.id == r.1.id { unimplemented!() }

pub struct InFlight<K> { pub requests: HashMap<K, Sender> }

impl<K: Hash + Eq + Clone> InFlight<K> {
    fn try_join(&mut self, key: K) -> (r: Option<Receiver>)
        requires vstd::std_specs::hash::obeys_key_model::<K>(),
        ensures
            old(self).requests@.contains_key(key) ==> r is Some && r->0.id == old(self).requests@[key].id && final(self).requests@ == old(self).requests@,
            !old(self).requests@.contains_key(key) ==> r is None && final(self).requests@.dom() == old(self).requests@.dom().insert(key),
    {
        let requests = &mut self.requests;
        if let Some(sender) = requests.get(&key) {
            Some(sender.subscribe())
        } else {
            let (tx, _rx) = channel(1);
            requests.insert(key, tx);
            None
        }
    }
    fn cancel(&mut self, key: &K)
        requires vstd::std_specs::hash::obeys_key_model::<K>(),
        ensures final(self).requests@ == old(self).requests@.remove(*key),
    {
        let requests = &mut self.requests;
        requests.remove(key);
    }
}
fn main() {}
}
