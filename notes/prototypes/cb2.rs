#![feature(allocator_api)]
use vstd::prelude::*;
use vstd::std_specs::cmp::*;
use core::cmp::Ordering as CmpOrdering;
use std::collections::VecDeque;
verus! {
// ---------- prelude ----------
#[derive(Clone, Copy, Debug, PartialEq, Eq)]
pub struct Duration { pub nanos: u128 }
impl PartialOrdSpecImpl for Duration {
    open spec fn obeys_partial_cmp_spec() -> bool { true }
    open spec fn partial_cmp_spec(&self, other: &Duration) -> Option<CmpOrdering> {
        if self.nanos < other.nanos { Some(CmpOrdering::Less) } else if self.nanos == other.nanos { Some(CmpOrdering::Equal) } else { Some(CmpOrdering::Greater) }
    }
}
impl PartialOrd for Duration {
    fn partial_cmp(&self, other: &Duration) -> (r: Option<CmpOrdering>) {
        if self.nanos < other.nanos { Some(CmpOrdering::Less) } else if self.nanos == other.nanos { Some(CmpOrdering::Equal) } else { Some(CmpOrdering::Greater) }
    }
}
#[derive(Clone, Copy, Debug)]
pub struct Instant { pub t: u128 }
pub struct Clock { pub now: Ghost<nat> }
impl Clock {
    #[verifier::external_body]
    pub fn now(&mut self) -> (r: Instant) ensures r.t >= old(self).now@, final(self).now@ == r.t, { unimplemented!() }
}
pub struct MirrorU8 { pub v: u8 }
pub enum Ordering { Release, Acquire, Relaxed }
impl MirrorU8 { pub fn store(&mut self, v: u8, o: Ordering) ensures final(self).v == v { self.v = v; } }

// float leaves (contracts proved by Kani on the same text)
pub uninterp spec fn rate_ge(count: usize, total: usize, thr: f64) -> bool;
#[verifier::external_body]
fn vx_leaf_failure_rate(failure_count: usize, total_count: usize) -> (r: f64) { failure_count as f64 / total_count as f64 }
#[verifier::external_body]
fn vx_leaf_slow_call_rate(slow_call_count: usize, total_count: usize) -> (r: f64) { slow_call_count as f64 / total_count as f64 }

// ghost history
pub struct Outcome { pub fail: bool, pub slow: bool }
pub tracked struct Gh { pub ghost hist: Seq<Outcome>, pub ghost fails: nat, pub ghost slows: nat }
impl Gh {
    pub open spec fn push(self, o: Outcome) -> Gh {
        Gh { hist: self.hist.push(o), fails: self.fails + if o.fail { 1nat } else { 0nat }, slows: self.slows + if o.slow { 1nat } else { 0nat } }
    }
    pub open spec fn empty() -> Gh { Gh { hist: Seq::empty(), fails: 0, slows: 0 } }
    pub proof fn do_push(tracked &mut self, o: Outcome) ensures *final(self) == old(self).push(o) {
        self.hist = self.hist.push(o);
        self.fails = self.fails + if o.fail { 1nat } else { 0nat };
        self.slows = self.slows + if o.slow { 1nat } else { 0nat };
    }
    pub proof fn do_clear(tracked &mut self) ensures *final(self) == Gh::empty() {
        self.hist = Seq::empty(); self.fails = 0; self.slows = 0;
    }
}

// ---------- extracted types ----------
#[derive(Debug, Clone, Copy, PartialEq, Eq, Structural)]
#[repr(u8)]
pub enum CircuitState { Closed = 0, Open = 1, HalfOpen = 2 }
#[derive(Debug, Clone, Copy, PartialEq, Eq, Structural)]
pub enum SlidingWindowType { CountBased, TimeBased }
pub struct CircuitBreakerConfig<C> {
    pub failure_rate_threshold: f64,
    pub sliding_window_type: SlidingWindowType,
    pub sliding_window_size: usize,
    pub sliding_window_duration: Option<Duration>,
    pub wait_duration_in_open: Duration,
    pub permitted_calls_in_half_open: usize,
    pub minimum_number_of_calls: usize,
    pub failure_classifier: C,
    pub slow_call_duration_threshold: Option<Duration>,
    pub slow_call_rate_threshold: f64,
}
pub struct CallRecord { pub timestamp: Instant, pub is_failure: bool, pub is_slow: bool }
pub struct Circuit {
    pub state: CircuitState,
    pub state_atomic: MirrorU8,
    pub last_state_change: Instant,
    pub failure_count: usize,
    pub success_count: usize,
    pub total_count: usize,
    pub slow_call_count: usize,
    pub call_records: VecDeque<CallRecord>,
}

pub open spec fn is_slow_spec<C>(config: &CircuitBreakerConfig<C>, d: Duration) -> bool {
    config.slow_call_duration_threshold is Some && d.nanos >= config.slow_call_duration_threshold->0.nanos
}

impl Circuit {
    pub open spec fn wf(&self, gh: Gh) -> bool {
        &&& self.state_atomic.v == self.state as u8
        &&& self.total_count == gh.hist.len()
        &&& self.failure_count == gh.fails
        &&& self.slow_call_count == gh.slows
        &&& self.success_count + self.failure_count == self.total_count
        &&& self.total_count < usize::MAX
    }
    pub open spec fn should_open<C>(&self, config: &CircuitBreakerConfig<C>) -> bool {
        &&& self.total_count >= config.minimum_number_of_calls
        &&& self.total_count >= config.sliding_window_size
        &&& (rate_ge(self.failure_count, self.total_count, config.failure_rate_threshold)
             || (config.slow_call_duration_threshold is Some && rate_ge(self.slow_call_count, self.total_count, config.slow_call_rate_threshold)))
    }

    pub fn record_failure<C>(&mut self, config: &CircuitBreakerConfig<C>, duration: Duration, clk: &mut Clock, Tracked(gh): Tracked<&mut Gh>)
        requires old(self).wf(*old(gh)), config.sliding_window_type == SlidingWindowType::CountBased,
        ensures final(self).wf(*final(gh)),
            old(self).state == CircuitState::HalfOpen ==> final(self).state == CircuitState::Open && *final(gh) == Gh::empty(),
            old(self).state == CircuitState::Open ==> final(self).state == CircuitState::Open,
    {
        let is_slow = match config
            .slow_call_duration_threshold { Some(threshold) => duration >= threshold, None => false };

        // Update statistics based on window type
        match config.sliding_window_type {
            SlidingWindowType::CountBased => {
                self.failure_count += 1;
                self.total_count += 1;
                if is_slow {
                    self.slow_call_count += 1;
                }
                proof { gh.do_push(Outcome { fail: true, slow: is_slow }); }
            }
            SlidingWindowType::TimeBased => {
            }
        }

        match self.state {
            CircuitState::HalfOpen => {
                self.transition_to(CircuitState::Open, config, clk, Tracked(gh));
            }
            _ => {
                self.evaluate_window(config, clk, Tracked(gh));
            }
        }
    }

    fn transition_to<C>(&mut self, state: CircuitState, config: &CircuitBreakerConfig<C>, clk: &mut Clock, Tracked(gh): Tracked<&mut Gh>)
        requires old(self).state_atomic.v == old(self).state as u8,
        ensures
            old(self).state == state ==> *final(self) == *old(self) && *final(gh) == *old(gh),
            old(self).state != state ==> final(self).state == state && *final(gh) == Gh::empty() && final(self).wf(*final(gh))
                && final(self).success_count == 0 && final(self).call_records@.len() == 0,
    {
        if self.state == state {
            return;
        }

        let from_state = self.state;

        self.state = state;
        self.state_atomic.store(state as u8, Ordering::Release);
        self.last_state_change = clk.now();
        self.success_count = 0;
        self.failure_count = 0;
        self.total_count = 0;
        self.slow_call_count = 0;
        self.call_records.clear();
        proof { gh.do_clear(); }
    }

    fn evaluate_window<C>(&mut self, config: &CircuitBreakerConfig<C>, clk: &mut Clock, Tracked(gh): Tracked<&mut Gh>)
        requires old(self).wf(*old(gh)), config.sliding_window_type == SlidingWindowType::CountBased,
        ensures final(self).wf(*final(gh)),
            old(self).should_open(config) ==> final(self).state == CircuitState::Open,
            !old(self).should_open(config) ==> *final(self) == *old(self) && *final(gh) == *old(gh),
    {
        let (total_count, failure_count, _success_count, slow_call_count) =
            match config.sliding_window_type {
                SlidingWindowType::CountBased => (
                    self.total_count,
                    self.failure_count,
                    self.success_count,
                    self.slow_call_count,
                ),
                SlidingWindowType::TimeBased => {
                    (0, 0, 0, 0)
                }
            };

        // Don't evaluate until minimum calls threshold is met
        if total_count < config.minimum_number_of_calls {
            return;
        }

        // For count-based window, also check if window is full
        if config.sliding_window_type == SlidingWindowType::CountBased
            && total_count < config.sliding_window_size
        {
            return;
        }

        let failure_rate = vx_leaf_failure_rate(failure_count, total_count);
        let slow_call_rate = vx_leaf_slow_call_rate(slow_call_count, total_count);

        // Open if either failure rate or slow call rate exceeds threshold
        let should_open = failure_rate >= config.failure_rate_threshold
            || (config.slow_call_duration_threshold.is_some()
                && slow_call_rate >= config.slow_call_rate_threshold);

        if should_open {
            self.transition_to(CircuitState::Open, config, clk, Tracked(gh));
        }
    }
}
fn main() {}
}
