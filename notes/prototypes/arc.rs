use vstd::prelude::*;
use std::sync::Arc;
verus! {
pub assume_specification<T> [std::mem::replace] (dest: &mut T, src: T) -> (r: T) ensures r == *old(dest), *final(dest) == src;
pub struct Cfg { pub n: usize }
pub struct Svc { pub config: Arc<Cfg>, pub inner: u64 }
impl Svc {
    fn call(&mut self) -> (r: usize)
        ensures r == old(self).config.n
    {
        let config = Arc::clone(&self.config);
        let inner = self.inner.clone();
        let old = std::mem::replace(&mut self.inner, inner);
        config.n
    }
}
fn main() {}
}
