use vstd::prelude::*;
verus! {
pub trait EvictionStore<K, V> {
    spec fn view(&self) -> Map<K, V>;
    fn get(&mut self, key: &K) -> (r: Option<&V>)
        ensures final(self).view() == old(self).view(),
            old(self).view().contains_key(*key) ==> r == Some(&old(self).view()[*key]),
            !old(self).view().contains_key(*key) ==> r is None;
    fn len(&self) -> (r: usize) ensures r == self.view().len();
}
#[verifier::reject_recursive_types(K)]
#[verifier::reject_recursive_types(V)]
pub struct CacheStore<K, V> {
    pub store: Box<dyn EvictionStore<K, V>>,
}
impl<K, V: Copy> CacheStore<K, V> {
    fn get(&mut self, key: &K) -> (r: Option<V>)
        ensures old(self).store.view().contains_key(*key) ==> r == Some(old(self).store.view()[*key]),
    {
        let entry = self.store.get(key)?;
        Some(*entry)
    }
}
fn main() {}
}
