use vstd::prelude::*;
verus! {
#[derive(Debug, Clone, Copy, PartialEq, Eq, Structural)]
#[repr(u8)]
pub enum CircuitState { Closed = 0, Open = 1, HalfOpen = 2 }

fn k2(d: CircuitState, e: CircuitState) -> (r: bool)
  ensures r == (d == e)
{
    d == e
}
fn main() {}
}
