use vstd::prelude::*;
verus! {

// ---------- prelude ----------
#[derive(Clone, Copy, Debug, PartialEq, Eq, Structural)]
pub struct Duration { pub nanos: u128 }

pub enum Ev<Req, Res, E> {
    InnerCall(Req),
    InnerDone(Result<Res, E>),
    Sleep(Duration),
    Withdraw(bool),
    Deposit,
}
pub tracked struct Trace<Req, Res, E> { pub ghost ev: Seq<Ev<Req, Res, E>>, pub ghost calls: nat }

pub trait VClone: Sized { fn clone(&self) -> (r: Self) ensures r == *self; }

pub struct InnerFut<Res, E> { pub out: Ghost<Result<Res, E>> }
pub struct Inner<Req, Res, E> { pub p: core::marker::PhantomData<(Req, Res, E)> }
impl<Req, Res, E> Inner<Req, Res, E> {
    #[verifier::external_body]
    pub fn call(&mut self, req: Req, Tracked(tr): Tracked<&mut Trace<Req, Res, E>>) -> (f: InnerFut<Res, E>)
        ensures final(tr).ev == old(tr).ev.push(Ev::InnerCall(req)), final(tr).calls == old(tr).calls + 1,
    { unimplemented!() }
}
impl<Res, E> InnerFut<Res, E> {
    #[verifier::external_body]
    pub fn vx_await<Req>(self, Tracked(tr): Tracked<&mut Trace<Req, Res, E>>) -> (r: Result<Res, E>)
        ensures final(tr).ev == old(tr).ev.push(Ev::InnerDone(r)), final(tr).calls == old(tr).calls,
    { unimplemented!() }
}
#[verifier::external_body]
pub fn vx_sleep<Req, Res, E>(d: Duration, Tracked(tr): Tracked<&mut Trace<Req, Res, E>>)
    ensures final(tr).ev == old(tr).ev.push(Ev::Sleep(d)), final(tr).calls == old(tr).calls,
{ unimplemented!() }

pub struct Budget {}
impl Budget {
    #[verifier::external_body]
    pub fn try_withdraw<Req, Res, E>(&self, Tracked(tr): Tracked<&mut Trace<Req, Res, E>>) -> (r: bool)
        ensures final(tr).ev == old(tr).ev.push(Ev::Withdraw(r)), final(tr).calls == old(tr).calls,
    { unimplemented!() }
    #[verifier::external_body]
    pub fn deposit<Req, Res, E>(&self, Tracked(tr): Tracked<&mut Trace<Req, Res, E>>)
        ensures final(tr).ev == old(tr).ev.push(Ev::Deposit), final(tr).calls == old(tr).calls,
    { unimplemented!() }
}
pub uninterp spec fn backoff_spec(attempt: usize) -> Duration;
pub struct Policy<P> { pub pred: Option<P> }
impl<P> Policy<P> {
    pub fn should_retry<E>(&self, error: &E) -> (r: bool)
        where P: Fn(&E) -> bool,
        requires self.pred is Some ==> call_requires(self.pred->0, (error,)),
        ensures self.pred is None ==> r, self.pred is Some ==> call_ensures(self.pred->0, (error,), r),
    {
        if let Some(predicate) = &self.pred {
            predicate(error)
        } else {
            true
        }
    }
    #[verifier::external_body]
    pub fn next_backoff(&self, attempt: usize) -> (r: Duration) ensures r == backoff_spec(attempt) { unimplemented!() }
}
pub struct RetryConfig<P> { pub policy: Policy<P>, pub budget: Option<Budget> }

pub open spec fn count_calls<Req, Res, E>(s: Seq<Ev<Req, Res, E>>) -> nat
    decreases s.len()
{
    if s.len() == 0 { 0 } else { count_calls(s.drop_last()) + (if s.last() is InnerCall { 1nat } else { 0nat }) }
}

// ---------- extracted body (await-erased) ----------
fn retry_call<Req: VClone, Res, E, P: Fn(&E) -> bool>(
    service: &mut Inner<Req, Res, E>, config: &RetryConfig<P>, req: Req, max_attempts: usize,
    Tracked(tr): Tracked<&mut Trace<Req, Res, E>>,
) -> (result: Result<Res, E>)
    requires old(tr).ev.len() == 0, old(tr).calls == 0,
        config.policy.pred is Some ==> forall|e: &E| call_requires(config.policy.pred->0, (e,)),
    ensures
        1 <= final(tr).calls,
        final(tr).calls <= (if max_attempts >= 1 { max_attempts } else { 1 }),
        final(tr).ev.last() == Ev::<Req, Res, E>::InnerDone(result) || (final(tr).ev.last() is Withdraw) || (final(tr).ev.last() is Deposit),
{
            let mut attempt = 0;

            loop
                invariant
                    tr.calls == attempt,
                    attempt == 0 || attempt < max_attempts,
                    config.policy.pred is Some ==> forall|e: &E| call_requires(config.policy.pred->0, (e,)),
                decreases (if max_attempts >= 1 { max_attempts } else { 1 }) - attempt,
            {
                let result = service.call(req.clone(), Tracked(tr)).vx_await(Tracked(tr));

                match result {
                    Ok(response) => {
                        // Success - deposit to budget if configured
                        if let Some(ref budget) = config.budget {
                            budget.deposit(Tracked(tr));
                        }
                        return Ok(response);
                    }
                    Err(error) => {
                        // Check if we should retry this error
                        if !config.policy.should_retry(&error) {
                            return Err(error);
                        }

                        // Check if we've exhausted retries (use per-request max_attempts)
                        if attempt + 1 >= max_attempts {
                            return Err(error);
                        }

                        // Check retry budget if configured
                        if let Some(ref budget) = config.budget {
                            if !budget.try_withdraw(Tracked(tr)) {
                                return Err(error);
                            }
                        }

                        // Calculate backoff and retry
                        let delay = config.policy.next_backoff(attempt);

                        vx_sleep(delay, Tracked(tr));
                        attempt += 1;
                    }
                }
            }
}
fn main() {}
}
