#![feature(allocator_api)]
use vstd::prelude::*;
use vstd::std_specs::cmp::*;
use core::cmp::Ordering as CmpOrdering;
use std::collections::VecDeque;
verus! {

// ---------- prelude (hand-written shims) ----------
#[derive(Clone, Copy, Debug, PartialEq, Eq)]
pub struct Duration { pub nanos: u128 }
impl PartialOrdSpecImpl for Duration {
    open spec fn obeys_partial_cmp_spec() -> bool { true }
    open spec fn partial_cmp_spec(&self, other: &Duration) -> Option<CmpOrdering> {
        if self.nanos < other.nanos { Some(CmpOrdering::Less) } else if self.nanos == other.nanos { Some(CmpOrdering::Equal) } else { Some(CmpOrdering::Greater) }
    }
}
impl PartialOrd for Duration {
    fn partial_cmp(&self, other: &Duration) -> (r: Option<CmpOrdering>) {
        if self.nanos < other.nanos { Some(CmpOrdering::Less) } else if self.nanos == other.nanos { Some(CmpOrdering::Equal) } else { Some(CmpOrdering::Greater) }
    }
}
#[derive(Clone, Copy, Debug)]
pub struct Instant { pub t: u128 }

pub struct Clock { pub now: Ghost<nat> }
impl Clock {
    #[verifier::external_body]
    pub fn now(&mut self) -> (r: Instant)
        ensures r.t >= old(self).now@, final(self).now@ == r.t,
    { unimplemented!() }
    #[verifier::external_body]
    pub fn elapsed(&mut self, since: Instant) -> (r: Duration)
        ensures final(self).now@ >= old(self).now@,
                r.nanos == (if final(self).now@ >= since.t { final(self).now@ - since.t } else { 0 }),
    { unimplemented!() }
}
pub struct MirrorU8 { pub v: u8 }
pub enum Ordering { Release, Acquire, Relaxed }
impl MirrorU8 {
    pub fn store(&mut self, v: u8, o: Ordering) ensures final(self).v == v { self.v = v; }
}

#[verifier::external_body]
fn vx_ratio(a: usize, b: usize) -> (r: f64) { a as f64 / b as f64 }

// ---------- extracted types ----------
#[derive(Debug, Clone, Copy, PartialEq, Eq, Structural)]
#[repr(u8)]
pub enum CircuitState { Closed = 0, Open = 1, HalfOpen = 2 }

#[derive(Debug, Clone, Copy, PartialEq, Eq, Structural)]
pub enum SlidingWindowType { CountBased, TimeBased }

pub struct CircuitBreakerConfig<C> {
    pub failure_rate_threshold: f64,
    pub sliding_window_type: SlidingWindowType,
    pub sliding_window_size: usize,
    pub sliding_window_duration: Option<Duration>,
    pub wait_duration_in_open: Duration,
    pub permitted_calls_in_half_open: usize,
    pub minimum_number_of_calls: usize,
    pub failure_classifier: C,
    pub slow_call_duration_threshold: Option<Duration>,
    pub slow_call_rate_threshold: f64,
}

pub struct CallRecord { pub timestamp: Instant, pub is_failure: bool, pub is_slow: bool }

pub struct Circuit {
    pub state: CircuitState,
    pub state_atomic: MirrorU8,
    pub last_state_change: Instant,
    pub failure_count: usize,
    pub success_count: usize,
    pub total_count: usize,
    pub slow_call_count: usize,
    pub call_records: VecDeque<CallRecord>,
}

impl Circuit {
    pub open spec fn wf(&self) -> bool {
        self.state_atomic.v == self.state as u8
    }

    pub fn try_acquire<C>(&mut self, config: &CircuitBreakerConfig<C>, clk: &mut Clock) -> (r: bool)
        requires old(self).wf(),
        ensures final(self).wf(),
            old(self).state == CircuitState::Closed ==> r && final(self).state == CircuitState::Closed,
            old(self).state == CircuitState::Open && !r ==> final(self).state == CircuitState::Open,
            old(self).state == CircuitState::Open && r ==> final(self).state == CircuitState::HalfOpen
                 && final(clk).now@ - old(self).last_state_change.t >= config.wait_duration_in_open.nanos,
    {
        match self.state {
            CircuitState::Closed => {
                true
            }
            CircuitState::Open => {
                if clk.elapsed(self.last_state_change) >= config.wait_duration_in_open {
                    self.transition_to(CircuitState::HalfOpen, config, clk);
                    true
                } else {
                    false
                }
            }
            CircuitState::HalfOpen => {
                let permitted =
                    self.success_count + self.failure_count < config.permitted_calls_in_half_open;
                if permitted {
                } else {
                }
                permitted
            }
        }
    }

    fn transition_to<C>(&mut self, state: CircuitState, config: &CircuitBreakerConfig<C>, clk: &mut Clock)
        requires old(self).wf(),
        ensures final(self).wf(), final(self).state == state,
           final(clk).now@ >= old(clk).now@,
    {
        if self.state == state {
            return;
        }

        let from_state = self.state;

        self.state = state;
        self.state_atomic.store(state as u8, Ordering::Release);
        self.last_state_change = clk.now();
        self.success_count = 0;
        self.failure_count = 0;
        self.total_count = 0;
        self.slow_call_count = 0;
        self.call_records.clear();
    }
}
fn main() {}
}
