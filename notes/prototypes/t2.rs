use vstd::prelude::*;
use vstd::atomic_ghost::*;
verus! {

struct_with_invariants!{
    pub struct Ctl {
        pub limit: AtomicUsize<_, (), _>,
        pub min: usize,
        pub max: usize,
    }
    pub open spec fn wf(&self) -> bool {
        invariant on limit with (min, max) is (v: usize, g: ()) {
            min <= v && v <= max
        }
    }
}

impl Ctl {
    fn limit(&self) -> (r: usize)
        requires self.wf(), self.min <= self.max,
        ensures self.min <= r <= self.max,
    {
        let r = atomic_with_ghost!(&self.limit => load(); ghost g => { });
        r
    }
    fn record_success(&self, inc: usize)
        requires self.wf(), self.min <= self.max,
    {
        let current = atomic_with_ghost!(&self.limit => load(); ghost g => { });
        let s = current.saturating_add(inc);
        let new_limit = if s < self.max { s } else { self.max };
        atomic_with_ghost!(&self.limit => store(new_limit); ghost g => { });
    }
}
fn main() {}
}
