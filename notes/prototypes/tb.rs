use vstd::prelude::*;
use vstd::atomic_ghost::*;
verus! {
pub enum Ordering { Relaxed }

pub struct GB { pub granted: nat, pub deposited: nat }

struct_with_invariants!{
    pub struct TokenBucketBudget {
        pub tokens: AtomicU64<_, GB, _>,
        pub max_tokens: u64,
        pub initial: Ghost<nat>,
    }
    pub open spec fn wf(&self) -> bool {
        invariant on tokens with (max_tokens, initial) is (v: u64, g: GB) {
            v as nat + g.granted * 1000 <= initial@ + g.deposited * 1000
        }
    }
}

impl TokenBucketBudget {
    #[verifier::exec_allows_no_decreases_clause]
    fn try_withdraw(&self) -> (r: bool)
        requires self.wf(),
    {
        const SCALE: u64 = 1000;
        loop
            invariant self.wf(),
        {
            let current = atomic_with_ghost!(&self.tokens => load(); ghost g => { });
            if current < SCALE {
                return false;
            }
            let new_tokens = current - SCALE;
            if atomic_with_ghost!(&self.tokens => compare_exchange_weak(current, new_tokens);
                   returning ret; ghost g => { if ret.is_ok() { g = GB { granted: g.granted + 1, deposited: g.deposited }; } })
                .is_ok()
            {
                return true;
            }
        }
    }

    fn deposit_racy(&self)
        requires self.wf(), self.max_tokens <= u64::MAX - 1000,
    {
        const SCALE: u64 = 1000;
        let current = atomic_with_ghost!(&self.tokens => load(); ghost g => { });
        let s = (current + SCALE);
        let new_tokens = if s < self.max_tokens { s } else { self.max_tokens };
        atomic_with_ghost!(&self.tokens => store(new_tokens); ghost g => { g = GB { granted: g.granted, deposited: g.deposited + 1 }; });
    }
}
fn main() {}
}
