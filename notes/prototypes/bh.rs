use vstd::prelude::*;
use std::sync::Arc;
verus! {
// ---------- prelude ----------
#[derive(Clone, Copy)]
pub struct Duration { pub nanos: u128 }
pub enum Ev<Req, Res, E> {
    InnerCall(Req), InnerDone(Result<Res, E>),
    AcquireOk(int), AcquireClosed, TimedOut(Duration), Release(int),
}
pub tracked struct Trace<Req, Res, E> { pub ghost ev: Seq<Ev<Req, Res, E>>, pub ghost calls: nat, pub ghost held: Set<int> }

pub struct Semaphore { pub n: usize }
pub struct OwnedSemaphorePermit { pub id: Ghost<int> }
pub struct AcquireError {}
pub struct Elapsed {}
pub struct AcquireFut {}
pub struct TimeoutAcq { pub d: Duration }
impl Semaphore {
    #[verifier::external_body]
    pub fn acquire_owned(self: Arc<Self>) -> AcquireFut { unimplemented!() }
    #[verifier::external_body]
    pub fn available_permits(&self) -> (r: usize) ensures r <= self.n { unimplemented!() }
}
impl AcquireFut {
    #[verifier::external_body]
    pub fn vx_await<Req, Res, E>(self, Tracked(tr): Tracked<&mut Trace<Req, Res, E>>) -> (r: Result<OwnedSemaphorePermit, AcquireError>)
        ensures final(tr).calls == old(tr).calls,
            r is Ok ==> final(tr).ev == old(tr).ev.push(Ev::AcquireOk(r->Ok_0.id@)) && final(tr).held == old(tr).held.insert(r->Ok_0.id@) && !old(tr).held.contains(r->Ok_0.id@),
            r is Err ==> final(tr).ev == old(tr).ev.push(Ev::AcquireClosed) && final(tr).held == old(tr).held,
    { unimplemented!() }
}
#[verifier::external_body]
pub fn timeout(d: Duration, f: AcquireFut) -> (r: TimeoutAcq) ensures r.d == d { unimplemented!() }
impl TimeoutAcq {
    #[verifier::external_body]
    pub fn vx_await<Req, Res, E>(self, Tracked(tr): Tracked<&mut Trace<Req, Res, E>>) -> (r: Result<Result<OwnedSemaphorePermit, AcquireError>, Elapsed>)
        ensures final(tr).calls == old(tr).calls,
            r matches Ok(Ok(p)) ==> final(tr).ev == old(tr).ev.push(Ev::AcquireOk(p.id@)) && final(tr).held == old(tr).held.insert(p.id@) && !old(tr).held.contains(p.id@),
            r matches Ok(Err(_)) ==> final(tr).ev == old(tr).ev.push(Ev::AcquireClosed) && final(tr).held == old(tr).held,
            r is Err ==> final(tr).ev == old(tr).ev.push(Ev::TimedOut(self.d)) && final(tr).held == old(tr).held,
    { unimplemented!() }
}
#[verifier::external_body]
pub fn drop<Req, Res, E>(p: OwnedSemaphorePermit, Tracked(tr): Tracked<&mut Trace<Req, Res, E>>)
    requires old(tr).held.contains(p.id@),
    ensures final(tr).ev == old(tr).ev.push(Ev::Release(p.id@)), final(tr).held == old(tr).held.remove(p.id@), final(tr).calls == old(tr).calls,
{ unimplemented!() }

pub struct InnerFut<Req, Res, E> { pub p: core::marker::PhantomData<(Req, Res, E)> }
pub struct Inner<Req, Res, E> { pub p: core::marker::PhantomData<(Req, Res, E)> }
impl<Req, Res, E> Inner<Req, Res, E> {
    #[verifier::external_body]
    pub fn call(&mut self, req: Req, Tracked(tr): Tracked<&mut Trace<Req, Res, E>>) -> (f: InnerFut<Req, Res, E>)
        requires old(tr).held.len() > 0,     // C01: a permit is held when the inner call starts
        ensures final(tr).ev == old(tr).ev.push(Ev::InnerCall(req)), final(tr).calls == old(tr).calls + 1, final(tr).held == old(tr).held,
    { unimplemented!() }
}
impl<Req, Res, E> InnerFut<Req, Res, E> {
    #[verifier::external_body]
    pub fn vx_await(self, Tracked(tr): Tracked<&mut Trace<Req, Res, E>>) -> (r: Result<Res, E>)
        requires old(tr).held.len() > 0,     // C01: still held while the inner future runs
        ensures final(tr).ev == old(tr).ev.push(Ev::InnerDone(r)), final(tr).calls == old(tr).calls, final(tr).held == old(tr).held,
    { unimplemented!() }
}

// ---------- extracted types ----------
pub enum BulkheadError { BulkheadFull { max_concurrent_calls: usize }, Timeout }
pub enum BulkheadServiceError<E> { Bulkhead(BulkheadError), Inner(E) }
impl<E> vstd::std_specs::convert::FromSpecImpl<BulkheadError> for BulkheadServiceError<E> {
    open spec fn obeys_from_spec() -> bool { true }
    open spec fn from_spec(e: BulkheadError) -> Self { BulkheadServiceError::Bulkhead(e) }
}
impl<E> From<BulkheadError> for BulkheadServiceError<E> {
    fn from(e: BulkheadError) -> (r: Self) ensures r == BulkheadServiceError::<E>::Bulkhead(e) { BulkheadServiceError::Bulkhead(e) }
}
pub struct BulkheadConfig { pub max_concurrent_calls: usize, pub max_wait_duration: Option<Duration> }
pub struct Bulkhead<Req, Res, E> { pub inner: Inner<Req, Res, E>, pub semaphore: Arc<Semaphore>, pub config: Arc<BulkheadConfig> }

impl<Req, Res, E> Bulkhead<Req, Res, E> {
    fn call(&mut self, request: Req, Tracked(tr): Tracked<&mut Trace<Req, Res, E>>) -> (result: Result<Res, BulkheadServiceError<E>>)
        requires old(tr).held.len() == 0, old(tr).calls == 0, old(self).semaphore.n == old(self).config.max_concurrent_calls,
        ensures final(tr).held.len() == 0, final(tr).calls <= 1,
            (result matches Err(BulkheadServiceError::Bulkhead(_))) ==> final(tr).calls == 0,
    {
        let semaphore = Arc::clone(&self.semaphore);
        let semaphore_for_check = Arc::clone(&self.semaphore);
        let config = Arc::clone(&self.config);
        let mut inner = &mut self.inner;

        {
            // Try to acquire a permit
            let permit = match config.max_wait_duration {
                Some(duration) => {
                    match timeout(duration, semaphore.acquire_owned()).vx_await(Tracked(tr)) {
                        Ok(Ok(permit)) => permit,
                        Ok(Err(_)) => {
                            return Err(BulkheadError::BulkheadFull {
                                max_concurrent_calls: config.max_concurrent_calls,
                            }
                            .into());
                        }
                        Err(_) => {
                            return Err(BulkheadError::Timeout.into());
                        }
                    }
                }
                None => {
                    // Wait indefinitely
                    match semaphore.acquire_owned().vx_await(Tracked(tr)) {
                        Ok(permit) => permit,
                        Err(_) => {
                            return Err(BulkheadError::BulkheadFull {
                                max_concurrent_calls: config.max_concurrent_calls,
                            }
                            .into());
                        }
                    }
                }
            };

            // Emit call permitted event
            let concurrent_calls =
                config.max_concurrent_calls - semaphore_for_check.available_permits();

            // Call the inner service
            let result = inner.call(request, Tracked(tr)).vx_await(Tracked(tr));

            // Drop the permit to release the slot
            drop(permit, Tracked(tr));

            match result { Ok(v) => Ok(v), Err(e) => Err(BulkheadServiceError::Inner(e)) }
        }
    }
}
fn main() {}
}
