import sys
from .cli import main
sys.exit(main(sys.argv[1:]))
