"""Build one verification unit from /repo's working tree and run Verus on it."""
import importlib.util
import json
import os
import re
import subprocess
import time
import glob as globmod

from .rustsrc import Source, Undecided, mask, strip_comments, match_close, first_body_brace, param_names, brace_depths
from . import rewrite
from . import inline

VERIF = os.path.dirname(os.path.dirname(os.path.abspath(__file__)))
REPO = os.environ.get("VX_REPO", "/repo")

LABEL_RE = re.compile(r"//\s*#([\w\-\.]+)(?:\s*\[([\w,\s]*)\])?\s*$")

VERIF_ERRORS = [
    "postcondition not satisfied", "precondition not satisfied", "assertion failed",
    "possible arithmetic underflow/overflow", "invariant not satisfied",
    "Cannot show invariant holds", "possible division by zero", "decreases not satisfied",
    "could not prove termination", "may fail to meet its declared type invariant",
    "possible bit shift underflow/overflow", "unreachable", "loop invariant", "assertion failure",
    "failed precondition", "not satisfied", "possible out-of-bounds", "index out of bounds",
    "cannot prove", "cannot show", "Cannot show", "recommendation not met",
]
TOOL_ERRORS = ["Resource limit (rlimit) exceeded", "rlimit", "timed out", "could not determine"]


def load_unit(name):
    path = os.path.join(VERIF, "units", name, "unit.py")
    spec = importlib.util.spec_from_file_location("vx_unit_" + name, path)
    mod = importlib.util.module_from_spec(spec)
    spec.loader.exec_module(mod)
    u = dict(mod.UNIT)
    u["name"] = name
    u["dir"] = os.path.dirname(path)
    return u


class Generated:
    def __init__(self):
        self.lines = []          # generated lines
        self.origin = []         # per line: (kind, info)
        self.labels = {}         # line(1-based) -> (label, tags, clause text)
        self.bodies = {}         # fnpath -> (first line, last line) of the inserted body
        self.contracted = []     # dicts: fnpath, name, region (start,end) lines, src file, src line
        self.rules_applied = {}
        self.notwin = set()
        self.leaves = {}         # "<fn>/<let>" -> dict(expr, free, src, fn): float leaves lifted by R14
        self.padded = []         # (fn name, contract params, real params, fnpath): R16-pad
        self.inlined = []        # R19: "<helper> (defined at line n) into <fn>"

    def add(self, text, kind, info=None):
        for ln in text.split("\n"):
            self.lines.append(ln)
            self.origin.append((kind, info))

    def text(self):
        return "\n".join(self.lines) + "\n"


def _split_top(s):
    """split an argument list on top-level commas"""
    from .rustsrc import mask as _mask
    m = _mask(s)
    out, depth, start = [], 0, 0
    for i, ch in enumerate(m):
        if ch in "([{":
            depth += 1
        elif ch in ")]}":
            depth -= 1
        elif ch == "," and depth == 0:
            out.append(s[start:i])
            start = i + 1
    if s[start:].strip():
        out.append(s[start:])
    return out


def _read(path):
    with open(path) as f:
        return f.read()


def build(unit, workdir):
    """returns Generated; raises Undecided when an anchor/rule no longer matches."""
    g = Generated()
    sources = {}

    def src(key):
        rel = unit["files"][key]
        if rel not in sources:
            p = os.path.join(REPO, rel)
            if not os.path.exists(p):
                raise Undecided("source file missing: %s" % rel)
            sources[rel] = Source(rel, _read(p))
        return sources[rel]

    included = set()
    pending_notwin = [False]
    # what the unit knows by name: its template and its configuration (R19 inlines only helpers that occur in neither)
    known_text = _read(os.path.join(unit["dir"], "template.rs")) + "\n" + _read(os.path.join(unit["dir"], "unit.py"))

    def process(text, origin):
        for ln in text.split("\n"):
            s = ln.strip()
            if s.startswith("//@include "):
                inc = s.split()[1]
                if inc in included:
                    continue
                included.add(inc)
                itext = _read(os.path.join(VERIF, "prelude", inc))
                for kv in s.split()[2:]:
                    k, v = kv.split("=", 1)
                    itext = itext.replace("@%s@" % k, v)
                itext = re.sub(r"@[A-Z_]+@", "", itext)
                process(itext, "prelude:" + inc)
            elif s.startswith("//@notwin"):
                pending_notwin[0] = True
            elif s.startswith("//@derive_clone "):
                # R20: #[derive(Clone)] expanded field-wise; a hand-written impl Clone is extracted instead
                tyname = s.split()[1]
                key = unit["derive_clone"][tyname]
                S = src(key)
                tcfg = [t for t in unit.get("types", []) if t[1] == tyname]
                dropf = (tcfg[0][3].get("drop", []) if tcfg and len(tcfg[0]) > 3 else [])
                if "Clone" in S.derives("struct", tyname):
                    fields = [f for f in S.find_type("struct", tyname)["names"] if f not in dropf]
                    body = "{ Self { " + ", ".join("%s: self.%s.clone()" % (f, f) for f in fields) + " } }"
                    g.rules_applied["R20-derive-clone"] = g.rules_applied.get("R20-derive-clone", 0) + 1
                    line = S.find_type("struct", tyname)["line"]
                else:
                    f = S.find_fn(tyname + "::clone@Clone")
                    log = {}
                    body = rewrite.apply_rules(f["body"], list(unit.get("rules", [])), log, tyname + "::clone")
                    line = f["line"]
                tmpl_sig_line = max(k for k in range(len(g.lines)) if re.search(r"\bfn\s+\w+", g.lines[k]) and not g.lines[k].strip().startswith("//"))
                first = len(g.lines) + 1
                g.add(body, "body", (tyname + "::clone", S.path, line))
                fnpath = tyname + "::clone"
                g.bodies[fnpath] = (first, len(g.lines))
                g.contracted.append(dict(fnpath=fnpath, name="clone", region=(tmpl_sig_line + 1, len(g.lines)), src=S.path,
                                         src_line=line, notwin=False, tags=[]))
            elif s.startswith("//@body "):
                parts = s.split()
                fnpath = parts[1]
                opts = dict(p.split("=", 1) for p in parts[2:])
                cfg = unit.get("fns", {}).get(fnpath, {})
                key = opts.get("file") or cfg.get("file") or unit.get("default_file")
                S = src(key)
                try:
                    f = S.find_fn(cfg.get("src", fnpath))
                except Undecided:
                    if not cfg.get("optional"):
                        raise
                    # an OPTIONAL private helper under contract no longer exists (typically inlined into its only caller): its contract
                    # header is dropped; the callers' contracts still state the property and see the inlined code directly
                    k = len(g.lines) - 1
                    while k >= 0 and not (re.search(r"\bfn\s+\w+", g.lines[k]) and not g.lines[k].strip().startswith("//")):
                        k -= 1
                    while k > 0 and re.match(r"^\s*(#\[[^\]]*\]\s*)+$", g.lines[k - 1]):
                        k -= 1
                    if k < 0:
                        raise Undecided("template: no fn before //@body %s" % fnpath)
                    del g.lines[k:]
                    del g.origin[k:]
                    g.rules_applied["optional-helper-absent"] = g.rules_applied.get("optional-helper-absent", 0) + 1
                    continue
                body = strip_comments(f["body"])
                if not cfg.get("no_inline") and not unit.get("no_inline"):
                    ilog = {}
                    others = []
                    for fk in unit["files"]:
                        try:
                            others.append(src(fk))
                        except Undecided:
                            pass
                    body = inline.inline_helpers(S, cfg.get("src", fnpath), body, known_text, ilog, other_sources=others)
                    g.inlined += ilog.pop("_inlined", [])
                    for k, v in ilog.items():
                        g.rules_applied[k] = g.rules_applied.get(k, 0) + v
                if cfg.get("fragment"):
                    # fragment extraction by anchor: from the match of the first pattern through the end of the block opened by the second
                    from .rustsrc import mask as _mask
                    bm = _mask(body)
                    m1 = re.search(cfg["fragment"][0], bm, re.S)
                    m2 = re.compile(cfg["fragment"][1], re.S).search(bm, m1.end()) if m1 else None
                    if not m1 or not m2:
                        raise Undecided("%s: fragment anchors lost" % fnpath)
                    ob = bm.index("{", m2.end() - 1)
                    body = "{\n" + body[m1.start():match_close(bm, ob) + 1] + "\n}"
                    cfg = dict(cfg, skip_sig_check=True)
                    g.rules_applied["fragment"] = g.rules_applied.get("fragment", 0) + 1
                log = {}
                rules = list(unit.get("rules", [])) if not cfg.get("no_default_rules") else []
                rules += list(cfg.get("rules", []))
                try:
                    body = rewrite.apply_rules(body, rules, log, fnpath)
                except Undecided as e:
                    raise Undecided("%s: %s" % (fnpath, e))
                for lname, lv in log.pop("_leaves", {}).items():
                    g.leaves[fnpath + "/" + lname] = dict(lv, src=S.path, fn=fnpath)
                for k, v in log.items():
                    g.rules_applied[k] = g.rules_applied.get(k, 0) + v
                # signature check (R16): parameter names in the same order
                tmpl_sig_line = None
                for k in range(len(g.lines) - 1, -1, -1):
                    if re.search(r"\bfn\s+\w+", g.lines[k]) and not g.lines[k].strip().startswith("//"):
                        tmpl_sig_line = k
                        break
                if tmpl_sig_line is None:
                    raise Undecided("template: no fn before //@body %s" % fnpath)
                tmpl_sig = "\n".join(g.lines[tmpl_sig_line:])
                tname = re.search(r"\bfn\s+(\w+)", g.lines[tmpl_sig_line]).group(1)
                extra = set(cfg.get("extra_params", unit.get("extra_params", ["clk", "tr", "gh"])))
                try:
                    tp = [p for p in param_names(tmpl_sig) if p not in extra]
                except Exception as e:
                    raise Undecided("template signature unparsable for %s: %s" % (fnpath, e))
                rp = param_names(f["sig"])
                ren = cfg.get("rename_params", {})
                rp = [ren.get(p, p) for p in rp]
                rp = [p for p in rp if p not in set(cfg.get("drop_params", []))]
                if not cfg.get("skip_sig_check") and tp != rp:
                    # R16-pad: the real function LOST parameters the contract speaks about (rp is a proper subsequence of tp). The contract
                    # keeps its signature (the lost parameter is simply unused by the body); call sites in this unit that pass the real,
                    # shorter argument list get the missing arguments BY NAME (a caller that has no such local fails to compile -> undecided).
                    it = iter(tp)
                    if rp and len(rp) < len(tp) and all(any(x == y for y in it) for x in rp):
                        g.padded.append((tname, tp, rp, fnpath))
                        g.rules_applied["R16-pad"] = g.rules_applied.get("R16-pad", 0) + 1
                    else:
                        raise Undecided("R16: parameters of %s changed: real %s vs contract %s" % (fnpath, rp, tp))
                g.rules_applied["R16"] = g.rules_applied.get("R16", 0) + 1
                start = tmpl_sig_line
                while start > 0 and re.match(r"^\s*(#\[[^\]]*\]\s*)+$", g.lines[start - 1]):
                    start -= 1
                first = len(g.lines) + 1
                g.add(body, "body", (fnpath, S.path, f["line"]))
                last = len(g.lines)
                g.bodies[fnpath] = (first, last)
                g.contracted.append(dict(fnpath=fnpath, name=tname, region=(start + 1, last), src=S.path,
                                         src_line=f["line"], notwin=pending_notwin[0] or cfg.get("notwin", False),
                                         tags=cfg.get("tags", []), safety_tags=cfg.get("safety_tags", [])))
                pending_notwin[0] = False
            else:
                g.add(ln, origin)

    process(_read(os.path.join(unit["dir"], "template.rs")), "template")

    # R23: type aliases of the source files that the unit does not know but the extracted text mentions are copied into the generated file
    # (an alias is pure naming; its right-hand side goes through the unit's default rules, e.g. path rewrites)
    gtext = g.text()
    added = []
    for rel, S in list(sources.items()):
        for mm in re.finditer(r"(?m)^\s*(?:pub(?:\([^)]*\))?\s+)?type\s+(\w+)\s*(<[^=;]*>)?\s*=\s*([^;]+);", S.m):
            if brace_depths(S.m)[mm.start(1)] != 0:
                continue
            nm = mm.group(1)
            if re.search(r"\b%s\b" % re.escape(nm), known_text) or not re.search(r"\b%s\b" % re.escape(nm), gtext) or nm in added:
                continue
            rhs = S.text[mm.start(3):mm.end(3)]
            try:
                rhs = rewrite.apply_rules(rhs, [r for r in unit.get("rules", []) if r[0] == "sub"], {}, "type " + nm)
            except Undecided:
                pass
            gen = S.text[mm.start(2):mm.end(2)] if mm.group(2) else ""
            k = max(i for i, ln in enumerate(g.lines) if ln.strip().startswith("fn main()"))
            g.lines.insert(k, "pub type %s%s = %s;   // R23: alias copied from %s" % (nm, gen, rhs.strip(), rel))
            g.origin.insert(k, ("alias", (nm, rel)))
            added.append(nm)
            g.rules_applied["R23-type-alias"] = g.rules_applied.get("R23-type-alias", 0) + 1

    # R24: module-level constants with a literal initialiser that the unit does not know but the extracted text mentions are copied
    # into the verified block (a constant is part of the text of the functions that use it)
    gtext = g.text()
    for rel, S in list(sources.items()):
        for mm in re.finditer(r"(?m)^\s*(?:pub(?:\([^)]*\))?\s+)?const\s+([A-Z_][A-Z0-9_]*)\s*:\s*([\w:]+)\s*=\s*([^;]+);", S.m):
            if brace_depths(S.m)[mm.start(1)] != 0:
                continue
            nm, ty = mm.group(1), mm.group(2)
            rhs = S.text[mm.start(3):mm.end(3)].strip()
            if re.search(r"\b%s\b" % re.escape(nm), known_text) or not re.search(r"\b%s\b" % re.escape(nm), gtext) or nm in added:
                continue
            if ty not in ("usize", "u8", "u16", "u32", "u64", "u128", "isize", "i8", "i16", "i32", "i64", "i128", "bool") or not re.match(r"^[\d_xa-fA-F]+(?:[iu](?:8|16|32|64|128|size))?$|^true$|^false$", rhs):
                continue      # only plain integer / bool literals: nothing to interpret
            ks = [i for i, ln in enumerate(g.lines) if ln.strip().startswith("} // verus!")]
            k = ks[-1] if ks else max(i for i, ln in enumerate(g.lines) if ln.strip().startswith("fn main()"))
            g.lines.insert(k, "pub const %s: %s = %s;   // R24: constant copied from %s" % (nm, ty, rhs, rel))
            g.origin.insert(k, ("const", (nm, rel)))
            added.append(nm)
            g.rules_applied["R24-const"] = g.rules_applied.get("R24-const", 0) + 1

    # R16-pad: pad the call sites (inside extracted bodies only) of functions that lost parameters
    if g.padded:
        from .rustsrc import mask as _mask
        for (tname, tp, rp, fnpath) in g.padded:
            real_self = [x for x in rp if x != "self"]
            want = [x for x in tp if x != "self"]
            for bpath, (first, last) in list(g.bodies.items()):
                text = "\n".join(g.lines[first - 1:last])
                pos, out, changed = 0, [], False
                while True:
                    m = _mask(text)
                    mm = re.compile(r"(?:\.|::)\s*%s\s*\(" % re.escape(tname)).search(m, pos)
                    if not mm:
                        break
                    op = mm.end() - 1
                    cp = match_close(m, op)
                    inner = m[op + 1:cp]
                    # top-level argument count
                    depth, n = 0, (1 if inner.strip() else 0)
                    for ch in inner:
                        if ch in "([{":
                            depth += 1
                        elif ch in ")]}":
                            depth -= 1
                        elif ch == "," and depth == 0:
                            n += 1
                    if inner.strip().endswith(","):
                        n -= 1
                    if n == len(real_self):
                        args = [a.strip() for a in _split_top(text[op + 1:cp])]
                        it2 = iter(args)
                        newargs = [next(it2) if w in real_self else w for w in want]
                        text = text[:op + 1] + ", ".join(newargs) + text[cp:]
                        changed = True
                    pos = mm.end()
                if changed:
                    newl = text.split("\n")
                    # keep the line count stable (labels / regions are line-based): bodies are re-split on the same newlines
                    if len(newl) == last - first + 1:
                        g.lines[first - 1:last] = newl
                    else:
                        raise Undecided("R16-pad: call-site rewrite changed the line structure of %s" % bpath)

    # labels
    for i, ln in enumerate(g.lines, 1):
        mm = LABEL_RE.search(ln)
        if mm:
            tags = [t.strip() for t in (mm.group(2) or "").split(",") if t.strip()]
            g.labels[i] = (mm.group(1), tags, ln[:mm.start()].strip().rstrip(","))

    # type shape checks
    gen_src = Source("<generated>", g.text())
    for t in unit.get("types", []):
        kind, name, key = t[0], t[1], t[2]
        opt = t[3] if len(t) > 3 else {}
        real = src(key).find_type(kind, name)
        mine = gen_src.find_type(kind, opt.get("as", name), any_depth=True)
        r = [x for x in real["names"] if x not in opt.get("drop", [])]
        mnames = [x for x in mine["names"] if x not in opt.get("extra", [])]
        if r != mnames:
            raise Undecided("type shape changed: %s %s real %s vs contract %s" % (kind, name, r, mnames))
        g.rules_applied["type-shape-check"] = g.rules_applied.get("type-shape-check", 0) + 1

    g.frame_results = frame_checks(unit)
    return g


def frame_checks(unit):
    """syntactic frame conditions, evaluated on the source files directly (independent of the rewrite pipeline)"""
    results = []
    for fr in unit.get("frame", []):
        if fr.get("select_timer_last"):
            # every `tokio::select!` with a timer arm must be `biased;` with the timer arm LAST: otherwise one poll that finds both the
            # result ready and the timer expired may report the timeout (an unbiased select! starts at a random arm)
            tpat = re.compile(fr["select_timer_last"])
            hits, bad = 0, []
            for p in sorted(globmod.glob(os.path.join(REPO, fr["glob"]), recursive=True)):
                rel = os.path.relpath(p, REPO)
                S = Source(rel, _read(p))
                tests = [(mm.start(), match_close(S.m, S.m.index("{", mm.end() - 1))) for mm in re.finditer(r"\bmod\s+tests?\s*\{", S.m)]
                for mm in re.finditer(r"\bselect!\s*\{", S.m):
                    if any(a <= mm.start() <= b for a, b in tests):
                        continue
                    ob = mm.end() - 1
                    cb = match_close(S.m, ob)
                    try:
                        biased, arms, _else = rewrite._split_select_arms(S.text[ob + 1:cb])
                    except Exception:
                        biased, arms = False, []
                    timers = [i for i, a in enumerate(arms) if tpat.search(a["fut"])]
                    if not timers:
                        continue
                    hits += 1
                    if not (biased and timers == [len(arms) - 1]):
                        bad.append("%s:%d" % (rel, S.line_of(mm.start())))
            results.append(dict(name=fr["name"], tags=fr.get("tags", []), hits=hits, bad=bad, min_hits=fr.get("min_hits", 0), violation=fr.get("violation", True)))
            continue
        pat = re.compile(fr["pattern"])
        hits, bad = 0, []
        for p in sorted(globmod.glob(os.path.join(REPO, fr["glob"]), recursive=True)):
            rel = os.path.relpath(p, REPO)
            S = Source(rel, _read(p))
            allowed = []
            for fp in (fr.get("only_in") or []):
                fkey, fpath = fp.split(":", 1)
                if unit["files"][fkey] == rel:
                    try:
                        f = S.find_fn(fpath)
                        allowed.append((f["body_open"], f["body_close"]))
                    except Undecided:
                        pass
            tests = [(mm.start(), match_close(S.m, S.m.index("{", mm.end() - 1))) for mm in re.finditer(r"\bmod\s+tests?\s*\{", S.m)]
            if fr.get("only_in") is not None:
                allowed = allowed + _private_helpers_of(S, allowed, tests)
            for mm in pat.finditer(S.m):
                if any(a <= mm.start() <= b for a, b in tests):
                    continue
                hits += 1
                if fr.get("only_in") is not None and not any(a <= mm.start() <= b for a, b in allowed):
                    bad.append("%s:%d" % (rel, S.line_of(mm.start())))
        results.append(dict(name=fr["name"], tags=fr.get("tags", []), hits=hits, bad=bad,
                            min_hits=fr.get("min_hits", 1), violation=fr.get("violation", False)))
    return results


def _has_plain_closure(body):
    """an exec closure `|args| expr` / `move |args| ...` outside proof blocks (spec quantifiers forall|..| / exists|..| / choose|..| are not closures)"""
    m = mask(body)
    # drop proof blocks and ghost lets
    out, i = [], 0
    for mm in re.finditer(r"\bproof\s*\{", m):
        if mm.start() < i:
            continue
        ob = mm.end() - 1
        cb = match_close(m, ob)
        out.append(m[i:mm.start()])
        i = cb + 1
    out.append(m[i:])
    t = "".join(out)
    t = re.sub(r"\b(forall|exists|choose)\s*\|[^|]*\|", " ", t)
    t = re.sub(r"\|\|", " ", t)      # logical or / empty-arg closures handled below
    for mm in re.finditer(r"(?:(?<=[(,=])|(?<=\bmove)|(?<=\breturn))\s*\|[^|;{}]*\|", t):
        return True
    # empty-argument closures `|| expr` directly as a call argument
    if re.search(r"[(,]\s*(?:move\s+)?\|\|\s*[\w{(&*!]", mask(body)):
        return True
    return False


def _private_helpers_of(S, allowed, tests):
    """Body spans of private helpers that are only ever called from inside the allowed functions (or from each other): R19 splices
    such a helper into its contracted callers, where its writes are verified with them, so a write inside it is inside the frame.
    A helper R19 would not inline (pub, async, early exit, non-identifier parameter, a `Type::h(recv)` call) is not accepted here either."""
    from .inline import _params
    m = S.m
    cands = {}
    for mm in re.finditer(r"\bfn\s+([A-Za-z_]\w*)", m):
        if any(a <= mm.start() <= b for a, b in tests) or any(a <= mm.start() <= b for a, b in allowed):
            continue
        f = S._fn_at(mm.start(), mm.group(1))
        if not f:
            continue
        sig = f["sig"]
        if re.match(r"\s*pub\b(?!\s*\()", sig) or re.search(r"\basync\b", mask(sig).split("fn")[0]) or _params(sig) is None:
            continue
        bm = mask(f["body"])
        if re.search(r"\breturn\b", bm) or "?" in bm or re.search(r"\b(break|continue)\s+'", bm):
            continue
        if f["name"] in cands:
            cands[f["name"]] = None
            continue
        cands[f["name"]] = f
    cands = {k: v for k, v in cands.items() if v}
    ok = set()
    changed = True
    while changed:
        changed = False
        spans = list(allowed) + [(cands[k]["body_open"], cands[k]["body_close"]) for k in ok]
        for name, f in cands.items():
            if name in ok:
                continue
            good = True
            for mm in re.finditer(r"(?<![\w])%s\b" % re.escape(name), m):
                if mm.start() >= f["fn_kw"] and mm.start() < f["body_open"]:
                    continue      # its own definition
                if any(a <= mm.start() <= b for a, b in tests):
                    continue
                if not re.match(r"\s*(::<[^()]*>)?\s*\(", m[mm.end():]) or not re.search(r"(?:\bself\s*\.\s*|\bSelf\s*::\s*|(?<![\w.:]))$", m[:mm.start()]):
                    good = False      # used as a value, or through a path R19 does not follow
                    break
                if not any(a <= mm.start() <= b for a, b in spans):
                    good = False
                    break
            if good:
                ok.add(name)
                changed = True
    return [(cands[k]["body_open"], cands[k]["body_close"]) for k in ok]


def fn_regions(text):
    """all fn items in generated text: list of dict(name, qual, start_line, end_line)."""
    S = Source("<gen>", text)
    m = S.m
    res = []
    impls = S.impls()
    for mm in re.finditer(r"\bfn\s+([A-Za-z_]\w*)", m):
        ob = first_body_brace(m, mm.end())
        if ob < 0:
            continue
        # for verus fns, requires/ensures may contain braces? (closures / struct literals / match) -- take the
        # LAST top-level brace group before the next item instead: walk groups until one is followed by a non-contract token
        cb = match_close(m, ob)
        ty = None
        for (ity, itrait, iob, icb) in impls:
            if iob < mm.start() < icb:
                ty = ity
        res.append(dict(name=mm.group(1), type=ty, start=S.line_of(mm.start()), end=S.line_of(cb), off=mm.start()))
    return res


def make_twins(g: Generated):
    """returns (text, [dict(name, start, end)]) with a must-fail twin appended after every
    contracted function (same requires and body, `ensures false`)."""
    lines = list(g.lines)
    inserts = []  # (after_line_index, twin_lines, name)
    for c in g.contracted:
        if c["notwin"]:
            continue
        s, e = c["region"]
        seg = lines[s - 1:e]
        sig_end = g.bodies[c["fnpath"]][0] - s  # index in seg where body starts
        head = seg[:sig_end]
        body = seg[sig_end:]
        head_txt = "\n".join(head)
        head_txt = LABEL_RE.sub("", head_txt) if False else head_txt
        head_txt = re.sub(r"\bfn\s+%s\b" % re.escape(c["name"]), "fn %s__twin" % c["name"], head_txt, count=1)
        hm = mask(head_txt)
        mm = re.search(r"\bensures\b", hm)
        if mm:
            head_txt = head_txt[:mm.end()] + " false," + head_txt[mm.end():]
        else:
            mm = re.search(r"\bdecreases\b", hm)
            if mm:
                head_txt = head_txt[:mm.start()] + " ensures false,\n" + head_txt[mm.start():]
            else:
                head_txt = head_txt.rstrip()
                if re.search(r"\b(requires|recommends)\b", hm) and not mask(head_txt).rstrip().endswith(","):
                    # make sure the last requires clause is terminated (strip trailing comments first)
                    head_txt = head_txt + "\n,"
                head_txt = head_txt + "\n ensures false,"
        twin = (head_txt + "\n" + "\n".join(body)).split("\n")
        inserts.append((e, twin, c["name"] + "__twin", c["fnpath"]))
    out = []
    twins = []
    ins = {e: (t, n, fp) for e, t, n, fp in inserts}
    for i, ln in enumerate(lines, 1):
        out.append(ln)
        if i in ins:
            t, n, fp = ins[i]
            start = len(out) + 1
            out.extend(t)
            twins.append(dict(name=n, fnpath=fp, start=start, end=len(out)))
    return "\n".join(out) + "\n", twins


def _collect_spans(d, fname, acc):
    for sp in d.get("spans", []):
        _span(sp, fname, acc, d.get("message", ""))
    for ch in d.get("children", []):
        _collect_spans(ch, fname, acc)


def _span(sp, fname, acc, msg):
    if os.path.basename(sp.get("file_name", "")) == fname:
        acc.append(dict(line=sp["line_start"], line_end=sp["line_end"], primary=sp.get("is_primary", False),
                        label=sp.get("label"), msg=msg))
    exp = sp.get("expansion")
    if exp and exp.get("span"):
        _span(dict(exp["span"], is_primary=sp.get("is_primary", False)), fname, acc, msg)


def run_verus(path, rlimit=None, seed=None, timeout=900, flags=()):
    cmd = ["verus", os.path.basename(path), "--output-json", "--time-expanded", "--triggers-mode", "silent",
           "--error-format=json", "--multiple-errors", "40"]
    cmd += list(flags)
    if rlimit:
        cmd += ["--rlimit", str(rlimit)]
    if seed is not None:
        cmd += ["--smt-option", "smt.random_seed=%d" % seed, "--smt-option", "sat.random_seed=%d" % seed]
    t0 = time.time()
    try:
        p = subprocess.run(cmd, cwd=os.path.dirname(path), capture_output=True, text=True, timeout=timeout)
    except subprocess.TimeoutExpired:
        raise Undecided("verus timed out after %ds on %s" % (timeout, path))
    wall = time.time() - t0
    try:
        out = json.loads(p.stdout)
    except Exception:
        out = None
    diags = []
    for ln in p.stderr.splitlines():
        ln = ln.strip()
        if ln.startswith("{"):
            try:
                diags.append(json.loads(ln))
            except Exception:
                pass
    return dict(cmd=" ".join(cmd), rc=p.returncode, out=out, diags=diags, stderr=p.stderr, wall=wall)


def classify(diags, fname):
    """-> (verification_errors, tool_errors); each verification error: dict(message, spans, rendered)"""
    verr, terr = [], []
    for d in diags:
        if d.get("level") != "error":
            continue
        msg = d.get("message", "")
        if msg.startswith("aborting due to") or msg.startswith("could not compile"):
            continue
        spans = []
        _collect_spans(d, fname, spans)
        item = dict(message=msg, spans=spans, rendered=d.get("rendered", ""))
        if any(t in msg for t in TOOL_ERRORS):
            terr.append(item)
        elif any(t in msg for t in VERIF_ERRORS):
            verr.append(item)
        else:
            terr.append(item)
    return verr, terr


def scan_assumptions(text):
    m = mask(text)
    res = []
    regs = fn_regions(text)

    def fn_at(line):
        best = None
        for r in regs:
            if r["start"] - 3 <= line <= r["end"]:
                best = r
        return ((best["type"] + "::") if best and best["type"] else "") + (best["name"] if best else "?")
    pats = [("external_body", r"verifier::external_body"), ("assume_specification", r"\bassume_specification\b"),
            ("assume", r"\bassume\s*\("), ("admit", r"\badmit\s*\("), ("external", r"verifier::external\b"),
            ("no_decreases", r"exec_allows_no_decreases_clause"), ("uninterp", r"\buninterp\b"),
            ("axiom", r"\baxiom\b"), ("external_type_specification", r"external_type_specification")]
    for kind, pat in pats:
        for mm in re.finditer(pat, m):
            line = m.count("\n", 0, mm.start()) + 1
            # the fn that follows (attributes precede their item)
            after = re.search(r"\bfn\s+(\w+)|\[\s*([\w:<>, ]+?)\s*\]", m[mm.end():mm.end() + 400])
            nm = None
            if after:
                nm = after.group(1) or after.group(2)
            if kind in ("assume", "admit", "no_decreases"):
                nm = fn_at(line)
            res.append("%s: %s" % (kind, nm))
    return sorted(set(res))


def run_unit(name, workdir, rlimit=None, seed=None, twins=True):
    """Full pipeline for one unit. Returns a dict (never raises Undecided: recorded in 'undecided')."""
    t0 = time.time()
    res = dict(unit=name, undecided=[], obligations={}, functions={}, rules_applied={}, twins_total=0,
               twins_rejected=0, trusted=[], frame=[], checker_cmd="", solver_ms=0, contracted=[])
    try:
        unit = load_unit(name)
        res["serves"] = unit.get("serves", [])
        os.makedirs(workdir, exist_ok=True)
        g = build(unit, workdir)
    except Undecided as e:
        res["undecided"].append(str(e))
        try:
            for fr in frame_checks(unit):
                if fr["bad"] and fr.get("violation"):
                    res["obligations"]["%s/frame#%s" % (name, fr["name"])] = dict(
                        tags=fr["tags"], clause="syntactic frame: %s (outside allowed: %s)" % (fr["name"], fr["bad"]), fn="frame", status="failed",
                        diag=[dict(message="frame condition breached at %s" % fr["bad"], rendered="", in_fn="frame")], lines=[], shim=False, syntactic=True)
        except Exception:
            pass
        res["wall"] = time.time() - t0
        return res
    res["rules_applied"] = g.rules_applied
    res["inlined"] = list(g.inlined)
    res["padded"] = ["%s: contract keeps %s, real function has %s" % (fp, tp, rp) for (_n, tp, rp, fp) in g.padded]
    res["frame"] = g.frame_results
    res["contracted"] = [dict(fn=c["fnpath"], src=c["src"], src_line=c["src_line"]) for c in g.contracted]
    text = g.text()
    fname = name + ".rs"
    path = os.path.join(workdir, fname)
    with open(path, "w") as f:
        f.write(text)
    res["generated"] = path
    res["trusted"] = scan_assumptions(text)
    if "--no-erasure-check" in unit.get("verus_flags", ()):
        res["trusted"].append("verus --no-erasure-check: the final ghost-erasure type check is skipped (the generated file is verified, never compiled or run)")
    regs = fn_regions(text)

    def region_of(line):
        best = None
        for r in regs:
            if r["start"] <= line <= r["end"]:
                if best is None or r["start"] >= best["start"]:
                    best = r
        if best is None:
            # contract lines precede the body: attribute to the fn whose sig is the closest above
            for r in regs:
                if r["start"] <= line:
                    if best is None or r["start"] > best["start"]:
                        best = r
        return best

    contracted_by_name = {}
    for c in g.contracted:
        contracted_by_name[c["name"]] = c

    # obligations from labels
    label_lines = {}     # line -> list of (oid, caller fnpath or None)
    bodies_text = {c["fnpath"]: "\n".join(g.lines[g.bodies[c["fnpath"]][0] - 1:g.bodies[c["fnpath"]][1]]) for c in g.contracted}
    for line, (lab, tags, clause) in sorted(g.labels.items()):
        owner = None
        for c in g.contracted:
            if c["region"][0] <= line <= c["region"][1]:
                owner = c["fnpath"]
        if owner is not None:
            oid = "%s/%s#%s" % (name, owner, lab)
            if oid not in res["obligations"]:
                res["obligations"][oid] = dict(tags=tags, clause=clause, fn=owner, status="discharged", diag=[], lines=[], shim=False)
            res["obligations"][oid]["lines"].append(line)
            label_lines.setdefault(line, []).append((oid, None))
            continue
        # label on hand-written code: a lemma (one obligation) or a shim precondition (one obligation per calling contracted fn)
        shim_fn, is_lemma = None, False
        for k in range(line, 0, -1):
            mm = re.search(r"\bfn\s+(\w+)", g.lines[k - 1])
            if mm and not g.lines[k - 1].strip().startswith("//"):
                shim_fn = mm.group(1)
                is_lemma = "proof fn" in g.lines[k - 1] and "external_body" not in g.lines[max(0, k - 2)]
                break
        if shim_fn is None:
            continue
        if is_lemma:
            oid = "%s/%s#%s" % (name, shim_fn, lab)
            if oid not in res["obligations"]:
                res["obligations"][oid] = dict(tags=tags, clause=clause, fn=shim_fn, status="discharged", diag=[], lines=[], shim=True)
            res["obligations"][oid]["lines"].append(line)
            label_lines.setdefault(line, []).append((oid, None))
            # a labelled requires of a proof fn is also checked at its call sites
        callers = [fp for fp, bt in bodies_text.items() if re.search(r"(?<![\w])%s\s*(::<[^()]*>)?\s*\(" % re.escape(shim_fn), bt)]
        for fp in callers:
            oid = "%s/%s/%s#%s" % (name, fp, shim_fn, lab)
            if oid not in res["obligations"]:
                res["obligations"][oid] = dict(tags=tags, clause=clause, fn=fp, status="discharged", diag=[], lines=[], shim=True)
            res["obligations"][oid]["lines"].append(line)
            label_lines.setdefault(line, []).append((oid, fp))
    for c in g.contracted:
        res["obligations"]["%s/%s#safety" % (name, c["fnpath"])] = dict(
            # safety_tags: functions whose property quantifies over ALL inputs ("for all timeouts"): a possible panic / overflow in
            # the body is then a violation of that property, not merely an unproved technical obligation
            tags=list(c.get("safety_tags", [])), clause="implicit obligations of the body: arithmetic overflow, bounds, unwrap, unlabelled callee preconditions, termination",
            fn=c["fnpath"], status="discharged", diag=[], lines=[], shim=False)
    for fr in g.frame_results:
        oid = "%s/frame#%s" % (name, fr["name"])
        ok = not fr["bad"] and fr["hits"] >= fr["min_hits"]
        breach = bool(fr["bad"]) and fr.get("violation")
        res["obligations"][oid] = dict(tags=fr["tags"] if breach else [], clause="syntactic frame: %s (hits %d, outside allowed: %s)" % (fr["name"], fr["hits"], fr["bad"]),
                                       fn="frame", status="discharged" if ok else ("failed" if breach else "undecided"),
                                       diag=[dict(message="frame condition breached at %s" % fr["bad"], rendered="", in_fn="frame")] if breach else [],
                                       lines=[], shim=False, syntactic=True)
        if not ok and not breach:
            res["undecided"].append("frame check %s failed: %s (hits=%d)" % (fr["name"], fr["bad"], fr["hits"]))

    # ---- main Verus run
    r = run_verus(path, rlimit=rlimit or unit.get("rlimit"), seed=seed, flags=unit.get("verus_flags", ()))
    res["checker_cmd"] = r["cmd"]
    verr, terr = classify(r["diags"], fname)
    if r["out"] is None or "verification-results" not in (r["out"] or {}):
        res["undecided"].append("verus produced no result (rc=%s): %s" % (r["rc"], (terr[0]["message"] if terr else r["stderr"][-400:])))
        res["tool_errors"] = [t["rendered"] for t in terr][:10]
        res["wall"] = time.time() - t0
        return res
    vr = r["out"]["verification-results"]
    if vr.get("encountered-vir-error") or terr:
        res["undecided"].append("verus tool/compile error: %s" % "; ".join(t["message"] for t in terr)[:600])
        res["tool_errors"] = [t["rendered"] for t in terr][:10]
    # function breakdown
    fb = {}
    try:
        for mod in r["out"]["times-ms"]["smt"]["smt-run-module-times"]:
            for f in mod.get("function-breakdown", []):
                fb[f["function"]] = f
                res["solver_ms"] += f.get("time", 0)
    except Exception:
        pass
    for c in g.contracted:
        ty = None
        for r0 in regs:
            if r0["name"] == c["name"] and c["region"][0] <= r0["start"] <= c["region"][1]:
                ty = r0["type"]
        cands = [v for k, v in fb.items() if k.split("::")[-1] == c["name"] and v.get("mode:") != "spec"]
        if len(cands) > 1 and ty:
            cands2 = [v for v in cands if ("::" + ty + "::") in v["function"]]
            cands = cands2 or cands
        if not cands and not (vr.get("encountered-vir-error") or terr):
            res["undecided"].append("function %s missing from verifier's breakdown" % c["fnpath"])
        for v in cands[:1]:
            res["functions"][c["fnpath"]] = dict(ms=v.get("time", 0), rlimit=v.get("rlimit", 0), success=v.get("success"))
    res["verified_count"] = vr.get("verified")
    res["error_count"] = vr.get("errors")

    # map errors
    for e in verr:
        hit_cands = []
        for sp in e["spans"]:
            # a span covering a whole body ("at the end of the function body") must not pick up the labels inside it
            in_body = any(b0 <= sp["line"] <= b1 for (b0, b1) in g.bodies.values())
            # ... but a multi-line CLAUSE of a contract header carries its label on its last line
            last = sp["line_end"] if (sp["line_end"] - sp["line"] <= 3 or not in_body) else sp["line"]
            for ln in range(sp["line"], last + 1):
                if ln in label_lines:
                    hit_cands.append(label_lines[ln])
        prim = [sp for sp in e["spans"] if sp["primary"]]
        pl = prim[0]["line"] if prim else (e["spans"][0]["line"] if e["spans"] else None)
        reg = region_of(pl) if pl else None
        where = None
        cby = None
        if pl:
            for c in g.contracted:
                if c["region"][0] <= pl <= c["region"][1]:
                    cby = c
        if cby:
            where = cby["fnpath"]
        elif reg:
            where = reg["name"]
        hit = []
        for cands in hit_cands:
            pick = [oid for oid, caller in cands if caller is not None and caller == where] or [oid for oid, caller in cands if caller is None]
            hit += pick
        if hit:
            for oid in set(hit):
                o = res["obligations"][oid]
                o["status"] = "failed"
                o["diag"].append(dict(message=e["message"], rendered=e["rendered"], in_fn=where))
        else:
            c = cby
            if c:
                oid = "%s/%s#safety" % (name, c["fnpath"])
                o = res["obligations"][oid]
                o["status"] = "failed"
                o["diag"].append(dict(message=e["message"], rendered=e["rendered"], in_fn=where))
            else:
                oid = "%s/%s#proof" % (name, where or "?")
                o = res["obligations"].setdefault(oid, dict(tags=[], clause="unlabelled obligation in hand-written proof/prelude code", fn=where,
                                                            status="failed", diag=[], lines=[], shim=True))
                o["status"] = "failed"
                o["diag"].append(dict(message=e["message"], rendered=e["rendered"], in_fn=where))
    # functions reported unsuccessful but without a mapped error
    for fnpath, f in res["functions"].items():
        if f["success"] is False:
            failed_here = [o for o in res["obligations"].values() if o["status"] == "failed" and any(d.get("in_fn") == fnpath for d in o["diag"])]
            if not failed_here:
                res["obligations"]["%s/%s#safety" % (name, fnpath)]["status"] = "failed"
                res["obligations"]["%s/%s#safety" % (name, fnpath)]["diag"].append(dict(message="function reported unsuccessful without a located diagnostic", rendered="", in_fn=fnpath))
    # precision guard: an exec closure without requires/ensures has NO postcondition for the verifier (its result is arbitrary). When one
    # is left in a rewritten body (a combinator the unit has no rule for, e.g. after a refactoring), an obligation that fails in that
    # function is not a refutation of the code but a loss of precision: undecided, never a violation.
    for c in g.contracted:
        span = g.bodies.get(c["fnpath"])
        if not span:
            continue
        btxt = "\n".join(g.lines[span[0] - 1:span[1]])
        if not _has_plain_closure(btxt):
            continue
        hit = [o for o in res["obligations"].values() if o["status"] == "failed" and any(d.get("in_fn") == c["fnpath"] for d in o["diag"])]
        if hit:
            for o in hit:
                o["status"] = "undecided"
            res["undecided"].append("%s: an unannotated closure remains in the rewritten body (its result is unknown to the verifier); %d failed obligation(s) there are not refutations" % (c["fnpath"], len(hit)))
    if res["undecided"]:
        for o in res["obligations"].values():
            if o["status"] == "discharged":
                o["status"] = "undecided"

    # ---- twins (vacuity guard)
    if twins and not res["undecided"]:
        ttext, tw = make_twins(g)
        tpath = os.path.join(workdir, name + "__twins.rs")
        with open(tpath, "w") as f:
            f.write(ttext)
        tr = run_verus(tpath, rlimit=rlimit or unit.get("rlimit"), seed=seed, flags=unit.get("verus_flags", ()))
        tverr, tterr = classify(tr["diags"], os.path.basename(tpath))
        # a must-fail twin that exhausts the solver budget is not accepted either: count it as rejected when the span is inside a twin
        rl = [t for t in tterr if "rlimit" in t["message"] and any(any(w["start"] <= sp["line"] <= w["end"] for w in tw) for sp in t["spans"])]
        tterr = [t for t in tterr if t not in rl]
        tverr = tverr + rl
        # a solver budget exhausted on an ORIGINAL function inside the twins file says nothing about the twins (that function is decided by
        # the main run); only the twins themselves are judged here
        tterr = [t for t in tterr if "rlimit" not in t["message"]]
        res["twins_total"] = len(tw)
        if tr["out"] is None or tterr or (tr["out"].get("verification-results") or {}).get("encountered-vir-error"):
            res["undecided"].append("twin run failed (tool/compile error): %s" % "; ".join(t["message"] for t in tterr)[:300])
        else:
            for t in tw:
                rejected = False
                for e in tverr:
                    for sp in e["spans"]:
                        if t["start"] <= sp["line"] <= t["end"]:
                            rejected = True
                if rejected:
                    res["twins_rejected"] += 1
                else:
                    res["undecided"].append("vacuity: must-fail twin of %s verified (contradictory precondition or unreachable body)" % t["fnpath"])
            for fnb in (tr["out"].get("times-ms", {}).get("smt", {}).get("smt-run-module-times", []) or []):
                for f in fnb.get("function-breakdown", []):
                    if f["function"].endswith("__twin"):
                        res["solver_ms"] += f.get("time", 0)
    res["wall"] = time.time() - t0
    return res
