"""Rewrite catalogue (DESIGN §3.1). Every rule is a function text -> (text, applications).
Rules work on the *extracted body text* only; anchors are matched on the masked text
(comments/strings blanked) so comments never match."""
import re
from .rustsrc import mask, match_close, match_open, Undecided, first_body_brace

FORBIDDEN_IN_DROPPED = [r"\.await\b", r"\breturn\b", r"\bbreak\b", r"\bcontinue\b", r"\?\s*[;)]", r"\bunsafe\b"]
ALLOWED_MACROS_R1 = {"counter", "gauge", "histogram", "describe_counter", "describe_gauge", "describe_histogram",
                     "debug", "info", "warn", "trace", "error", "format", "vec", "matches"}


def _stmt_start(m, i):
    """offset of the start of the statement containing offset i (scan back to ; { } at same nesting)."""
    depth = 0
    k = i - 1
    while k >= 0:
        ch = m[k]
        if ch in ")]}":
            if ch == "}" and depth == 0:
                nxt = m[k + 1:].lstrip()[:4]
                if not (nxt[:1] in (";", ".", ",", ")", "?") or nxt.startswith("else") or nxt.startswith("as ")):
                    return k + 1
            depth += 1
        elif ch in "([{":
            if depth == 0:
                return k + 1
            depth -= 1
        elif ch == ";" and depth == 0:
            return k + 1
        k -= 1
    return 0


def _stmt_end(m, i):
    """offset just past the ';' that ends the statement starting at/after i, or past a
    top-level block if the statement is a block."""
    depth = 0
    k = i
    n = len(m)
    while k < n:
        ch = m[k]
        if ch in "([{":
            depth += 1
        elif ch in ")]}":
            depth -= 1
            if depth < 0:
                return k  # statement is the tail expression of the enclosing block
            if depth == 0 and ch == "}":
                # block statement: ends here unless followed by ; or . or else
                rest = m[k + 1:].lstrip()
                if rest.startswith(";"):
                    return k + 1 + (len(m[k + 1:]) - len(rest)) + 1
                if rest.startswith(".") or rest.startswith("else") or rest.startswith("?"):
                    k += 1
                    continue
                return k + 1
        elif ch == ";" and depth == 0:
            return k + 1
        k += 1
    return n


def _check_dropped(text, rule, allowed_macros=None, allow_assign=False):
    mt = mask(text)
    for pat in FORBIDDEN_IN_DROPPED:
        if re.search(pat, mt):
            raise Undecided("%s: dropped text contains control flow/effects (%s): %r" % (rule, pat, text[:120]))
    if not allow_assign:
        # assignments other than `let`
        for mm in re.finditer(r"(?<![=!<>+\-*/%&|^])=(?![=>])", mt):
            st = _stmt_start(mt, mm.start())
            if not re.search(r"\blet\b", mt[st:mm.start()]):
                # named macro args like `from = ?x` are inside macro parens: allow inside (...) of a macro
                pre = mt[:mm.start()]
                # find innermost open paren
                depth = 0
                inside_macro = False
                for k in range(len(pre) - 1, -1, -1):
                    if pre[k] in ")]}":
                        depth += 1
                    elif pre[k] in "([{":
                        if depth == 0:
                            inside_macro = bool(re.search(r"!\s*$", pre[:k]))
                            break
                        depth -= 1
                if not inside_macro:
                    raise Undecided("%s: dropped text contains an assignment: %r" % (rule, text[:160]))
    if allowed_macros is not None:
        for mm in re.finditer(r"\b([A-Za-z_][A-Za-z0-9_:]*)\s*!\s*[\(\[\{]", mt):
            name = mm.group(1).split("::")[-1]
            if name not in allowed_macros:
                raise Undecided("%s: dropped text invokes macro %s!" % (rule, name))


def r1_cfg_drop(text, extra_features=()):
    """R1: delete the statement/block following #[cfg(feature = "metrics"|"tracing"|any(..))]."""
    n = 0
    while True:
        m = mask(text)
        # attribute content is not a string literal in mask? the feature name is a string -> blanked; match loosely
        mm = re.search(r"#\[cfg\(\s*(any\s*\()?\s*feature\s*=\s*\"[^\"]*\"[^\]]*\)\]", text)
        # ensure it's really code (the '#' survives masking)
        while mm and m[mm.start()] != "#":
            mm = re.search(r"#\[cfg\(\s*(any\s*\()?\s*feature\s*=\s*\"[^\"]*\"[^\]]*\)\]", text[mm.end():])
            if mm:
                raise Undecided("R1: cfg attribute inside comment handling")
        if not mm:
            break
        feat = re.findall(r"feature\s*=\s*\"([^\"]*)\"", mm.group(0))
        if not set(feat) <= ({"metrics", "tracing"} | set(extra_features)) or "not(" in mm.group(0):
            raise Undecided("R1: unexpected cfg attribute %s" % mm.group(0))
        s = mm.end()
        while s < len(m) and m[s].isspace():
            s += 1
        fm = re.match(r"[A-Za-z_]\w*\s*:(?!:)", m[s:])
        if fm:
            # a cfg'd field initializer inside a struct literal (`#[cfg(..)] f: expr,`): the field does not exist in the build under
            # contract; drop it up to the next comma at this nesting depth
            depth, e = 0, s
            while e < len(m):
                if m[e] in "([{":
                    depth += 1
                elif m[e] in ")]}":
                    if depth == 0:
                        break
                    depth -= 1
                elif m[e] == "," and depth == 0:
                    e += 1
                    break
                e += 1
            text = text[:mm.start()] + text[e:]
            n += 1
            continue
        e = _stmt_end(m, s)
        dropped = text[s:e]
        _check_dropped(dropped, "R1", ALLOWED_MACROS_R1)
        text = text[:mm.start()] + text[e:]
        n += 1
    return text, n


def r2_emit_drop(text):
    """R2: delete `<recv>.emit(&<event expr>);` statements and a directly preceding
    `let event = ...;` that is used only by the emit."""
    n = 0
    while True:
        m = mask(text)
        mm = re.search(r"\.\s*emit\s*\(", m)
        if not mm:
            break
        s = _stmt_start(m, mm.start())
        e = _stmt_end(m, s)
        dropped = text[s:e]
        if not re.match(r"\s*[A-Za-z_][\w\.\s]*\.\s*emit\s*\(", mask(dropped)):
            raise Undecided("R2: emit is not a plain statement: %r" % dropped[:120])
        _check_dropped(dropped, "R2", {"format", "matches"})
        # `let event = X;` directly before
        arg = re.search(r"\.\s*emit\s*\(\s*&\s*([A-Za-z_]\w*)\s*\)\s*;\s*$", mask(dropped))
        if arg:
            var = arg.group(1)
            # find `let <var> = ...;` immediately preceding (only whitespace/comments between)
            pre_m = m[:s]
            k = len(pre_m.rstrip())
            if k > 0 and pre_m[k - 1] == ";":
                ls = _stmt_start(pre_m, k - 1)
                stmt = text[ls:k]
                if re.match(r"\s*let\s+%s\s*=" % re.escape(var), mask(stmt)):
                    # uses until the end of the enclosing block or the next re-binding of the name
                    depth, q = 0, e
                    while q < len(m):
                        if m[q] in "([{":
                            depth += 1
                        elif m[q] in ")]}":
                            depth -= 1
                            if depth < 0:
                                break
                        q += 1
                    scope = m[e:q]
                    rb = re.search(r"\blet\s+(mut\s+)?%s\b" % re.escape(var), scope)
                    if rb:
                        scope = scope[:rb.start()]
                    rest_uses = len(re.findall(r"\b%s\b" % re.escape(var), scope))
                    if rest_uses == 0:
                        _check_dropped(stmt, "R2", {"format", "matches"})
                        s = ls
        text = text[:s] + text[e:]
        n += 1
    return text, n


def sub(text, pat, repl, count=None, flags=re.S, on_masked=True, name="sub"):
    """regex substitution; the pattern is matched against the masked text, replacement is
    spliced into the real text. count: exact number of applications required (None: >= 1)."""
    m = mask(text) if on_masked else text
    out, last, k = [], 0, 0
    for mm in re.finditer(pat, m, flags):
        out.append(text[last:mm.start()])
        # expand groups against the real text
        def grp(g):
            a, b = mm.span(g)
            return text[a:b] if a >= 0 else ""
        r = re.sub(r"\\(\d)", lambda x: grp(int(x.group(1))).replace("\\", "\\\\"), repl) if isinstance(repl, str) else repl(mm, text)
        out.append(r)
        last = mm.end()
        k += 1
    out.append(text[last:])
    if (count is None and k == 0) or (count is not None and count >= 0 and k != count):
        raise Undecided("%s: pattern %r matched %d times, expected %s" % (name, pat, k, ">=1" if count is None else count))
    return "".join(out), k


def add_arg(text, names, extra, count=None):
    """append `extra` as last argument to every call `name(...)` for name in names."""
    k = 0
    pos = 0
    if "call" in names and "oneshot" not in names:
        names = list(names) + ["oneshot"]   # tower::ServiceExt::oneshot is the other way a layer invokes its inner service
    pat = re.compile(r"(?<![\w])(%s)\s*(::<[^()]*>)?\s*\(" % "|".join(re.escape(x) for x in names))
    while True:
        m = mask(text)
        mm = pat.search(m, pos)
        if not mm:
            break
        # skip definitions `fn name(`
        if re.search(r"\bfn\s+$", m[:mm.start()]):
            pos = mm.end()
            continue
        op = mm.end() - 1
        cp = match_close(m, op)
        inner = m[op + 1:cp].strip()
        ins = extra if not inner else (", " + extra if not inner.endswith(",") else " " + extra)
        text = text[:cp] + ins + text[cp:]
        pos = mm.end()
        k += 1
    # The ghost argument has to reach EVERY call site, however many the function has today: a number that differs from the one
    # the unit was written against is not an error (a missing or doubled call is for the callee's contract to judge, and a call
    # site the rule cannot see ends as a compile error -> exit 2).
    return text, k


def r21_ready_macro(text):
    """R21: `ready!(E)` / `std::task::ready!(E)` / `futures::ready!(E)` -> its expansion
    `(match E { Poll::Ready(v) => v, Poll::Pending => return Poll::Pending })`"""
    k = 0
    while True:
        m = mask(text)
        mm = re.search(r"(?<![\w:])(?:(?:std|core)::task::|futures::)?ready!\s*\(", m)
        if not mm:
            break
        op = mm.end() - 1
        cp = match_close(m, op)
        text = text[:mm.start()] + "(match %s { Poll::Ready(vx_rdy) => vx_rdy, Poll::Pending => return Poll::Pending })" % text[op + 1:cp].strip() + text[cp + 1:]
        k += 1
    return text, k


def r22_canonical_local(text, pattern, canonical):
    """R22: the local bound by the statement matching `pattern` (group 1 = its name) is renamed to `canonical` throughout the body
    (contracts and loop invariants written in unit.py speak about locals by name). No-op if it already has that name; refuses
    (Undecided) if `canonical` is already used for something else."""
    m = mask(text)
    mm = re.search(pattern, m)
    if not mm:
        return text, 0
    old = mm.group(1)
    if old == canonical:
        return text, 0
    if re.search(r"\b%s\b" % re.escape(canonical), m):
        raise Undecided("R22: cannot rename local %s to %s: the name is already in use" % (old, canonical))
    out, last = [], 0
    for w in re.finditer(r"(?<![\w.])%s\b" % re.escape(old), m):
        out.append(text[last:w.start()])
        out.append(canonical)
        last = w.end()
    out.append(text[last:])
    return "".join(out), 1


def r10_map_or(text):
    """R10m (always applied): `E.map_or(D, |p| B)` -> `(match E { Some(p) => B, None => D })` — Verus has no specification for
    Option::map_or; the match is its definition. Only closures with one simple parameter and no nested closure; E: postfix chain."""
    k = 0
    pos = 0
    while True:
        m = mask(text)
        mm = re.compile(r"\.\s*map_or\(").search(m, pos)
        if not mm:
            break
        op = mm.end() - 1
        cp = match_close(m, op)
        inner = text[op + 1:cp]
        mi = mask(inner)
        # split default / closure on the first top-level comma
        depth, cut = 0, -1
        for i, ch in enumerate(mi):
            if ch in "([{":
                depth += 1
            elif ch in ")]}":
                depth -= 1
            elif ch == "," and depth == 0:
                cut = i
                break
        cm = re.match(r"\s*\|\s*(&?\s*\w+)\s*\|\s*(.*)$", inner[cut + 1:], re.S) if cut >= 0 else None
        if not cm or "|" in mask(cm.group(2)).replace("||", ""):
            pos = mm.end()
            continue
        dflt = inner[:cut].strip()
        param = cm.group(1).replace("&", "").strip()
        body = cm.group(2).strip().rstrip(",").strip()
        s0 = _receiver_start(m, mm.start())
        recv = text[s0:mm.start()]
        rep = "(match %s { Some(%s) => %s, None => %s })" % (recv, param, body, dflt)
        text = text[:s0] + rep + text[cp + 1:]
        pos = s0 + len(rep)
        k += 1
    return text, k


def r10_map_or_else(text):
    """R10m (always applied): `E.map_or_else(D, F)` -> `(match E { Some(p) => F(p), None => D() })` where D is `|| expr` or a function
    path and F is `|p| expr` or a function path (Option::map_or_else has no Verus specification; the match is its definition)."""
    k = 0
    pos = 0
    while True:
        m = mask(text)
        mm = re.compile(r"\.\s*map_or_else\(").search(m, pos)
        if not mm:
            break
        op = mm.end() - 1
        cp = match_close(m, op)
        inner = text[op + 1:cp]
        mi = mask(inner)
        depth, cut = 0, -1
        for i, ch in enumerate(mi):
            if ch in "([{":
                depth += 1
            elif ch in ")]}":
                depth -= 1
            elif ch == "," and depth == 0:
                cut = i
                break
        if cut < 0:
            pos = mm.end()
            continue
        a, b = inner[:cut].strip(), inner[cut + 1:].strip().rstrip(",").strip()
        am = re.match(r"^\|\|\s*(.*)$", a, re.S)
        if am:
            none_e = am.group(1).strip()
        elif re.match(r"^[A-Za-z_][\w:]*$", a):
            none_e = a + "()"
        else:
            pos = mm.end()
            continue
        bm = re.match(r"^\|\s*(&?\s*\w+)\s*\|\s*(.*)$", b, re.S)
        if bm and "|" not in mask(bm.group(2)).replace("||", ""):
            some_p, some_e = bm.group(1).replace("&", "").strip(), bm.group(2).strip()
        elif re.match(r"^[A-Za-z_][\w:]*$", b):
            some_p, some_e = "vx_p", b + "(vx_p)"
        else:
            pos = mm.end()
            continue
        if "|" in mask(none_e).replace("||", ""):
            pos = mm.end()
            continue
        s0 = _receiver_start(m, mm.start())
        recv = text[s0:mm.start()]
        rep = "(match %s { Some(%s) => %s, None => %s })" % (recv, some_p, some_e, none_e)
        text = text[:s0] + rep + text[cp + 1:]
        pos = s0 + len(rep)
        k += 1
    return text, k


def r3_await(text, arg="Tracked(tr)"):
    return sub(text, r"\.\s*await\b", ".vx_await(%s)" % arg, count=-1, name="R3")


def r4_async_inline(text, created="proof { tr.future_created(); }"):
    """R4: Box::pin(async move { B })  ->  { vx_future_created(..); B }"""
    m = mask(text)
    k = 0
    while True:
        m = mask(text)
        mm = re.search(r"Box::pin\s*\(\s*async\s+move\s*\{", m)
        if not mm:
            break
        op = m.index("(", mm.start())
        cp = match_close(m, op)
        ob = mm.end() - 1
        cb = match_close(m, ob)
        if m[cb + 1:cp].strip():
            raise Undecided("R4: unexpected tokens after async block")
        text = text[:mm.start()] + "{ " + created + text[ob + 1:cb] + "}" + text[cp + 1:]
        k += 1
    if k == 0:
        raise Undecided("R4: no Box::pin(async move {..}) found")
    return text, k


def r5_clock(text, clk="clk"):
    t, a = sub(text, r"(?:std::time::)?Instant::now\(\)", "%s.now()" % clk, count=-1, name="R5a")
    t, b = sub(t, r"((?:[A-Za-z_]\w*)(?:\s*\.\s*[A-Za-z_]\w*)*)\s*\.\s*elapsed\(\)", "%s.elapsed(\\1)" % clk, count=-1, name="R5b")
    return t, a + b


def r10_map_unwrap_or(text, count=None):
    """E.map(|p| B).unwrap_or(D)  ->  (match E { Some(p) => B, None => D })   for any postfix-chain receiver E; B and D are balanced
    argument texts (B without nested closures)."""
    k = 0
    pos = 0
    while True:
        m = mask(text)
        mm = re.compile(r"\.\s*map\(\s*\|\s*(\w+)\s*\|").search(m, pos)
        if not mm:
            break
        op1 = m.index("(", mm.start())
        cp1 = match_close(m, op1)
        m2 = re.match(r"\s*\.\s*unwrap_or\(", m[cp1 + 1:])
        body = text[mm.end():cp1].strip()
        if not m2 or "|" in mask(body).replace("||", ""):
            pos = mm.end()
            continue
        op2 = cp1 + 1 + m2.end() - 1
        cp2 = match_close(m, op2)
        dflt = text[op2 + 1:cp2].strip()
        s0 = _receiver_start(m, mm.start())
        recv = text[s0:mm.start()]
        rep = "(match %s { Some(%s) => %s, None => %s })" % (recv, mm.group(1), body, dflt)
        text = text[:s0] + rep + text[cp2 + 1:]
        pos = s0 + len(rep)
        k += 1
    if (count is None and k == 0) or (count is not None and count >= 0 and k != count):
        raise Undecided("R10: %d map(..).unwrap_or(..) sites, expected %s" % (k, count))
    return text, k


def _receiver_start(m, dot):
    """start offset of the postfix-expression chain that ends right before m[dot] == '.'"""
    p = dot
    while True:
        q = p - 1
        while q >= 0 and m[q].isspace():
            q -= 1
        if q < 0:
            return 0
        ch = m[q]
        if ch in ")]":
            p = match_open(m, q)
            continue
        if ch == "?":
            p = q
            continue
        if ch.isalnum() or ch == "_":
            k = q
            while k >= 0 and (m[k].isalnum() or m[k] == "_"):
                k -= 1
            p = k + 1
            # path segment `a::b`
            if m[:p].rstrip().endswith("::"):
                p = len(m[:p].rstrip()) - 2
                continue
            # method chain: `.` before (possibly across whitespace)
            r = p - 1
            while r >= 0 and m[r].isspace():
                r -= 1
            if r >= 0 and m[r] == ".":
                p = r
                continue
            if r >= 0 and m[r] == "&":
                return r
            return p
        return p


def r10_map_err(text, count=None):
    """E.map_err(Path::Variant) -> (match E { Ok(v) => Ok(v), Err(e) => Err(Path::Variant(e)) })
    for any postfix-chain receiver E (Verus rejects constructors used as function values)."""
    k = 0
    while True:
        m = mask(text)
        mm = re.search(r"\.\s*map_err\(\s*([A-Z_a-z][\w:]*)\s*\)", m)
        if not mm:
            break
        s0 = _receiver_start(m, mm.start())
        recv = text[s0:mm.start()]
        text = text[:s0] + "(match %s { Ok(vx_v) => Ok(vx_v), Err(vx_e) => Err(%s(vx_e)) })" % (recv, mm.group(1)) + text[mm.end():]
        k += 1

    return text, k


def r10_result_map_chain(text, count=None):
    """E.map(|p| B).map_err(|q| C)  ->  (match E { Ok(p) => Ok(B), Err(q) => Err(C) })  for closure bodies without nested closures;
    `_` parameters get fresh names (Verus rejects `_` closure parameters and learns nothing from unannotated closures)."""
    k = 0
    while True:
        m = mask(text)
        found = None
        for mm in re.finditer(r"\.\s*map\(\s*\|\s*(\w+)\s*\|", m):
            op1 = m.index("(", mm.start())
            cp1 = match_close(m, op1)
            m2 = re.match(r"\s*\.\s*map_err\(\s*\|\s*(\w+)\s*\|", m[cp1 + 1:])
            if not m2:
                continue
            op2 = m.index("(", cp1 + 1)
            cp2 = match_close(m, op2)
            b1 = text[mm.end():cp1].strip()
            b2 = text[cp1 + 1 + m2.end():cp2].strip()
            if "|" in mask(b1) or "|" in mask(b2):
                continue
            found = (mm.start(), cp2, mm.group(1), b1, m2.group(1), b2)
            break
        if not found:
            break
        st, en, p1, b1, p2, b2 = found
        s0 = _receiver_start(m, st)
        recv = text[s0:st]
        p1 = "vx_p%d" % k if p1 == "_" else p1
        p2 = "vx_q%d" % k if p2 == "_" else p2
        text = text[:s0] + "(match %s { Ok(%s) => Ok(%s), Err(%s) => Err(%s) })" % (recv, p1, b1, p2, b2) + text[en + 1:]
        k += 1
    if (count is None and k == 0) or (count is not None and count >= 0 and k != count):
        raise Undecided("R10r: %d map/map_err chains, expected %s" % (k, count))
    return text, k


def r10_option_filter(text, count=None):
    """E.filter(|&p| B) / E.filter(|p| B)  ->  (match E { Some(p) => if B { Some(p) } else { None }, None => None })
    for Option receivers of Copy payloads (closure body without nested closures)."""
    k = 0
    while True:
        m = mask(text)
        mm = re.search(r"\.\s*filter\(\s*\|\s*(&?)\s*(\w+)\s*\|", m)
        if not mm:
            break
        op = m.index("(", mm.start())
        cp = match_close(m, op)
        body = text[mm.end():cp].strip()
        if "|" in mask(body).replace("||", ""):
            raise Undecided("R10f: nested closure in filter body")
        p = mm.group(2)
        if p == "_":
            p = "vx_f"      # `|_| B`: the payload is not looked at
        elif not mm.group(1):
            body = re.sub(r"\*\s*%s\b" % re.escape(p), p, body)   # |p| *p > 0  ->  p > 0
        s0 = _receiver_start(m, mm.start())
        recv = text[s0:mm.start()]
        text = text[:s0] + "(match %s { Some(%s) => if %s { Some(%s) } else { None }, None => None })" % (recv, p, body, p) + text[cp + 1:]
        k += 1
    if (count is None and k == 0) or (count is not None and count >= 0 and k != count):
        raise Undecided("R10f: %d Option::filter sites, expected %s" % (k, count))
    return text, k


def r10_poll_map_err(text, variant, count=-1):
    """X.poll_ready(cx).map_err(V) -> three-arm match on Poll (R10, Poll form)."""
    pat = r"((?:[A-Za-z_]\w*)(?:\s*\.\s*[A-Za-z_]\w*)*\s*\.\s*poll_ready\(\s*cx\s*\))\s*\.\s*map_err\(\s*%s\s*\)" % re.escape(variant)
    repl = "(match \\1 { Poll::Ready(Ok(vx_v)) => Poll::Ready(Ok(vx_v)), Poll::Ready(Err(vx_e)) => Poll::Ready(Err(%s(vx_e))), Poll::Pending => Poll::Pending })" % variant
    text, k = sub(text, pat, repl, count=count, name="R10p")
    # the same on a simple local that holds a Poll (`other.map_err(V)` in a match arm of a poll function)
    pat2 = r"(?<![\w.)])([a-z_]\w*)\s*\.\s*map_err\(\s*%s\s*\)" % re.escape(variant)
    repl2 = "(match \\1 { Poll::Ready(Ok(vx_v)) => Poll::Ready(Ok(vx_v)), Poll::Ready(Err(vx_e)) => Poll::Ready(Err(%s(vx_e))), Poll::Pending => Poll::Pending })" % variant
    text, k2 = sub(text, pat2, repl2, count=-1, name="R10p")
    return text, k + k2


ATOMIC_OPS = ("load", "store", "compare_exchange_weak", "compare_exchange", "fetch_add", "fetch_sub", "swap", "fetch_max", "fetch_min")


def r7_atomics(text, blocks, recv_pat=r"(?:[A-Za-z_]\w*)(?:\s*\.\s*(?:[A-Za-z_]\w*|\d+))*"):
    """R7: RECV.op(args.., Ordering::X) -> atomic_with_ghost!(&RECV => op(args..); returning ret; ghost g => { BLOCK }).
    blocks: list (one per atomic operation, in order of appearance) of ghost block texts."""
    k = 0
    pos = 0
    pat = re.compile(r"(%s)\s*\.\s*(%s)\s*\(" % (recv_pat, "|".join(ATOMIC_OPS)))
    while True:
        m = mask(text)
        mm = pat.search(m, pos)
        if not mm:
            break
        # the receiver regex is greedy over dotted paths; make sure op is the last segment
        op_open = mm.end() - 1
        op_close = match_close(m, op_open)
        args = []
        depth, cur = 0, []
        for ch in text[op_open + 1:op_close]:
            if ch in "([{":
                depth += 1
            elif ch in ")]}":
                depth -= 1
            if ch == "," and depth == 0:
                args.append("".join(cur).strip())
                cur = []
            else:
                cur.append(ch)
        if "".join(cur).strip():
            args.append("".join(cur).strip())
        kept = [a for a in args if not re.match(r"^(std::sync::atomic::)?Ordering::\w+$", a)]
        if len(kept) == len(args):
            pos = mm.end()   # not an atomic call (no Ordering argument)
            continue
        every = not isinstance(blocks, (list, tuple))
        if not every and k >= len(blocks):
            raise Undecided("R7: more atomic operations than ghost blocks (%d)" % len(blocks))
        recv = " ".join(mm.group(1).split())
        op = mm.group(2)
        ret = "" if op in ("load", "store") else " returning ret;"
        blk = blocks if every else blocks[k]
        if isinstance(blk, dict):
            blk = blk.get(op, blk.get("default"))
            if blk is None:
                raise Undecided("R7: no ghost block for atomic operation %s (#%d)" % (op, k))
        repl = "atomic_with_ghost!(&%s => %s(%s);%s ghost g => { %s\n})" % (recv, op, ", ".join(kept), ret, blk)
        text = text[:mm.start()] + repl + text[op_close + 1:]
        pos = mm.start() + len(repl)
        k += 1
    if isinstance(blocks, (list, tuple)) and k != len(blocks):
        raise Undecided("R7: %d atomic operations found, %d ghost blocks configured" % (k, len(blocks)))
    if k == 0 and isinstance(blocks, (list, tuple)):
        raise Undecided("R7: no atomic operation found")
    return text, k


def loops(text):
    """offsets (keyword_start, body_open) of loops in order of appearance."""
    m = mask(text)
    res = []
    for mm in re.finditer(r"(?<![\w'])(loop|while|for)\b", m):
        if mm.group(1) == "for" and re.match(r"\s*<", m[mm.end():]):
            continue
        ob = first_body_brace(m, mm.end())
        if ob < 0:
            continue
        res.append((mm.start(), ob, mm.group(1)))
    return res


def annotate_loops(text, ann: dict, optional=False):
    """ann: ordinal -> text inserted between the loop header and its '{'. optional: a body with fewer
    loops than annotations is accepted (a loop-free body has no loop obligations)."""
    ls = loops(text)
    if optional:
        ann = {k: v for k, v in ann.items() if not isinstance(k, int) or k < len(ls)}
    for k in ann:
        if k >= len(ls):
            raise Undecided("loop #%d not found (body has %d loops)" % (k, len(ls)))
    if ann and len(ls) != max(ann) + 1 and not ann.get("_allow_extra"):
        pass
    for k in sorted([x for x in ann if isinstance(x, int)], reverse=True):
        ob = ls[k][1]
        text = text[:ob] + "\n" + ann[k].rstrip() + "\n" + text[ob:]
    return text, len([x for x in ann if isinstance(x, int)])


def inject(text, anchor, where, code, count=1):
    """insert `code` before/after the statement containing the match of `anchor`
    ('before' | 'after' | 'at' (replace match end))."""
    m = mask(text)
    if where == "end":
        k = m.rstrip().rfind("}")
        return text[:k] + "\n" + code + "\n" + text[k:], 1
    if where == "start":
        k = m.index("{")
        return text[:k + 1] + "\n" + code + "\n" + text[k + 1:], 1
    if where == "result":
        # ghost bookkeeping as a function of the RESULT, whatever the shape of the body: `{ let vx_result = BODY; CODE vx_result }`.
        # Only for bodies without `return` (an early return would bypass the bookkeeping) -> otherwise undecided.
        if re.search(r"\breturn\b", m):
            raise Undecided("inject(result): the body contains `return`")
        ob = m.index("{")
        cb = match_close(m, ob)
        return text[:ob] + "{ let vx_result = " + text[ob:cb + 1] + ";\n" + code + "\n vx_result }" + text[cb + 1:], 1
    ms = list(re.finditer(anchor, m, re.S))
    if count == "optional":
        if len(ms) > 1:
            raise Undecided("inject: optional anchor %r matched %d times" % (anchor, len(ms)))
    elif len(ms) != count:
        raise Undecided("inject: anchor %r matched %d times, expected %d" % (anchor, len(ms), count))
    for mm in reversed(ms):
        if where == "after":
            e = _stmt_end(m, _stmt_start(m, mm.start()))
            text = text[:e] + "\n" + code + "\n" + text[e:]
        elif where == "before":
            s = _stmt_start(m, mm.start())
            text = text[:s] + "\n" + code + "\n" + text[s:]
        elif where == "at":
            text = text[:mm.end()] + code + text[mm.end():]
        else:
            raise ValueError(where)
    return text, len(ms)


def r18_for_to_index(text, count=None):
    """R18: `for PAT in &EXPR {`  ->  index loop over EXPR (a dotted path to a Vec/VecDeque):
    `let mut vx_i: usize = 0; while vx_i < EXPR.len() { let PAT = &EXPR[vx_i]; vx_i += 1; ...`
    (increment first, so `continue` keeps its meaning)."""
    k = 0
    while True:
        m = mask(text)
        mm = re.search(r"\bfor\s+(\w+)\s+in\s+&\s*((?:[A-Za-z_]\w*)(?:\s*\.\s*[A-Za-z_]\w*)*)\s*\{", m)
        if not mm:
            break
        pat, expr = mm.group(1), mm.group(2)
        idx = "vx_i%d" % k if k else "vx_i"
        repl = "let mut %s: usize = 0; while %s < %s.len() { let %s = &%s[%s]; %s += 1;" % (idx, idx, expr, pat, expr, idx, idx)
        text = text[:mm.start()] + repl + text[mm.end():]
        k += 1
    if (count is None and k == 0) or (count is not None and count >= 0 and k != count):
        raise Undecided("R18: %d for-loops over references, expected %s" % (k, count))
    return text, k


def r14_leaf(text, name, free, leaves, prefix="vx_leaf_"):
    """R14: `let <name> = <expr>;` -> `let <name> = vx_leaf_<name>(<free>);`; the initializer text is
    recorded so that the Kani leaf crate is generated from the same text."""
    m = mask(text)
    ms = list(re.finditer(r"\blet\s+%s\s*(?::\s*[\w:<>]+\s*)?=\s*" % re.escape(name), m))
    if len(ms) != 1:
        raise Undecided("R14: `let %s = ...` found %d times" % (name, len(ms)))
    s = ms[0].end()
    e = _stmt_end(m, s)
    expr = text[s:e - 1].strip()
    leaves[name] = dict(expr=expr, free=free)
    text = text[:s] + "%s%s(%s)" % (prefix, name, ", ".join(free)) + text[e - 1:]
    return text, 1


def r15_opaque(text, start_pat, macro_pat, replacement):
    """R15: the statements from the match of start_pat through the end of the macro block opened by macro_pat
    (e.g. tokio::select! { .. }) are replaced by a call to an opaque effect."""
    m = mask(text)
    ms = re.search(start_pat, m, re.S)
    if not ms:
        raise Undecided("R15: start anchor %r not found" % start_pat)
    mm = re.compile(macro_pat, re.S).search(m, ms.end())
    if not mm:
        raise Undecided("R15: macro anchor %r not found" % macro_pat)
    ob = m.index("{", mm.end() - 1)
    cb = match_close(m, ob)
    return text[:ms.start()] + replacement + text[cb + 1:], 1


def r_wrap_calls(text, callee_pat, replacement, count=None):
    """replace every call `CALLEE(<balanced args>)` (callee given as regex) by `replacement` (arguments dropped)."""
    k = 0
    pos = 0
    pat = re.compile(callee_pat + r"\s*\(")
    while True:
        m = mask(text)
        mm = pat.search(m, pos)
        if not mm:
            break
        op = mm.end() - 1
        cp = match_close(m, op)
        # `{args}` in the replacement stands for the original (balanced) argument text
        rep = replacement.replace("{args}", text[op + 1:cp].strip())
        text = text[:mm.start()] + rep + text[cp + 1:]
        pos = mm.start() + len(rep)
        k += 1
    if (count is None and k == 0) or (count is not None and count >= 0 and k != count):
        raise Undecided("wrap-calls %s: %d call sites, expected %s" % (callee_pat, k, count))
    return text, k


def r17_spawn_inline(text, count=None, pre="proof { tr.spawned = tr.spawned + 1; }"):
    """R17 (spawn): `tokio::spawn(async move { B });` -> `{ PRE B }` executed in line.
    Over-approximation for safety clauses of the spawning function: the detached task runs to completion (tokio, assumed); its only
    interaction with the spawner is the message it sends, and the receiving side may pick any pending message in any order."""
    k = 0
    while True:
        m = mask(text)
        mm = re.search(r"tokio::spawn\s*\(\s*async\s+move\s*\{", m)
        if not mm:
            break
        op = m.index("(", mm.start())
        cp = match_close(m, op)
        ob = mm.end() - 1
        cb = match_close(m, ob)
        if m[cb + 1:cp].strip():
            raise Undecided("R17-spawn: unexpected tokens after the async block")
        text = text[:mm.start()] + "{ " + pre + text[ob + 1:cb] + "}" + text[cp + 1:]
        k += 1
    if (count is None and k == 0) or (count is not None and count >= 0 and k != count):
        raise Undecided("R17-spawn: %d spawn sites, expected %s" % (k, count))
    return text, k


def _split_select_arms(body):
    """body: text inside tokio::select! { ... }. returns (biased, [dict(pat, fut, cond, code)], else_code)"""
    m = mask(body)
    i = 0
    n = len(m)
    biased = False
    mm = re.match(r"\s*biased\s*;", m)
    if mm:
        biased = True
        i = mm.end()
    arms, else_code = [], None

    def skip_ws(j):
        while j < n and m[j].isspace():
            j += 1
        return j

    def scan_until(j, stops):
        """scan from j at depth 0 until one of the stop strings; returns (index, stop)"""
        depth = 0
        while j < n:
            ch = m[j]
            if ch in "([{":
                depth += 1
            elif ch in ")]}":
                depth -= 1
            if depth == 0:
                for st in stops:
                    if m.startswith(st, j):
                        if st == "=" and (m.startswith("=>", j) or m.startswith("==", j) or (j > 0 and m[j - 1] in "=!<>")):
                            continue
                        return j, st
            j += 1
        return n, None

    while True:
        i = skip_ws(i)
        if i >= n:
            break
        if m.startswith("else", i):
            j, _ = scan_until(i, ["=>"])
            j = skip_ws(j + 2)
            if m[j] != "{":
                raise Undecided("R17-select: else arm without block")
            cb = match_close(m, j)
            else_code = body[j:cb + 1]
            i = cb + 1
            if skip_ws(i) < n and m[skip_ws(i)] == ",":
                i = skip_ws(i) + 1
            continue
        j, st = scan_until(i, ["="])
        if st is None:
            raise Undecided("R17-select: cannot parse arm")
        pat = body[i:j].strip()
        k, st = scan_until(j + 1, [", if", ",if", "=>"])
        fut = body[j + 1:k].strip()
        cond = None
        if st and st.startswith(","):
            k2, _ = scan_until(k + len(st), ["=>"])
            cond = body[k + len(st):k2].strip()
            k = k2
        j = skip_ws(k + 2)
        if m[j] == "{":
            cb = match_close(m, j)
            code = body[j:cb + 1]
            i = cb + 1
        else:
            e, _ = scan_until(j, [","])
            code = "{ " + body[j:e] + " }"
            i = e
        if skip_ws(i) < n and m[skip_ws(i)] == ",":
            i = skip_ws(i) + 1
        arms.append(dict(pat=pat, fut=fut, cond=cond, code=code))
    return biased, arms, else_code


def r17_select(text, count=1):
    """R17 (select): tokio::select! { [biased;] P0 = rx.recv() => B0  P1 = F1 [, if C1] => B1  [else => B2] }
    -> match vx_select2(C1, Tracked(tr)) { 0 => match rx.recv().vx_await(..) { P0 => B0, _ => unreachable }, 1 => { let P1 = F1.vx_await(..); B1 }, _ => B2 }
    The choice among enabled branches is nondeterministic (every real execution, biased or not, is one of the modelled ones)."""
    k = 0
    while True:
        m = mask(text)
        mm = re.search(r"tokio::select!\s*\{", m)
        if not mm:
            break
        ob = mm.end() - 1
        cb = match_close(m, ob)
        biased, arms, else_code = _split_select_arms(text[ob + 1:cb])
        if len(arms) != 2 or arms[0]["cond"]:
            raise Undecided("R17-select: unsupported shape (%d arms)" % len(arms))
        c1 = arms[1]["cond"] or "true"
        f1 = arms[1]["fut"]
        repl = ("match vx_select2(%s, Tracked(tr)) {\n 0 => { match (%s).vx_await(Tracked(tr)) { %s => %s, #[allow(unreachable_patterns)] _ => { vx_never() } } }\n"
                " 1 => { let %s = (%s).vx_await(Tracked(tr)); %s }\n _ => %s\n}") % (
                    c1, arms[0]["fut"], arms[0]["pat"], arms[0]["code"], arms[1]["pat"], f1, arms[1]["code"], else_code or "{ vx_never() }")
        text = text[:mm.start()] + repl + text[cb + 1:]
        k += 1
    if (count is None and k == 0) or (count is not None and count >= 0 and k != count):
        raise Undecided("R17-select: %d select! sites, expected %s" % (k, count))
    return text, k


def apply_rules(text, rules, log, fn):
    """rules: list of tuples (kind, *args)."""
    text, k21 = r21_ready_macro(text)      # always: a macro Verus does not know, replaced by its documented expansion
    if k21:
        log["R21-ready"] = log.get("R21-ready", 0) + k21
    # Option::as_deref has no Verus specification; for the method calls made on the payload `as_ref` is the same (auto-deref)
    text, kad = sub(text, r"\.\s*as_deref\(\)", ".as_ref()", count=-1, name="R10d")
    if kad:
        log["R10d-as_deref"] = log.get("R10d-as_deref", 0) + kad
    # struct update from the trait's default: `..Default::default()` is `..Self::default()` for a literal of the impl's own type; the
    # template's types have no trait impls, their `default` is an inherent function under contract (or missing -> compile error -> exit 2)
    text, kdf = sub(text, r"\.\.\s*(?:std::default::|core::default::)?Default::default\(\)", "..Self::default()", count=-1, name="R10s")
    if kdf:
        log["R10s-struct-update-default"] = log.get("R10s-struct-update-default", 0) + kdf
    text, k10me = r10_map_or_else(text)
    if k10me:
        log["R10m-map_or_else"] = log.get("R10m-map_or_else", 0) + k10me
    text, k10m = r10_map_or(text)
    if k10m:
        log["R10m-map_or"] = log.get("R10m-map_or", 0) + k10m
    for r in rules:
        kind = r[0]
        if kind == "R1":
            text, k = r1_cfg_drop(text, *r[1:])
        elif kind == "R2":
            text, k = r2_emit_drop(text)
        elif kind == "R3":
            text, k = r3_await(text, *r[1:])
        elif kind == "R4":
            text, k = r4_async_inline(text, *r[1:])
        elif kind == "R5":
            text, k = r5_clock(text, *r[1:])
        elif kind == "R10":
            text, k = r10_map_unwrap_or(text, *r[1:])
        elif kind == "R10e":
            text, k = r10_map_err(text, *r[1:])
        elif kind == "R7":
            text, k = r7_atomics(text, *r[1:])
        elif kind == "wrapcalls":
            text, k = r_wrap_calls(text, *r[2:])
            kind = r[1]
        elif kind == "R17-spawn":
            text, k = r17_spawn_inline(text, *r[1:])
        elif kind == "R17-select":
            text, k = r17_select(text, *r[1:])
        elif kind == "R15":
            text, k = r15_opaque(text, *r[1:])
        elif kind == "R10r":
            text, k = r10_result_map_chain(text, *r[1:])
        elif kind == "R22":
            text, k = r22_canonical_local(text, r[1], r[2])
        elif kind == "R10f":
            text, k = r10_option_filter(text, *r[1:])
        elif kind == "R10p":
            text, k = r10_poll_map_err(text, *r[1:])
        elif kind == "R18":
            text, k = r18_for_to_index(text, *r[1:])
        elif kind == "R14":
            text, k = r14_leaf(text, r[1], r[2], log.setdefault("_leaves", {}), *(r[3:]))
        elif kind == "sub":
            # ("sub", id, pat, repl[, count])
            text, k = sub(text, r[2], r[3], r[4] if len(r) > 4 else None, name=r[1])
            kind = r[1]
        elif kind == "addarg":
            text, k = add_arg(text, r[1], r[2], r[3] if len(r) > 3 else None)
            kind = "R6" if "Tracked" in r[2] else "R5"
        elif kind == "loops":
            text, k = annotate_loops(text, r[1], *(r[2:]))
            kind = "loop-contract"
        elif kind == "inject":
            text, k = inject(text, r[1], r[2], r[3], r[4] if len(r) > 4 else 1)
            kind = "ghost-inject"
        else:
            raise ValueError("unknown rule %r" % (kind,))
        if k:
            if kind == "R14":
                log["R14"] = log.get("R14", 0) + k
                continue
            log.setdefault(kind, 0)
            log[kind] += k
    return text
