"""R19: inline calls to private helper functions the unit does not know.

A harmless clean-up most often moves a few lines of a function under contract into a new private helper (or a free
function of the same file). The unit's contracts and rewrite rules were written against the function as it was; the new
helper has no contract. Verification is modular, so an uncontracted callee would make the caller's obligations
unprovable. R19 therefore splices the helper's body back into the caller — `{ let p = arg; ...; BODY }` — BEFORE the
caller's rules run. This is a semantics-preserving, purely mechanical transformation for helpers that

  * are defined in the same source file: in an inherent `impl` of the same type (called `self.h(..)` / `Self::h(..)` /
    `Type::h(..)`) or as a free function (called `h(..)`),
  * are not `pub` (crate-private API may be inlined, the public API is never touched),
  * are not async (an `.await` can then only sit inside an `async` block of the helper), contain no `return`, no `?` and no labelled
    break/continue (early exits would leave the caller instead),
  * take only simple identifier parameters,
  * and are UNKNOWN to the unit: the name occurs neither in the unit's template nor in its unit.py.

Anything else is left alone (and then normally ends as a compile error -> exit 2, never an alarm).
"""
import re

from .rustsrc import mask, match_close, brace_depths, Undecided

MAX_ROUNDS = 4


def _split_top(text):
    m = mask(text)
    out, depth, start = [], 0, 0
    for i, ch in enumerate(m):
        if ch in "([{":
            depth += 1
        elif ch in ")]}":
            depth -= 1
        elif ch == "," and depth == 0:
            out.append(text[start:i])
            start = i + 1
        elif ch == "<":
            pass
    if text[start:].strip():
        out.append(text[start:])
    return [x.strip() for x in out]


def _params(sig):
    """-> (self_kind or None, [(name, is_mut)]) or None if a parameter is not a simple identifier"""
    m = mask(sig)
    fk = re.search(r"\bfn\s+\w+", m)
    op = m.index("(", fk.end())
    # skip generics
    lt = m.find("<", fk.end(), op)
    if lt >= 0:
        depth, j = 0, lt
        while j < len(m):
            if m[j] == "<":
                depth += 1
            elif m[j] == ">" and m[j - 1] != "-":
                depth -= 1
                if depth == 0:
                    break
            j += 1
        op = m.index("(", j)
    cp = match_close(m, op)
    inner = sig[op + 1:cp]
    # split on top-level commas, angle brackets included
    parts, depth, adepth, start = [], 0, 0, 0
    mi = mask(inner)
    for i, ch in enumerate(mi):
        if ch in "([{":
            depth += 1
        elif ch in ")]}":
            depth -= 1
        elif ch == "<":
            adepth += 1
        elif ch == ">" and (i == 0 or mi[i - 1] != "-"):
            adepth = max(0, adepth - 1)
        elif ch == "," and depth == 0 and adepth == 0:
            parts.append(inner[start:i])
            start = i + 1
    if inner[start:].strip():
        parts.append(inner[start:])
    self_kind, ps = None, []
    for p in parts:
        p = p.strip()
        if re.match(r"^(&\s*('\w+\s+)?(mut\s+)?)?(mut\s+)?self\b", p):
            self_kind = p
            continue
        mm = re.match(r"^(mut\s+)?([A-Za-z_]\w*)\s*:", p)
        if not mm:
            return None
        ps.append((mm.group(2), bool(mm.group(1))))
    return self_kind, ps


def _helpers(S, ty):
    """private fns of the file that may be inlined: name -> dict(body, sig, self_kind, params, assoc)"""
    m = S.m
    depths = brace_depths(m)
    out = {}

    def consider(f, assoc):
        sig = f["sig"]
        if re.match(r"\s*pub\b(?!\s*\()", sig):
            return      # public API: never inlined
        if re.search(r"\basync\b", mask(sig).split("fn")[0]):
            return
        pr = _params(sig)
        if pr is None:
            return
        bm = mask(f["body"])
        if re.search(r"\breturn\b", bm) or "?" in bm or re.search(r"\b(break|continue)\s+'", bm):
            return
        if f["name"] in out:
            out[f["name"]] = None      # ambiguous (cfg variants): never inline
            return
        out[f["name"]] = dict(body=f["body"], sig=sig, self_kind=pr[0], params=pr[1], assoc=assoc, line=f["line"])

    if ty:
        for (ity, itrait, ob, cb) in S.impls():
            if ity != ty or itrait:
                continue
            for mm in re.finditer(r"\bfn\s+(\w+)\b", m[ob:cb]):
                off = ob + mm.start()
                if depths[off] == depths[ob] + 1:
                    f = S._fn_at(off, mm.group(1))
                    if f:
                        consider(f, True)
    for mm in re.finditer(r"\bfn\s+(\w+)\b", m):
        if depths[mm.start()] == 0:
            f = S._fn_at(mm.start(), mm.group(1))
            if f and f["name"] not in out:
                consider(f, False)
    return {k: v for k, v in out.items() if v}


def _foreign_methods(sources, ty):
    """private, non-async, early-exit-free methods (taking self by reference or value) of inherent impls of types OTHER than `ty`,
    over all files of the unit; a name defined more than once is dropped."""
    out, seen = {}, {}
    for S in sources:
        m = S.m
        depths = brace_depths(m)
        for (ity, itrait, ob, cb) in S.impls():
            if itrait or ity == ty:
                continue
            for mm in re.finditer(r"\bfn\s+(\w+)\b", m[ob:cb]):
                off = ob + mm.start()
                if depths[off] != depths[ob] + 1:
                    continue
                f = S._fn_at(off, mm.group(1))
                if not f:
                    continue
                seen[f["name"]] = seen.get(f["name"], 0) + 1
                sig = f["sig"]
                if re.match(r"\s*pub\b(?!\s*\()", sig) or re.search(r"\basync\b", mask(sig).split("fn")[0]):
                    continue
                pr = _params(sig)
                if pr is None or not pr[0] or "mut self" in pr[0].replace("&mut self", ""):
                    continue
                bm = mask(f["body"])
                if re.search(r"\breturn\b", bm) or "?" in bm or re.search(r"\b(break|continue)\s+'", bm):
                    continue
                out[f["name"]] = dict(body=f["body"], sig=sig, self_kind=pr[0], params=pr[1], line=f["line"], file=S.path, owner=ity)
    return {k: v for k, v in out.items() if seen.get(k) == 1}


def inline_helpers(S, fnpath, body, known_text, log, other_sources=()):
    """body: raw text `{ ... }` of the function under contract. Returns the body with unknown private helpers inlined."""
    path = fnpath.split("#")[0].split("@")[0]
    ty, own = (path.rsplit("::", 1) + [None])[:2] if "::" in path else (None, path)
    helpers = _helpers(S, ty)
    helpers.pop(own, None)
    # free functions of the unit's other files (crate-private helpers shared between modules)
    for S2 in other_sources:
        if S2.path == S.path:
            continue
        for k, v in _helpers(S2, None).items():
            if not v["assoc"] and k not in helpers:
                helpers[k] = v
    # methods of other types called on a simple receiver path: `recv.h(args)` -> `{ lets; BODY[self := recv] }`
    foreign = {k: v for k, v in _foreign_methods([S] + [x for x in other_sources if x.path != S.path], ty).items()
               if k not in helpers and not re.search(r"\b%s\b" % re.escape(k), known_text)}
    fresh_f = [0]
    for name, h in foreign.items():
        pos = 0
        while True:
            m = mask(body)
            mm = re.compile(r"((?:[A-Za-z_]\w*)(?:\s*\.\s*[A-Za-z_]\w*)*)\s*\.\s*%s\s*\(" % re.escape(name)).search(m, pos)
            if not mm:
                break
            recv = body[mm.start(1):mm.end(1)]
            if re.search(r"\bfn\s+$", m[:mm.start()]) or recv.strip() in ("self", "Self"):
                pos = mm.end()
                continue
            op = mm.end() - 1
            cp = match_close(m, op)
            args = _split_top(body[op + 1:cp])
            if len(args) != len(h["params"]):
                pos = mm.end()
                continue
            k0 = fresh_f[0]
            fresh_f[0] += len(args)
            lets = "".join("let vx_g%d = %s; " % (k0 + i, a) for i, a in enumerate(args))
            lets += "".join("let %s%s = vx_g%d; " % ("mut " if mut else "", p, k0 + i) for i, (p, mut) in enumerate(h["params"]))
            hb = h["body"]
            hm = mask(hb)
            hb2, last = [], 0
            for w in re.finditer(r"(?<![\w.])self\b", hm):
                hb2.append(hb[last:w.start()])
                hb2.append("(" + recv.strip() + ")")
                last = w.end()
            hb2.append(hb[last:])
            repl = "{ " + lets + "".join(hb2) + " }"
            body = body[:mm.start()] + repl + body[cp + 1:]
            log["R19-inline"] = log.get("R19-inline", 0) + 1
            log.setdefault("_inlined", []).append("%s::%s (%s:%d) into %s" % (h["owner"], name, h["file"], h["line"], fnpath))
            pos = mm.start() + len(repl)
    # unknown to the unit only
    helpers = {k: v for k, v in helpers.items() if not re.search(r"\b%s\b" % re.escape(k), known_text)}
    if not helpers:
        return body
    fresh = [0]
    for _round in range(MAX_ROUNDS):
        changed = False
        for name, h in helpers.items():
            pos = 0
            while True:
                m = mask(body)
                if h["assoc"]:
                    pat = re.compile(r"(?:(?<![\w.])self\s*\.\s*|(?<![\w:])(?:Self|%s)\s*::\s*)%s\s*(?:::<[^()]*>)?\s*\(" % (re.escape(ty), re.escape(name)))
                else:
                    pat = re.compile(r"(?<![\w.:])%s\s*(?:::<[^()]*>)?\s*\(" % re.escape(name))
                mm = pat.search(m, pos)
                if not mm:
                    break
                if re.search(r"\bfn\s+$", m[:mm.start()]):
                    pos = mm.end()
                    continue
                op = mm.end() - 1
                cp = match_close(m, op)
                args = _split_top(body[op + 1:cp])
                via_self = m[mm.start():mm.end()].lstrip().startswith("self")
                params = list(h["params"])
                if h["self_kind"] and not via_self:
                    pos = mm.end()      # Type::h(recv, ..) form: leave alone
                    continue
                if (not h["self_kind"]) and via_self:
                    pos = mm.end()
                    continue
                if len(args) != len(params):
                    pos = mm.end()
                    continue
                k0 = fresh[0]
                fresh[0] += len(params)
                lets = "".join("let vx_h%d = %s; " % (k0 + i, a) for i, a in enumerate(args))
                lets += "".join("let %s%s = vx_h%d; " % ("mut " if mut else "", p, k0 + i) for i, (p, mut) in enumerate(params))
                repl = "{ " + lets + h["body"] + " }"
                body = body[:mm.start()] + repl + body[cp + 1:]
                log["R19-inline"] = log.get("R19-inline", 0) + 1
                log.setdefault("_inlined", []).append("%s (defined at line %d) into %s" % (name, h["line"], fnpath))
                changed = True
                pos = mm.start() + len(repl)
        if not changed:
            break
    return body
