"""Minimal Rust source handling: masking of comments/strings, brace matching,
item lookup by *name path* (never by line number)."""
import re


class Undecided(Exception):
    """The machinery cannot decide (lost anchor, rule no longer matches, tool trouble).
    Never reported as a VIOLATION (exit code 2)."""


def strip_comments(src: str) -> str:
    """src with comments blanked (string literals kept)."""
    return mask(src, comments_only=True)


def mask(src: str, comments_only=False) -> str:
    """Same-length copy of src with comments, string and char literals blanked
    (newlines kept), so that brace matching and regex anchors see code only."""
    out = list(src)
    i, n = 0, len(src)

    def blank(a, b, comment=False):
        if comments_only and not comment:
            return
        for k in range(a, b):
            if out[k] != "\n":
                out[k] = " "

    while i < n:
        c = src[i]
        if c == "/" and i + 1 < n and src[i + 1] == "/":
            j = src.find("\n", i)
            j = n if j < 0 else j
            blank(i, j, True)
            i = j
        elif c == "/" and i + 1 < n and src[i + 1] == "*":
            depth, j = 1, i + 2
            while j < n and depth:
                if src.startswith("/*", j):
                    depth += 1
                    j += 2
                elif src.startswith("*/", j):
                    depth -= 1
                    j += 2
                else:
                    j += 1
            blank(i, j, True)
            i = j
        elif c == '"' or (c == "r" and re.match(r'r#*"', src[i:i + 8]) and (i == 0 or not (src[i - 1].isalnum() or src[i - 1] == "_"))) \
                or (c == "b" and i + 1 < n and src[i + 1] == '"' and (i == 0 or not (src[i - 1].isalnum() or src[i - 1] == "_"))):
            if c == "b":
                i += 1
                c = '"'
            if c == "r":
                m = re.match(r'r(#*)"', src[i:])
                hashes = m.group(1)
                start = i
                j = src.find('"' + hashes, i + len(m.group(0)))
                j = n if j < 0 else j + 1 + len(hashes)
                blank(start + len(m.group(0)), j - 1 - len(hashes))
                i = j
            else:
                j = i + 1
                while j < n and src[j] != '"':
                    j += 2 if src[j] == "\\" else 1
                blank(i + 1, min(j, n))
                i = j + 1
        elif c == "'":
            # char literal or lifetime
            if i + 1 < n and src[i + 1] == "\\":
                j = src.find("'", i + 2)
                if j >= 0 and src[j - 1] == "\\" and src[j - 2] != "\\":
                    j = src.find("'", j + 1)
                j = n if j < 0 else j
                blank(i + 1, j)
                i = j + 1
            elif i + 2 < n and src[i + 2] == "'":
                blank(i + 1, i + 2)
                i += 3
            else:
                i += 1  # lifetime
        else:
            i += 1
    return "".join(out)


OPEN = {"{": "}", "(": ")", "[": "]"}
CLOSE = {v: k for k, v in OPEN.items()}


def match_close(m: str, i: int) -> int:
    """m is masked text, m[i] an opening bracket; returns index of its partner."""
    assert m[i] in OPEN, (m[i], i)
    depth = 0
    for j in range(i, len(m)):
        ch = m[j]
        if ch in OPEN:
            depth += 1
        elif ch in CLOSE:
            depth -= 1
            if depth == 0:
                return j
    raise Undecided("unbalanced bracket at offset %d" % i)


def match_open(m: str, j: int) -> int:
    assert m[j] in CLOSE
    depth = 0
    for i in range(j, -1, -1):
        ch = m[i]
        if ch in CLOSE:
            depth += 1
        elif ch in OPEN:
            depth -= 1
            if depth == 0:
                return i
    raise Undecided("unbalanced bracket at offset %d" % j)


def brace_depths(m: str):
    d, out = 0, []
    for ch in m:
        if ch == "}":
            d -= 1
        out.append(d)
        if ch == "{":
            d += 1
    return out


def _strip_generics(s: str) -> str:
    """remove balanced <...> groups (treating '->' as not a bracket)."""
    out, depth, i = [], 0, 0
    while i < len(s):
        if s.startswith("->", i):
            if depth == 0:
                out.append("->")
            i += 2
            continue
        c = s[i]
        if c == "<":
            depth += 1
        elif c == ">":
            depth -= 1
        elif depth == 0:
            out.append(c)
        i += 1
    return "".join(out)


def first_body_brace(m: str, start: int) -> int:
    """first '{' at paren/bracket depth 0 after start."""
    depth = 0
    for j in range(start, len(m)):
        ch = m[j]
        if ch in "([":
            depth += 1
        elif ch in ")]":
            depth -= 1
        elif ch == "{" and depth == 0:
            return j
        elif ch == ";" and depth == 0:
            return -1
    return -1


class Source:
    def __init__(self, path, text):
        self.path = path
        self.text = text
        self.m = mask(text)
        self._impls = None

    def line_of(self, off):
        return self.text.count("\n", 0, off) + 1

    def impls(self):
        """list of (type_name, trait_name|None, body_open, body_close) for every impl block
        outside `mod tests`."""
        if self._impls is not None:
            return self._impls
        res = []
        m = self.m
        tests = [(mm.start(), match_close(m, m.index("{", mm.end() - 1))) for mm in re.finditer(r"\bmod\s+tests?\s*\{", m)]
        for mm in re.finditer(r"\bimpl\b", m):
            s = mm.start()
            if any(a <= s <= b for a, b in tests):
                continue
            # must be at item position: preceded (ignoring ws) by start, ';', '}', ']' or 'unsafe'
            k = s - 1
            while k >= 0 and m[k].isspace():
                k -= 1
            if k >= 0 and m[k] not in ";}]{" and not m[:k + 1].endswith("unsafe"):
                continue
            ob = first_body_brace(m, mm.end())
            if ob < 0:
                continue
            header = m[mm.end():ob]
            header = re.split(r"\bwhere\b", header)[0]
            header = _strip_generics(header)
            header = " ".join(header.split())
            if " for " in header:
                trait, ty = header.split(" for ", 1)
                trait = trait.strip().split("::")[-1].lstrip("!")
            else:
                trait, ty = None, header
            ty = ty.strip().lstrip("&").split("::")[-1].strip()
            res.append((ty, trait, ob, match_close(m, ob)))
        self._impls = res
        return res

    def _fn_at(self, fn_kw: int, name: str):
        m = self.m
        ob = first_body_brace(m, fn_kw)
        if ob < 0:
            return None
        cb = match_close(m, ob)
        # signature start: walk back over qualifiers
        k = fn_kw
        while True:
            mm = re.search(r"(pub(\s*\([^)]*\))?|async|const|unsafe|extern\s*\"[^\"]*\")\s*$", m[:k])
            if not mm:
                break
            k = mm.start()
        return dict(name=name, sig_start=k, fn_kw=fn_kw, body_open=ob, body_close=cb,
                    sig=self.text[k:ob].strip(), body=self.text[ob:cb + 1], line=self.line_of(fn_kw))

    def find_fn(self, path: str):
        """path: 'name' (free fn), 'Type::name', 'Type::name@Trait', optional '#k' suffix to pick
        the k-th match (0-based) when cfg variants exist."""
        pick = None
        if "#" in path:
            path, p = path.rsplit("#", 1)
            pick = int(p)
        trait = None
        if "@" in path:
            path, trait = path.split("@", 1)
        m = self.m
        depths = brace_depths(m)
        cands = []
        if "::" in path:
            ty, name = path.rsplit("::", 1)
            for (ity, itrait, ob, cb) in self.impls():
                if ity != ty:
                    continue
                if trait is not None and (itrait or "") != trait:
                    continue
                for mm in re.finditer(r"\bfn\s+%s\b" % re.escape(name), m[ob:cb]):
                    off = ob + mm.start()
                    if depths[off] == depths[ob] + 1:
                        f = self._fn_at(off, name)
                        if f:
                            f["impl_trait"] = itrait
                            cands.append(f)
        else:
            for mm in re.finditer(r"\bfn\s+%s\b" % re.escape(path), m):
                if depths[mm.start()] == 0:
                    f = self._fn_at(mm.start(), path)
                    if f:
                        cands.append(f)
        if not cands:
            raise Undecided("anchor lost: fn %s not found in %s" % (path, self.path))
        if pick is not None:
            if pick >= len(cands):
                raise Undecided("anchor lost: fn %s#%d not found in %s" % (path, pick, self.path))
            return cands[pick]
        if len(cands) > 1:
            raise Undecided("ambiguous anchor: fn %s has %d definitions in %s" % (path, len(cands), self.path))
        return cands[0]

    def derives(self, kind: str, name: str):
        """names listed in #[derive(..)] attributes directly above the type definition."""
        m = self.m
        depths = brace_depths(m)
        for mm in re.finditer(r"\b%s\s+%s\b" % (kind, re.escape(name)), m):
            if depths[mm.start()] != 0:
                continue
            k = mm.start()
            pre = re.search(r"((?:\s*(?:#\[[^\]]*\]|pub(?:\s*\([^)]*\))?))*)\s*$", m[:k])
            attrs = pre.group(1) if pre else ""
            out = []
            for d in re.finditer(r"#\[derive\(([^)]*)\)\]", attrs):
                out += [x.strip().split("::")[-1] for x in d.group(1).split(",") if x.strip()]
            return out
        raise Undecided("anchor lost: %s %s not found in %s" % (kind, name, self.path))

    def find_type(self, kind: str, name: str, any_depth=False):
        """kind in struct|enum. returns dict(text, fields=[names] or variants=[names])."""
        m = self.m
        depths = brace_depths(m)
        for mm in re.finditer(r"\b%s\s+%s\b" % (kind, re.escape(name)), m):
            if depths[mm.start()] != 0 and not any_depth:
                continue
            ob = first_body_brace(m, mm.end())
            if ob < 0:
                # tuple / unit struct
                return dict(text=self.text[mm.start():m.index(";", mm.end()) + 1], names=[], line=self.line_of(mm.start()))
            cb = match_close(m, ob)
            inner = m[ob + 1:cb]
            names = []
            # split at top-level commas
            depth = 0
            cur = []
            parts = []
            for ch in inner:
                if ch in "([{<":
                    depth += 1
                elif ch in ")]}>":
                    depth -= 1
                if ch == "," and depth == 0:
                    parts.append("".join(cur))
                    cur = []
                else:
                    cur.append(ch)
            parts.append("".join(cur))
            for p in parts:
                p = re.sub(r"#\[[^\]]*\]", " ", p)
                p = p.strip()
                if not p:
                    continue
                p = re.sub(r"^pub(\s*\([^)]*\))?\s*", "", p)
                mm2 = re.match(r"([A-Za-z_][A-Za-z0-9_]*)", p)
                if mm2:
                    names.append(mm2.group(1))
            return dict(text=self.text[mm.start():cb + 1], names=names, line=self.line_of(mm.start()))
        raise Undecided("anchor lost: %s %s not found in %s" % (kind, name, self.path))


def param_names(sig: str):
    """parameter names of a fn signature text (up to the body), in order."""
    m = mask(sig)
    k = m.index("fn")
    p = k
    # skip generics after the name
    mm = re.match(r"fn\s+[A-Za-z_][A-Za-z0-9_]*\s*", m[k:])
    p = k + mm.end()
    if p < len(m) and m[p] == "<":
        depth = 0
        while p < len(m):
            if m.startswith("->", p):
                p += 2
                continue
            if m[p] == "<":
                depth += 1
            elif m[p] == ">":
                depth -= 1
                if depth == 0:
                    p += 1
                    break
            p += 1
    op = m.index("(", p)
    cp = match_close(m, op)
    inner = m[op + 1:cp]
    parts, depth, cur = [], 0, []
    i = 0
    while i < len(inner):
        ch = inner[i]
        if inner.startswith("->", i):
            cur.append("->")
            i += 2
            continue
        if ch in "([{<":
            depth += 1
        elif ch in ")]}>":
            depth -= 1
        if ch == "," and depth == 0:
            parts.append("".join(cur))
            cur = []
        else:
            cur.append(ch)
        i += 1
    parts.append("".join(cur))
    names = []
    for p in parts:
        p = re.sub(r"#\[[^\]]*\]", " ", p).strip()
        if not p:
            continue
        if re.match(r"^(&\s*('\w+\s+)?)?(mut\s+)?self\b", p) or p.startswith("self"):
            names.append("self")
            continue
        head = p.split(":", 1)[0].strip()
        mm = re.match(r"Tracked\(\s*(\w+)\s*\)|Ghost\(\s*(\w+)\s*\)", head)
        if mm:
            names.append(mm.group(1) or mm.group(2))
            continue
        head = re.sub(r"^mut\s+", "", head)
        names.append(head)
    return names
