"""Kani back end: leaf crates generated from /repo's current text on every run.

A leaf crate lives in /verif/kani/<crate>/template.rs; directives:
  //@item <filekey> fn:<path>          whole real function item (signature + body), rewritten by the crate's rules
  //@leaf <unit> <fn>/<let>            the initializer text that unit <unit> lifts with R14 (same text Verus abstracts)
Harnesses are hand-written in the template; every `kani::assume` is followed by a cover in the
vacuity harness of the same name + `_cover`.
"""
import importlib.util
import json
import os
import re
import shutil
import subprocess
import time

from .rustsrc import Source, Undecided, strip_comments
from . import rewrite
from . import unit as U

VERIF = U.VERIF
REPO = U.REPO
_gen_cache = {}


def load_crate(name):
    path = os.path.join(VERIF, "kani", name, "crate.py")
    spec = importlib.util.spec_from_file_location("vx_kani_" + name, path)
    mod = importlib.util.module_from_spec(spec)
    spec.loader.exec_module(mod)
    c = dict(mod.CRATE)
    c["name"] = name
    c["dir"] = os.path.dirname(path)
    return c


def generate(name, workdir):
    """writes workdir/<name>/{Cargo.toml,src/lib.rs}; returns dict(path, rules_applied)"""
    crate = load_crate(name)
    out = os.path.join(workdir, name)
    os.makedirs(os.path.join(out, "src"), exist_ok=True)
    log = {}
    unit_leaves = {}
    lines = []
    for ln in open(os.path.join(crate["dir"], "template.rs")).read().split("\n"):
        s = ln.strip()
        if s.startswith("//@item "):
            _, key, spec = s.split(None, 2)
            rel = crate["files"][key]
            p = os.path.join(REPO, rel)
            if not os.path.exists(p):
                raise Undecided("source file missing: %s" % rel)
            S = Source(rel, open(p).read())
            kind, path = spec.split(":", 1)
            f = S.find_fn(path)
            text = strip_comments(S.text[f["sig_start"]:f["body_close"] + 1])
            items = crate.get("items", {})
            rules = list(crate.get("rules", [])) + list(items.get(key + ":" + path, items.get(path, {})).get("rules", []))
            text = rewrite.apply_rules(text, rules, log, path)
            text = re.sub(r"^\s*pub(\s*\([^)]*\))?\s+", "", text)
            lines.append("// ---- extracted from %s:%d (%s)" % (rel, f["line"], path))
            lines.append(text)
        elif s.startswith("//@leaf "):
            _, un, key = s.split(None, 2)
            if un not in unit_leaves:
                g = U.build(U.load_unit(un), os.path.join(workdir, "_units"))
                unit_leaves[un] = g.leaves
            if key not in unit_leaves[un]:
                raise Undecided("leaf %s not produced by unit %s" % (key, un))
            lf = unit_leaves[un][key]
            expr = lf["expr"]
            for pat, repl in crate.get("leaf_subs", {}).get(key, []):
                expr, n = re.subn(pat, repl, expr)
                if n == 0:
                    raise Undecided("leaf %s: substitution %r no longer matches" % (key, pat))
            lines.append("    // ---- leaf text lifted by R14 from %s (%s)" % (lf["src"], key))
            lines.append("    " + expr)
            log["R14-leaf"] = log.get("R14-leaf", 0) + 1
        else:
            lines.append(ln)
    with open(os.path.join(out, "src", "lib.rs"), "w") as f:
        f.write("\n".join(lines) + "\n")
    with open(os.path.join(out, "Cargo.toml"), "w") as f:
        f.write('[package]\nname = "vx_leaf_%s"\nversion = "0.0.0"\nedition = "2021"\n\n[lib]\npath = "src/lib.rs"\n\n[workspace]\n\n'
                '[lints.rust]\nunexpected_cfgs = { level = "allow", check-cfg = ["cfg(kani)"] }\n' % name)
    os.makedirs(os.path.join(out, ".cargo"), exist_ok=True)
    with open(os.path.join(out, ".cargo", "config.toml"), "w") as f:
        f.write("[net]\noffline = true\n")
    return dict(path=out, rules_applied=log)


def run_harness(h, workdir, tier):
    """h: dict(name, crate, harness, timeout, ...) -> dict(status, message, cmd, wall, counterexample, output_tail)"""
    t0 = time.time()
    res = dict(status="undecided", message="", cmd="", crate="", wall=0.0)
    # one generated crate per harness run (parallel-safe)
    wd = os.path.join(workdir, h["name"])
    try:
        gen = generate(h["crate"], wd)
    except Undecided as e:
        res["message"] = str(e)
        res["wall"] = time.time() - t0
        return res
    res["crate"] = gen["path"]
    res["rules_applied"] = gen["rules_applied"]
    timeout = h.get("timeout", 600 if tier == "quick" else 1800)
    cmd = ["cargo", "kani", "--harness", h["harness"]] + list(h.get("flags", []))
    res["cmd"] = "cd %s && CARGO_NET_OFFLINE=true %s" % (gen["path"], " ".join(cmd))
    env = dict(os.environ, CARGO_NET_OFFLINE="true", CARGO_TARGET_DIR=os.path.join(gen["path"], "target"))
    import signal
    try:
        proc = subprocess.Popen(cmd, cwd=gen["path"], stdout=subprocess.PIPE, stderr=subprocess.PIPE, text=True, env=env, start_new_session=True)
        try:
            so, se = proc.communicate(timeout=timeout)
        except subprocess.TimeoutExpired:
            try:
                os.killpg(proc.pid, signal.SIGKILL)   # cbmc is a grandchild: kill the whole group
            except Exception:
                pass
            proc.communicate()
            raise

        class _P:
            pass
        p = _P()
        p.stdout, p.stderr, p.returncode = so, se, proc.returncode
    except subprocess.TimeoutExpired:
        res["message"] = "kani timed out after %ds" % timeout
        res["wall"] = time.time() - t0
        shutil.rmtree(os.path.join(gen["path"], "target"), ignore_errors=True)
        return res
    out = p.stdout + "\n" + p.stderr
    res["output_tail"] = out[-3000:]
    if "VERIFICATION:- SUCCESSFUL" in out and "Complete - 1 successfully verified harnesses, 0 failures" in out:
        # covers must be satisfied when present
        unsat = re.findall(r"Status: (UNSATISFIABLE|UNREACHABLE)\s*\n\s*Description: \"([^\"]*)\"", out)
        cov_bad = [d for st, d in unsat if "cover" in d]
        if "** 0 of" in out and "cover properties satisfied" in out:
            pass
        mcov = re.search(r"\*\* (\d+) of (\d+) cover properties satisfied", out)
        if mcov and mcov.group(1) != mcov.group(2):
            res["status"] = "undecided"
            res["message"] = "vacuity: only %s of %s cover properties satisfied" % (mcov.group(1), mcov.group(2))
        else:
            res["status"] = "discharged"
            res["message"] = "VERIFICATION SUCCESSFUL"
    elif "VERIFICATION:- FAILED" in out:
        failed = re.findall(r"Failed Checks: (.*)", out)
        unsupported = [f for f in failed if "unsupported" in f.lower() or "not currently supported" in f.lower()]
        if unsupported or "unwinding assertion" in out and "Failed Checks: unwinding" in out:
            res["status"] = "undecided"
            res["message"] = "kani: unsupported construct / unwinding: %s" % "; ".join(failed)[:300]
        else:
            res["status"] = "failed"
            res["message"] = "; ".join(failed)[:600]
            # concrete counterexample
            try:
                cp = subprocess.run(cmd + ["-Z", "concrete-playback", "--concrete-playback=print"], cwd=gen["path"], capture_output=True,
                                    text=True, timeout=timeout, env=env)
                m = re.search(r"Concrete playback unit test for `[^`]*`:\s*```(.*?)```", cp.stdout, re.S)
                if m:
                    res["counterexample"] = m.group(1).strip()[:4000]
                    res["replay_test"] = "Add to the generated leaf crate %s (extracted text of /repo) and run `cargo kani playback -Z concrete-playback --test <name>`:\n%s" % (gen["path"], m.group(1).strip())
            except Exception:
                pass
    else:
        res["message"] = "kani produced no verdict (rc=%s): %s" % (p.returncode, out[-400:])
    res["wall"] = time.time() - t0
    shutil.rmtree(os.path.join(gen["path"], "target"), ignore_errors=True)
    return res
