import json, os, sys
from . import unit as U


def cmd_gen(args):
    name = args[0]
    work = os.path.join(U.VERIF, "work", "dev")
    res = U.run_unit(name, work, twins="--no-twins" not in args)
    print("generated:", res.get("generated"))
    print("undecided:", res["undecided"])
    for t in res.get("tool_errors", []):
        print(t)
    print("rules:", res["rules_applied"])
    for oid, o in sorted(res["obligations"].items()):
        print("  %-10s %s %s" % (o["status"], oid, o["tags"]))
        if o["status"] == "failed":
            for d in o["diag"]:
                print("      ", d["message"], "in", d["in_fn"])
                if "-v" in args:
                    print(d["rendered"])
    print("functions:", json.dumps(res["functions"]))
    print("twins %d/%d rejected; solver %d ms; wall %.1fs" % (res["twins_rejected"], res["twins_total"], res["solver_ms"], res.get("wall", 0)))
    return 0


def main(argv):
    if not argv:
        print("usage: vx gen <unit> | check <prop> [--tier quick|thorough] | selftest")
        return 2
    if argv[0] == "gen":
        return cmd_gen(argv[1:])
    from . import check
    return check.main(argv)
