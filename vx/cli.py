import json, os, sys
from . import unit as U


def cmd_gen(args):
    name = args[0]
    work = os.path.join(U.VERIF, "work", "dev")
    res = U.run_unit(name, work, twins="--no-twins" not in args)
    print("generated:", res.get("generated"))
    print("undecided:", res["undecided"])
    for t in res.get("tool_errors", []):
        print(t)
    print("rules:", res["rules_applied"])
    for oid, o in sorted(res["obligations"].items()):
        print("  %-10s %s %s" % (o["status"], oid, o["tags"]))
        if o["status"] == "failed":
            for d in o["diag"]:
                print("      ", d["message"], "in", d["in_fn"])
                if "-v" in args:
                    print(d["rendered"])
    print("functions:", json.dumps(res["functions"]))
    print("twins %d/%d rejected; solver %d ms; wall %.1fs" % (res["twins_rejected"], res["twins_total"], res["solver_ms"], res.get("wall", 0)))
    return 0


def cmd_manifest():
    import subprocess
    from .check import load_props
    import importlib.util
    spec = importlib.util.spec_from_file_location("vx_props", os.path.join(U.VERIF, "props.py"))
    mod = importlib.util.module_from_spec(spec)
    spec.loader.exec_module(mod)
    props = mod.PROPS
    fixes = []
    try:
        out = subprocess.run(["git", "-C", "/repo", "log", "--format=%h %s"], capture_output=True, text=True).stdout
        fixes = [l.split()[0] for l in out.splitlines() if l.split(" ", 1)[1].startswith("fix:")]
    except Exception:
        pass
    base = json.load(open("/root/.vp/BASELINE.json"))["cmd"] if os.path.exists("/root/.vp/BASELINE.json") else "cargo test --workspace --offline"
    man = dict(
        version=1,
        setup_cmd="python3 -m vx selftest",
        hooks=dict(guard="tower_resilience_verif (reserved, unused: extraction reads the tree as it is, no instrumentation in /repo)",
                   enable="none needed", baseline_off_cmd="cd /repo && cargo test --workspace --no-fail-fast --offline",
                   source_commits=fixes, add_only=True),
        engines=[dict(name="vx", path="/verif/vx", serves_properties=sorted(props), kind_free_text="extract real functions -> rewrite catalogue -> contracts -> Verus (deductive, unbounded) / Kani (loop-free full-domain leaves)")],
        checks=[],
        notes="Exit codes: 0 all obligations discharged (KNOWN-FINDING lines allowed); 1 VIOLATION; 2 UNDECIDED (lost anchor, rule mismatch, tool trouble) — never an alarm. fix: commits in /repo are listed under hooks.source_commits (they are unguarded repairs, not hooks).",
        not_applicable=[],
    )
    for pid in mod.ALL:
        if pid in props:
            P = props[pid]
            man["checks"].append(dict(
                property_id=pid,
                quick_cmd="python3 -m vx check %s --tier quick" % pid,
                thorough_cmd="python3 -m vx check %s --tier thorough" % pid,
                evidence_file="evidence/%s.json" % pid,
                replay_cmd_template="python3 -m vx replay {path}",
                engine="vx",
                level_claimed=dict(category="proof", text=P["level_text"], design_ref=P.get("design_ref", "")),
                level_note=P["level_note"],
                technique=P["technique"],
            ))
        else:
            man["not_applicable"].append(dict(property_id=pid, reason=mod.NOT_APPLICABLE.get(pid, "not built yet in this session (DESIGN §9 build order); no check is claimed")))
    with open(os.path.join(U.VERIF, "MANIFEST.json"), "w") as f:
        json.dump(man, f, indent=1)
    print("MANIFEST.json: %d checks, %d not applicable" % (len(man["checks"]), len(man["not_applicable"])))
    return 0


def main(argv):
    if not argv:
        print("usage: vx gen <unit> | check <prop> [--tier quick|thorough] | selftest")
        return 2
    if argv[0] == "gen":
        return cmd_gen(argv[1:])
    if argv[0] == "manifest":
        return cmd_manifest()
    from . import check
    return check.main(argv)
