"""Property-level driver: run the units (Verus) and leaves (Kani) that decide one property,
compare against known findings, write evidence, print VIOLATION / KNOWN-FINDING / UNDECIDED."""
import concurrent.futures as cf
import json
import os
import shutil
import sys
import time

from . import unit as U

VERIF = U.VERIF


def load_props():
    import importlib.util
    spec = importlib.util.spec_from_file_location("vx_props", os.path.join(VERIF, "props.py"))
    mod = importlib.util.module_from_spec(spec)
    spec.loader.exec_module(mod)
    return mod.PROPS


def load_known():
    p = os.path.join(VERIF, "known_findings.json")
    if not os.path.exists(p):
        return []
    return json.load(open(p))["findings"]


def write_replay(prop, oid, o, unit_res):
    d = os.path.join(VERIF, "replay_out", prop)
    os.makedirs(d, exist_ok=True)
    path = os.path.join(d, oid.replace("/", "__").replace("#", "--").replace(":", "_") + ".txt")
    with open(path, "w") as f:
        f.write("property: %s\nfailed obligation: %s\nclause: %s\n" % (prop, oid, o.get("clause")))
        f.write("back end: %s\nchecker: %s\n" % (o.get("backend", "verus"), unit_res.get("checker_cmd", "")))
        f.write("generated unit (function text as verified): %s\n" % unit_res.get("generated", ""))
        f.write("counterexample: %s\n\n" % (o.get("counterexample") or "none produced by the verifier (no-failing-input-found)"))
        f.write("---- verifier output ----\n")
        for dg in o.get("diag", []):
            f.write("[%s] in %s\n%s\n" % (dg.get("message"), dg.get("in_fn"), dg.get("rendered", "")))
        if o.get("replay_test"):
            f.write("\n---- replay against the real code ----\n%s\n" % o["replay_test"])
    return path


def main(argv):
    if argv[0] == "selftest":
        ok = shutil.which("verus") and shutil.which("cargo-kani") or shutil.which("cargo")
        print("verus:", shutil.which("verus"), "kani:", shutil.which("cargo-kani"))
        return 0 if ok else 2
    if argv[0] == "replay":
        print(open(argv[1]).read())
        return 0
    if argv[0] != "check":
        print("unknown command", argv[0])
        return 2
    prop = argv[1]
    tier = os.environ.get("VERIF_TIER") or "quick"
    if "--tier" in argv:
        tier = argv[argv.index("--tier") + 1]
    seed = int(os.environ.get("VERIF_SEED", "0") or 0)
    t0 = time.time()
    props = load_props()
    if prop not in props:
        print("UNDECIDED property=%s not claimed" % prop)
        return 2
    P = props[prop]
    work = os.path.join(VERIF, "work", "%s-%s" % (prop, tier))
    shutil.rmtree(work, ignore_errors=True)
    os.makedirs(work, exist_ok=True)
    known = load_known()
    known_open = {k["obligation"]: k for k in known if k["property"] == prop and k.get("status") == "known"}

    results = []
    jobs = []
    with cf.ThreadPoolExecutor(max_workers=int(os.environ.get("VX_JOBS", "8"))) as ex:
        for un in P.get("units", []):
            jobs.append(("verus", un, ex.submit(U.run_unit, un, os.path.join(work, un), None, None, True)))
            if tier == "thorough":
                jobs.append(("verus-seed", un, ex.submit(U.run_unit, un, os.path.join(work, un + "-seed"), None, (seed or 1) * 7919 % 100003 + 1, False)))
        kani_jobs = []
        if P.get("kani"):
            from . import kani as K
            for h in P["kani"]:
                if tier == "quick" and h.get("tier") == "thorough":
                    continue
                kani_jobs.append((h, ex.submit(K.run_harness, h, os.path.join(work, "kani"), tier)))
        for kind, un, fut in jobs:
            results.append((kind, un, fut.result()))
        kani_results = [(h, fut.result()) for h, fut in kani_jobs]

    obligations = {}   # id -> dict
    undecided = []
    trusted = set()
    rules = {}
    inlined = []
    functions = []
    solver_ms = {}
    twins_total = twins_rejected = 0
    unit_of = {}
    seed_flips = []
    main_status = {}
    for kind, un, r in results:
        if kind == "verus-seed":
            continue
        for oid, o in r["obligations"].items():
            main_status[oid] = o["status"]
    for kind, un, r in results:
        if kind == "verus-seed":
            for oid, o in r["obligations"].items():
                if oid in main_status and main_status[oid] != o["status"]:
                    seed_flips.append(oid)
            for u in r["undecided"]:
                undecided.append("[%s seed run] %s" % (un, u))
            continue
        for u in r["undecided"]:
            undecided.append("[%s] %s" % (un, u))
        for t in r["trusted"]:
            trusted.add("%s: %s" % (un, t))
        for k, v in r["rules_applied"].items():
            rules[k] = rules.get(k, 0) + v
        inlined += ["%s: %s" % (un, x) for x in r.get("inlined", [])] + ["%s: R16-pad %s" % (un, x) for x in r.get("padded", [])]
        for c in r.get("contracted", []):
            functions.append("%s (%s:%d)" % (c["fn"], c["src"], c["src_line"]))
        for fn, f in r.get("functions", {}).items():
            solver_ms["%s/%s" % (un, fn)] = f["ms"]
        twins_total += r["twins_total"]
        twins_rejected += r["twins_rejected"]
        for oid, o in r["obligations"].items():
            o = dict(o, backend="verus", unit=un)
            obligations[oid] = o
            unit_of[oid] = r
    for h, r in kani_results:
        oid = "kani/%s" % h["name"]
        obligations[oid] = dict(tags=h.get("tags", [prop]), clause=h.get("claim", ""), fn=h.get("fn", h["name"]), status=r["status"],
                                diag=[dict(message=r.get("message", ""), rendered=r.get("output_tail", ""), in_fn=h["name"])],
                                backend="kani", unit="kani", counterexample=r.get("counterexample"), replay_test=r.get("replay_test"),
                                bounded=h.get("bounded"))
        unit_of[oid] = dict(checker_cmd=r.get("cmd", ""), generated=r.get("crate", ""))
        solver_ms[oid] = int(r.get("wall", 0) * 1000)
        if r["status"] == "undecided":
            undecided.append("[kani %s] %s" % (h["name"], r.get("message", "")))
        for t in h.get("assumes", []):
            trusted.add("kani %s assumes: %s" % (h["name"], t))

    relevant = {oid: o for oid, o in obligations.items() if (prop in o["tags"] or not o["tags"])}
    mine_failed = [oid for oid, o in relevant.items() if o["status"] == "failed" and prop in o["tags"]]
    untagged_failed = [oid for oid, o in relevant.items() if o["status"] == "failed" and not o["tags"]]
    other_failed = [oid for oid, o in obligations.items() if o["status"] == "failed" and o["tags"] and prop not in o["tags"]]
    known_reported, violations = [], []
    for oid in sorted(mine_failed):
        if oid in known_open:
            known_reported.append(oid)
        else:
            violations.append(oid)
    for oid in seed_flips:
        if oid in relevant:
            undecided.append("verdict of %s flips with the solver seed (brittle proof)" % oid)
    for oid in untagged_failed:
        undecided.append("technical obligation failed (callers rest on it): %s: %s" % (oid, "; ".join(d["message"] for d in relevant[oid]["diag"])[:300]))

    # bounded checks are never counted as proved
    counted = {oid: o for oid, o in relevant.items() if oid not in known_open and not o.get("bounded") and not o.get("syntactic")}
    n_obl = len(counted)
    n_dis = len([o for o in counted.values() if o["status"] == "discharged"])
    by_backend = {}
    for o in counted.values():
        if o["status"] == "discharged":
            by_backend[o["backend"]] = by_backend.get(o["backend"], 0) + 1

    lines = []
    for oid in known_reported:
        lines.append("KNOWN-FINDING: property=%s %s — %s" % (prop, oid, known_open[oid]["what_fails"]))
    for oid, k in known_open.items():
        if oid in obligations and obligations[oid]["status"] == "discharged":
            lines.append("NOTE: known finding %s no longer reproduces (obligation discharged)" % oid)
    rc = 0
    if violations:
        rc = 1
        for oid in violations:
            o = relevant[oid]
            path = write_replay(prop, oid, o, unit_of.get(oid, {}))
            tail = "" if o.get("counterexample") else " no-failing-input-found"
            lines.append("VIOLATION property=%s replay=%s obligation=%s%s" % (prop, path, oid, tail))
    elif undecided or n_obl == 0:
        rc = 2
        for u in undecided[:20]:
            lines.append("UNDECIDED property=%s %s" % (prop, u))
        if n_obl == 0:
            lines.append("UNDECIDED property=%s zero obligations generated" % prop)
    if twins_total and twins_rejected != twins_total and rc == 0:
        rc = 2
    wall = time.time() - t0

    ev = dict(
        property_id=prop, tier=tier, seed=seed, level="proof",
        coverage=dict(
            obligations=n_obl, discharged=n_dis,
            checker_cmd="; ".join(sorted(set(r.get("checker_cmd", "") for _, _, r in results if r.get("checker_cmd"))
                                         | set(r.get("cmd", "") for _, r in kani_results if r.get("cmd")))) or "python3 -m vx check %s" % prop,
            trusted_base=sorted(trusted) + ["rewrite rules applied to extracted text: %s" % json.dumps(rules, sort_keys=True)] + P.get("trusted", []),
            functions_under_contract=sorted(set(functions)),
            by_backend=by_backend,
            solver_ms=solver_ms,
            rules_applied=rules,
            helpers_inlined_and_signatures_padded=inlined,   # R19 / R16-pad: empty on the pinned tree
            twins_rejected=twins_rejected, twins_total=twins_total,
            known_findings_reported=known_reported,
            bounded_checks=[dict(id=oid, bound=o.get("bounded"), status=o["status"]) for oid, o in relevant.items() if o.get("bounded")],
            syntactic_frame_checks=[dict(id=oid, status=o["status"], what=o["clause"]) for oid, o in relevant.items() if o.get("syntactic")],
            excluded_clauses=P.get("excluded", []),
            failed_for_other_properties=other_failed,
            undecided=undecided,
            samples=[dict(id=oid, clause=o["clause"], status=o["status"], backend=o["backend"]) for oid, o in sorted(counted.items())][:400],
        ),
        assumptions=P.get("assumptions", []),
        wall_s=round(wall, 2),
        violations=len(violations),
    )
    evdir = os.environ.get("VX_EVIDENCE_DIR") or os.path.join(VERIF, "evidence")
    os.makedirs(evdir, exist_ok=True)
    with open(os.path.join(evdir, prop + ".json"), "w") as f:
        json.dump(ev, f, indent=1)
    for ln in lines:
        print(ln)
    print("%s tier=%s obligations=%d discharged=%d known=%d violations=%d undecided=%d twins=%d/%d wall=%.1fs exit=%d" % (
        prop, tier, n_obl, n_dis, len(known_reported), len(violations), len(undecided), twins_rejected, twins_total, wall, rc))
    return rc
