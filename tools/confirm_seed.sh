#!/bin/bash
# usage: confirm_seed.sh <worktree> <prop> <k> <crate-dir-name e.g. tower-resilience-retry> [extra props to check...]
# Confirms: demo passes on clean tree, fails with patch, existing crate tests pass with patch. Then runs /verif checks on /repo with the patch applied.
set -u
WT=$1; PROP=$2; K=$3; CRATE=$4; shift 4; PROPS="$PROP $*"
OUT=$WT/OUT; DEMO=seeded_${PROP}_${K}
LOG=/verif/work/seedlogs/${PROP}_${K}.log; mkdir -p /verif/work/seedlogs; : > $LOG
cd $WT || exit 9
git checkout -q -- . 2>/dev/null
rm -f crates/$CRATE/tests/seeded_*.rs tests/seeded_*.rs
TDIR=crates/$CRATE/tests; mkdir -p $TDIR
cp $OUT/demo_$K.rs $TDIR/$DEMO.rs
echo "== demo on clean tree" >> $LOG
cargo test -p $CRATE --test $DEMO --offline >> $LOG 2>&1; CLEAN=$?
git apply $OUT/patch_$K.diff >> $LOG 2>&1 || { echo "PATCH DOES NOT APPLY"; exit 8; }
echo "== demo with patch" >> $LOG
cargo test -p $CRATE --test $DEMO --offline >> $LOG 2>&1; PATCHED=$?
rm -f $TDIR/$DEMO.rs
echo "== existing tests with patch" >> $LOG
cargo test -p $CRATE --offline >> $LOG 2>&1; EXIST=$?
git checkout -q -- .
echo "demo_clean_rc=$CLEAN demo_patched_rc=$PATCHED existing_with_patch_rc=$EXIST"
if [ $CLEAN -ne 0 ] || [ $PATCHED -eq 0 ] || [ $EXIST -ne 0 ]; then echo "NOT CONFIRMED (see $LOG)"; exit 1; fi
echo CONFIRMED
# run checks on /repo with the patch
cd /repo && git apply $OUT/patch_$K.diff || exit 7
cd /verif
export VX_EVIDENCE_DIR=/verif/work/seed_evidence
for P in $PROPS; do python3 -m vx check $P | grep -E "VIOLATION|UNDECIDED|exit=" | cut -c1-300; done
git -C /repo checkout -q -- .
git -C /repo status --short | head -3
