#!/bin/bash
# Re-applies every archived seeded change to /repo (one at a time, undone straight afterwards) and records whether the check of
# the property named in its meta.json (or of the property that is documented to catch it) still reports a violation.
# usage: tools/seed_regress.sh [seed ids...]   (default: all)     output: work/seed_regress.txt
cd /verif
if [ -n "$(git -C /repo status --short)" ]; then echo "/repo is dirty; refusing"; exit 1; fi
export VX_EVIDENCE_DIR=/verif/work/seed_evidence
OUT=work/seed_regress.txt; : > $OUT
SEEDS="$*"; [ -z "$SEEDS" ] && SEEDS=$(ls seeded | grep "^C")
for S in $SEEDS; do
  P=${S%%-*}
  case $S in C20-2) P=C13;; C20-3) P=C04;; C05-8) P=C08;; C05-9) P=C08;; C20-9) P=C13;; esac
  git -C /repo apply /verif/seeded/$S/patch.diff 2>/dev/null || { echo "$S patch-does-not-apply" >> $OUT; continue; }
  R=$(python3 -m vx check $P | tail -1 | sed 's/.*exit=//')
  V=$(python3 - <<PY
import json
d=json.load(open('/verif/work/seed_evidence/$P.json'))
print(d.get('violations'))
PY
)
  git -C /repo checkout -q -- .
  echo "$S property=$P exit=$R violations=$V" >> $OUT
done
git -C /repo status --short | head -3
cat $OUT
