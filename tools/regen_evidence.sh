#!/bin/bash
# regenerate every evidence file from the clean tree (run before committing evidence)
cd /verif
if [ -n "$(git -C /repo status --short)" ]; then echo "/repo is dirty; refusing"; exit 1; fi
for P in $(python3 -c "import json;print(' '.join(c['property_id'] for c in json.load(open('MANIFEST.json'))['checks']))"); do
  python3 -m vx check $P --tier quick | tail -1
done
