#!/usr/bin/env python3
"""Prints the property x unit x obligations table of DESIGN.md section 11.3 from evidence/*.json and props.py."""
import json
import os
import sys

V = os.path.dirname(os.path.dirname(os.path.abspath(__file__)))
sys.path.insert(0, V)
import props  # noqa: E402

print("| property | units (Verus) | Kani harnesses | functions under contract | obligations discharged / total | known findings | twins |")
print("|---|---|---|---|---|---|---|")
for pid in sorted(props.PROPS):
    p = props.PROPS[pid]
    ev = json.load(open(os.path.join(V, "evidence", pid + ".json")))
    c = ev["coverage"]
    kani = ", ".join((h["harness"] if isinstance(h, dict) else h) + (" (thorough)" if isinstance(h, dict) and h.get("tier") == "thorough" else "")
                     for h in p.get("kani", [])) or "—"
    print("| %s | %s | %s | %d | %d / %d | %d | %d/%d |" % (
        pid, ", ".join(p.get("units", [])), kani, len(c.get("functions_under_contract", [])), c["discharged"], c["obligations"],
        len(c.get("known_findings_reported", [])), c.get("twins_rejected", 0), c.get("twins_total", 0)))
