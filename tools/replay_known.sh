#!/bin/bash
# Demonstrates the known findings against the real code: runs replay/known_findings.rs as an integration test of the
# workspace root package in a scratch worktree of /repo (HEAD), records the output under /verif/replay/, removes the worktree.
set -u
WT=/tmp/wt/replay
git -C /repo worktree remove --force $WT 2>/dev/null
git -C /repo worktree add -q --detach $WT HEAD || exit 2
cp /verif/replay/known_findings.rs $WT/tests/kf_replay.rs
cd $WT && cargo test --offline --test kf_replay -- --test-threads 1 > /verif/replay/known_findings.out.txt 2>&1
RC=$?
grep -E "^test |test result" /verif/replay/known_findings.out.txt
cd / && git -C /repo worktree remove --force $WT
exit $RC
