#!/bin/bash
# usage: confirm_round.sh <suffix> <P> [<P> ...]   e.g. confirm_round.sh e C01 C02
# For each property P: worktree /tmp/wt/<P><suffix>, seeds 1 and 2; the demo's crate is read off the demo file the agent left in place.
SUF=$1; shift
declare -A REL=( [C01]="C07 C20" [C02]="C15 C20" [C03]="C04 C09 C20" [C04]="C03 C09" [C05]="C08 C14 C20" [C06]="C20" [C07]="C01 C20" [C08]="C13 C05" [C09]="C03 C04"
  [C10]="C20" [C11]="C20" [C12]="C20" [C13]="C08 C20" [C14]="C05 C16" [C15]="C02 C20" [C16]="C14 C20" [C17]="C20" [C18]="" [C19]="C20" [C20]="C03 C06 C13" )
for P in "$@"; do
  WT=/tmp/wt/${P}${SUF}
  for K in 1 2; do
    echo "== ${P}${SUF}-$K"
    F=$(find $WT/crates -name "seeded_${P}_${K}.rs" 2>/dev/null | head -1)
    if [ -z "$F" ]; then
      # fall back: the crate named in the patch
      CR=$(grep -m1 '^diff --git a/crates/' $WT/OUT/patch_$K.diff | sed 's#.*a/crates/\([^/]*\)/.*#\1#')
    else
      CR=$(echo $F | sed 's#.*/crates/\([^/]*\)/.*#\1#')
    fi
    [ -z "$CR" ] && { echo "cannot determine crate"; continue; }
    /verif/tools/confirm_seed.sh $WT $P $K $CR ${REL[$P]}
  done
done
