#!/bin/bash
# usage: refactor_eval.sh <worktree> <k> <prop> [prop...]
# Applies a BEHAVIOUR-PRESERVING patch (OUT/patch_<k>.diff of a refactor agent) to /repo, runs the quick checks of the given properties,
# undoes it. A VIOLATION here is a false alarm of the machinery; exit 2 (undecided) is not an alarm but shows brittleness.
WT=$1; K=$2; shift 2
cd /verif
if [ -n "$(git -C /repo status --short)" ]; then echo "/repo is dirty; refusing"; exit 1; fi
P=$WT/OUT/patch_$K.diff; [ -f "$P" ] || P=$WT/$K.diff
git -C /repo apply $P || { echo "patch does not apply"; exit 9; }
export VX_EVIDENCE_DIR=/verif/work/seed_evidence
for P in "$@"; do python3 -m vx check $P | grep -E "^VIOLATION|^UNDECIDED|exit=" | cut -c1-260; done
git -C /repo checkout -q -- .
