#!/usr/bin/env python3
"""keep_seed.py <worktree> <prop> <k> <crate> <needs> <result> : archive a confirmed seeded change under /verif/seeded/<prop>-<k>/"""
import sys, os, json, shutil, re
wt, prop, k, crate, needs, result = sys.argv[1:7]
dk = sys.argv[7] if len(sys.argv) > 7 else k
d = "/verif/seeded/%s-%s" % (prop, dk)
os.makedirs(d, exist_ok=True)
shutil.copy(os.path.join(wt, "OUT", "patch_%s.diff" % k), os.path.join(d, "patch.diff"))
shutil.copy(os.path.join(wt, "OUT", "demo_%s.rs" % k), os.path.join(d, "demo.rs"))
notes = open(os.path.join(wt, "OUT", "NOTES.md")).read() if os.path.exists(os.path.join(wt, "OUT", "NOTES.md")) else ""
log = "/verif/work/seedlogs/%s_%s.log" % (prop, k)
meta = dict(property=prop, crate=crate, demo_location="crates/%s/tests/seeded_%s_%s.rs" % (crate, prop, k),
            needs_to_manifest=needs,
            confirmed=dict(what_i_ran="tools/confirm_seed.sh %s %s %s %s" % (wt, prop, k, crate),
                           demo_on_clean_tree="pass", demo_with_patch="fail", existing_crate_tests_with_patch="pass"),
            check_result=result, author_notes=notes[:6000])
json.dump(meta, open(os.path.join(d, "meta.json"), "w"), indent=1)
print("kept", d)
