// Kani leaf crate for C14 (generated on every run; the function items below are the text of /repo).
#![allow(unused)]
use std::time::Duration;

/// harness knob: the power has overflowed to +inf (multiplier > 1 and a large attempt)
static mut VX_POW_OVERFLOWED: bool = false;
/// ASSUMED contract of f64::powi for base in [1,10]: result >= 1, non-decreasing in the exponent, may be +inf, never NaN.
/// The stub also checks what the caller hands over: the exponent saturates instead of wrapping.
fn vx_powi(base: f64, exponent: i32, attempt: usize) -> f64 {
    #[cfg(kani)]
    {
        assert!(exponent >= 0, "exponent must not wrap negative");
        assert!(exponent as usize == attempt.min(i32::MAX as usize), "exponent saturates at i32::MAX");
        if unsafe { VX_POW_OVERFLOWED } { return f64::INFINITY; }
        let r: f64 = kani::any();
        kani::assume(!r.is_nan() && r >= 1.0);
        kani::assume(exponent != 0 || r == 1.0);
        return r;
    }
    #[cfg(not(kani))]
    base.powi(exponent)
}
/// ASSUMED contract of rand's random_range(min..=max): panics on an empty or non-finite range, otherwise returns a value in it.
fn vx_random_range(min: f64, max: f64) -> f64 {
    #[cfg(kani)]
    {
        assert!(min <= max, "random_range would panic: empty range");
        assert!(min.is_finite() && max.is_finite(), "random_range would panic: non-finite bound");
        let r: f64 = kani::any();
        kani::assume(r >= min && r <= max);
        return r;
    }
    #[cfg(not(kani))]
    min
}

/// std's Duration::from_secs_f64 panics iff the argument is negative, not finite, or overflows Duration (>= 2^64 s)
fn vx_from_secs_f64(secs: f64) -> Duration {
    #[cfg(kani)]
    {
        assert!(secs >= 0.0 && secs.is_finite() && secs < 18_446_744_073_709_551_616.0, "from_secs_f64 would panic");
        return Duration::new(kani::any(), 0);
    }
    #[cfg(not(kani))]
    Duration::from_secs_f64(secs)
}

static mut VX_SECS: f64 = 0.0;
fn vx_as_secs_f64(_d: Duration) -> f64 {
    #[cfg(kani)]
    { return unsafe { VX_SECS }; }
    #[cfg(not(kani))]
    _d.as_secs_f64()
}

//@item backoff fn:capped_exponential

struct ExponentialRandomBackoff { initial_interval: Duration, multiplier: f64, randomization_factor: f64, max_interval: Option<Duration> }
impl ExponentialRandomBackoff {
//@item backoff fn:ExponentialRandomBackoff::randomize
}

#[cfg(kani)]
mod harnesses {
    use super::*;
    fn any_duration() -> Duration {
        let s: u64 = kani::any();
        let n: u32 = kani::any();
        kani::assume(n < 1_000_000_000);
        Duration::new(s, n)
    }
    fn any_multiplier() -> f64 {
        let m: f64 = kani::any();
        kani::assume(m >= 1.0 && m <= 10.0);
        m
    }
    /// C14: total (no panic, no overflow) and never above max_interval, for ALL durations, attempts, multipliers in [1,10], caps.
    #[kani::proof]
    fn backoff_total_and_capped() {
        let initial = any_duration();
        let m = any_multiplier();
        let attempt: usize = kani::any();
        let has_cap: bool = kani::any();
        let cap = any_duration();
        let r = capped_exponential(initial, m, attempt, if has_cap { Some(cap) } else { None });
        if has_cap { assert!(r <= cap); }
    }
    /// C14: a zero initial interval stays zero for every attempt and multiplier (0 x multiplier^attempt == 0, also once the power
    /// has overflowed to +inf), unless the cap itself is zero
    #[kani::proof]
    fn backoff_zero_initial_stays_zero() {
        let m = any_multiplier();
        let attempt: usize = kani::any();
        let has_cap: bool = kani::any();
        let cap = any_duration();
        let r = capped_exponential(Duration::ZERO, m, attempt, if has_cap { Some(cap) } else { None });
        assert!(r == Duration::ZERO);
    }
    /// C14 (non-decreasing, "never above max_interval afterwards"): once multiplier^attempt has overflowed, a positive initial interval
    /// yields exactly the cap (Duration::MAX without one) — the delay does not fall back below what earlier attempts returned
    #[kani::proof]
    fn backoff_saturates_at_the_cap() {
        let initial = any_duration();
        kani::assume(initial > Duration::ZERO);
        let m = any_multiplier();
        let attempt: usize = kani::any();
        let has_cap: bool = kani::any();
        let cap = any_duration();
        unsafe { VX_POW_OVERFLOWED = true; }
        let r = capped_exponential(initial, m, attempt, if has_cap { Some(cap) } else { None });
        assert!(r == if has_cap { cap } else { Duration::MAX });
    }
    /// C14 (non-decreasing): a positive initial interval never yields a zero delay unless the cap is zero
    #[kani::proof]
    fn backoff_positive_stays_positive() {
        let initial = any_duration();
        kani::assume(initial > Duration::ZERO);
        let m = any_multiplier();
        let attempt: usize = kani::any();
        let has_cap: bool = kani::any();
        let cap = any_duration();
        kani::assume(cap > Duration::ZERO);
        let r = capped_exponential(initial, m, attempt, if has_cap { Some(cap) } else { None });
        assert!(r > Duration::ZERO);
    }
    /// C14: jittered delay never panics (range is non-empty and finite, conversion in range) for every base delay and factor in [0,1].
    #[kani::proof]
    fn jitter_total() {
        let d = Duration::new(kani::any(), 0);
        let secs: f64 = kani::any();
        kani::assume(secs >= 0.0 && secs <= 18_446_744_073_709_551_616.0);
        unsafe { VX_SECS = secs; }
        let f: f64 = kani::any();
        kani::assume(f >= 0.0 && f <= 1.0);
        let b = ExponentialRandomBackoff { initial_interval: d, multiplier: 2.0, randomization_factor: f, max_interval: None };
        let r = b.randomize(d);
        let _ = r;
    }
    /// vacuity: the assumptions above are satisfiable and the interesting branches reachable
    #[kani::proof]
    fn backoff_cover() {
        let initial = any_duration();
        let m = any_multiplier();
        let attempt: usize = kani::any();
        let cap = any_duration();
        let r = capped_exponential(initial, m, attempt, Some(cap));
        kani::cover!(r == cap && attempt > 3, "cap reached");
        kani::cover!(r < cap && attempt > 3, "below cap");
        kani::cover!(attempt > i32::MAX as usize, "attempt beyond i32");
    }
}
