RT = "crates/tower-resilience-retry/src/"
CRATE = dict(
    files={"backoff": RT + "backoff.rs"},
    rules=[],
    items={
        "capped_exponential": dict(rules=[
            # R14: CBMC's powi model costs minutes; abstracted by the assumed contract of vx_powi (>= 1 for base >= 1, never NaN, may be +inf)
            ("sub", "R14-powi", r"multiplier\s*\.\s*powi\(\s*exponent\s*\)", "vx_powi(multiplier, exponent, attempt)", 1),
        ]),
        "ExponentialRandomBackoff::randomize": dict(rules=[
            ("sub", "R14-rng", r"use rand::Rng;", "", 1),
            ("sub", "R14-rng", r"let mut rng = rand::rng\(\);", "", 1),
            ("sub", "R14-rng", r"rng\s*\.\s*random_range\(\s*([\w.]+(?:\([^()]*\))?)\s*\.\.=\s*([\w.]+(?:\([^()]*\))?)\s*\)", r"vx_random_range(\1, \2)", 1),
            # the conversion itself is std's; its documented panic condition becomes an assertion on the argument
            ("sub", "R14-conv", r"Duration::from_secs_f64\(", "vx_from_secs_f64(", 1),
            # as_secs_f64 is std's: its result is a finite f64 in [0, 2^64) and the same for the same duration (assumed)
            ("sub", "R14-conv", r"duration\.as_secs_f64\(\)", "vx_as_secs_f64(duration)", -1),
        ]),
    },
)
