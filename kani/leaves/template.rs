// Kani leaf crate: the float expressions Verus abstracts (R14), on the text of /repo, loop-free, full domain.
#![allow(unused)]
use std::time::Duration;

fn leaf_failure_rate(failure_count: usize, total_count: usize) -> f64 {
//@leaf circuit Circuit::evaluate_window/failure_rate
}
fn leaf_decreased(current: usize, decrease_factor: f64) -> usize {
//@leaf budget AimdController::record_failure/decreased
}
fn leaf_weighted_count(previous_count: usize, previous_weight: f64, current_count: usize) -> f64 {
//@leaf limiter SlidingCounterState::try_acquire/weighted_count
}
fn leaf_buckets_passed(elapsed_secs: f64, bucket_secs: f64) -> u32 {
//@leaf limiter SlidingCounterState::maybe_rotate_bucket/buckets_passed
}

/// SlidingCounterState::estimate_wait_time, VERBATIM (std Duration conversions kept)
struct SlidingCounterStateV { limit_for_period: usize, bucket_duration: std::time::Duration, previous_count: usize, current_count: usize }
impl SlidingCounterStateV {
//@item limiterv fn:SlidingCounterState::estimate_wait_time
}

#[cfg(kani)]
mod harnesses {
    use super::*;
    /// C04: the failure rate of a non-empty window lies in [0,1]
    #[kani::proof]
    fn ratio_in_unit_interval() {
        let f: usize = kani::any(); let t: usize = kani::any();
        kani::assume(t > 0 && f <= t);
        let r = leaf_failure_rate(f, t);
        assert!(r >= 0.0 && r <= 1.0);
    }
    /// C04: zero failures give rate 0.0, so a positive threshold never trips on them
    #[kani::proof]
    fn ratio_of_zero_failures_is_zero() {
        let t: usize = kani::any();
        kani::assume(t > 0);
        assert!(leaf_failure_rate(0, t) == 0.0);
    }
    /// C13: multiplicative decrease never increases the limit (factor in [0,1], limit <= 2^53)
    #[kani::proof]
    fn aimd_scale_never_increases() {
        let c: usize = kani::any(); let f: f64 = kani::any();
        kani::assume(c <= (1usize << 53) && f >= 0.0 && f <= 1.0);
        assert!(leaf_decreased(c, f) <= c);
    }
    /// C02: weighted_count < limit implies current_count < limit, so an admitted call keeps current_count <= limit
    #[kani::proof]
    fn weighted_lt_limit_implies_room() {
        let p: usize = kani::any(); let c: usize = kani::any(); let limit: usize = kani::any(); let w: f64 = kani::any();
        kani::assume(w >= 0.0 && w <= 1.0);
        if leaf_weighted_count(p, w, c) < limit as f64 { assert!(c < limit); }
    }
    /// C02/C15, BOUNDED (the harness over counts <= 10^4 with a symbolic previous_count did not close in 20 min and was removed):
    /// when no slot is free the estimated wait is at least one microsecond of a 1 s bucket. previous_count is enumerated as a constant 0..=3,
    /// limit <= 4, current <= limit; ratio symbolic. Bound stated in the evidence; never counted as proved.
    #[kani::proof]
    #[kani::unwind(5)]
    fn estimate_wait_positive_when_full_small() {
        use std::time::Duration;
        let limit: usize = kani::any(); let current: usize = kani::any();
        let ratio: f64 = kani::any();
        kani::assume(ratio >= 0.0 && ratio <= 0.999_999);
        kani::assume(limit >= 1 && limit <= 4 && current <= limit);
        let mut p: usize = 0;
        while p <= 3 {
            let s = SlidingCounterStateV { limit_for_period: limit, bucket_duration: Duration::from_secs(1), previous_count: p, current_count: current };
            let weighted = leaf_weighted_count(p, 1.0 - ratio, current);
            if !(weighted < limit as f64) {
                let w = s.estimate_wait_time(ratio);
                assert!(w >= Duration::from_micros(1));
            }
            p += 1;
        }
    }
    /// a DENSE limiter (many permits per short bucket), where the estimate is smallest: previous bucket full with 10_000 admissions,
    /// bucket of 1 ms, limit 10_000, half of the current bucket used; the position in the bucket symbolic. The smallest estimate is (0.1 / 10_000) x 1 ms = 10 ns: still not zero.
    #[kani::proof]
    fn estimate_wait_positive_when_full_dense() {
        use std::time::Duration;
        let limit: usize = 10_000; let current: usize = 5_000;
        let ratio: f64 = kani::any();
        kani::assume(ratio >= 0.0 && ratio <= 0.999_999);
        let p: usize = 10_000;
        let s = SlidingCounterStateV { limit_for_period: limit, bucket_duration: Duration::from_millis(1), previous_count: p, current_count: current };
        let weighted = leaf_weighted_count(p, 1.0 - ratio, current);
        if !(weighted < limit as f64) {
            let w = s.estimate_wait_time(ratio);
            assert!(w >= Duration::from_nanos(1));
        }
    }
    /// thorough tier: the same bounded check on a wider domain (previous_count 0..=7 enumerated, limit 1..=8)
    #[kani::proof]
    #[kani::unwind(9)]
    fn estimate_wait_positive_when_full_medium() {
        use std::time::Duration;
        let limit: usize = kani::any(); let current: usize = kani::any();
        let ratio: f64 = kani::any();
        kani::assume(ratio >= 0.0 && ratio <= 0.999_999);
        kani::assume(limit >= 1 && limit <= 8 && current <= limit);
        let mut p: usize = 0;
        while p <= 7 {
            let s = SlidingCounterStateV { limit_for_period: limit, bucket_duration: Duration::from_secs(1), previous_count: p, current_count: current };
            let weighted = leaf_weighted_count(p, 1.0 - ratio, current);
            if !(weighted < limit as f64) {
                let w = s.estimate_wait_time(ratio);
                assert!(w >= Duration::from_micros(1));
            }
            p += 1;
        }
    }
    /// C19: the three IEEE facts the chaos unit assumes about its comparison shims (bodies `a < b`, `a > 0.0`)
    #[kani::proof]
    fn chaos_float_facts() {
        let rate: f64 = kani::any(); let x: f64 = kani::any();
        kani::assume(rate >= 0.0 && rate <= 1.0);
        assert!(!(1.0 < rate));
        if x >= 0.0 && x < 1.0 { assert!(x < 1.0_f64); }
        assert!(1.0_f64 > 0.0);
        if !(rate > 0.0) { assert!(rate == 0.0); }
    }
    /// C15 (thorough): two idle bucket periods forget both buckets
    #[kani::proof]
    fn two_buckets_idle() {
        let e: f64 = kani::any(); let b: f64 = kani::any();
        kani::assume(b >= 0.000_000_001 && b <= 1.0e10 && e >= 2.0 * b && e <= 1.0e19);
        assert!(leaf_buckets_passed(e, b) >= 2);
    }
}
