RL = "crates/tower-resilience-ratelimiter/src/"
CRATE = dict(
    files={"limiter": RL + "limiter.rs"},
    rules=[],
    items={
        "SlidingCounterState::estimate_wait_time": dict(rules=[
            # the Duration conversions are std's; only the sign/zero-ness of the f64 argument matters for "positive wait"
            ("sub", "R14-conv", r"Duration::from_secs_f64\(", "vx_from_secs_f64(", None),
            ("sub", "R14-conv", r"self\.bucket_duration\.as_secs_f64\(\)", "self.bucket_secs", None),
            ("sub", "R14-conv", r"Duration::ZERO", "0.0", 1),
            ("sub", "R14-conv", r"-> Duration", "-> f64", 1),
        ]),
    },
    leaf_subs={
        "AimdController::record_failure/decreased": [(r"self\.config\.decrease_factor", "decrease_factor")],
        "SlidingCounterState::try_acquire/weighted_count": [(r"self\.previous_count", "previous_count"), (r"self\.current_count", "current_count")],
        "SlidingCounterState::maybe_rotate_bucket/buckets_passed": [(r"elapsed\.as_secs_f64\(\)", "elapsed_secs"), (r"self\.bucket_duration\.as_secs_f64\(\)", "bucket_secs")],
    },
)
