RL = "crates/tower-resilience-ratelimiter/src/"
CRATE = dict(
    files={"limiter": RL + "limiter.rs", "limiterv": RL + "limiter.rs"},
    rules=[],
    items={
        # verbatim copy for the bounded harness: no rewrite at all
        "limiterv:SlidingCounterState::estimate_wait_time": dict(rules=[]),
    },
    leaf_subs={
        "AimdController::record_failure/decreased": [(r"self\.config\.decrease_factor", "decrease_factor")],
        "SlidingCounterState::try_acquire/weighted_count": [(r"self\.previous_count", "previous_count"), (r"self\.current_count", "current_count")],
        "SlidingCounterState::maybe_rotate_bucket/buckets_passed": [(r"elapsed\.as_secs_f64\(\)", "elapsed_secs"), (r"self\.bucket_duration\.as_secs_f64\(\)", "bucket_secs")],
    },
)
